#!/bin/bash
# tools/seed_regress.sh <Cxx> — re-run the property's quick check against every stored seeded change of that property
# (own property only), in scratch worktrees; appends "<seed> rc=<rc>" lines to .scratch/seed_regress.log
P=$1
cd "$(dirname "$0")/.."
mkdir -p .scratch
for d in seeded/${P}_*; do
  [ -f $d/patch.diff ] || continue
  WT=/tmp/regress_$$_$(basename $d)
  git -C /repo worktree add -q --detach "$WT" HEAD || continue
  if ( cd "$WT" && git apply "$OLDPWD/$d/patch.diff" 2>/dev/null ); then
    OUT=$(VERIF_REPO="$WT" timeout 1500 ./check $P 2>&1); RC=$?
    echo "$(basename $d) rc=$RC $(echo "$OUT" | grep -c '^VIOLATION') violation line(s)" >> .scratch/seed_regress.log
  else
    echo "$(basename $d) patch-does-not-apply" >> .scratch/seed_regress.log
  fi
  git -C /repo worktree remove --force "$WT"
  rm -rf .scratch/alt_$(python3 -c "import hashlib;print(hashlib.sha1('$WT'.encode()).hexdigest()[:8])")
done
