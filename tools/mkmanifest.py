#!/usr/bin/env python3
"""Regenerate /verif/MANIFEST.json from props.json (one source of truth) and validate it."""
import json, os, sys
ROOT = os.path.dirname(os.path.dirname(os.path.abspath(__file__)))
props = {fn[:-5]: json.load(open(os.path.join(ROOT, "props.d", fn))) for fn in sorted(os.listdir(os.path.join(ROOT, "props.d"))) if fn.endswith(".json")}
ids = [json.loads(l)["id"] for l in open(os.path.join(ROOT, "properties.jsonl")) if l.strip()]
meta = props.get("_meta", {})
checks, na = [], []
for pid in ids:
    p = props.get(pid)
    if not p or not p.get("claimed") or pid not in meta.get("integrated", []):
        na.append({"property_id": pid, "reason": (p or {}).get("na_reason", "check not built yet in this round; the technique applies (see DESIGN.md section 6) and the property will be claimed once its model, theorems and correspondence check run green")})
        continue
    checks.append({
        "property_id": pid,
        "quick_cmd": "./check %s --tier quick" % pid,
        "thorough_cmd": "./check %s --tier thorough" % pid,
        "evidence_file": "/verif/evidence/%s.json" % pid,
        "replay_cmd_template": "./check %s --replay {path}" % pid,
        "engine": "lean-model+harness",
        "level_claimed": {"category": "proof", "text": p["level_text"], "design_ref": p.get("design_ref", "DESIGN.md section 6, " + pid)},
        "level_note": p["level_note"],
        "technique": p.get("technique", "Lean 4 theorems over a hand-written executable model, tied to the Rust code by a differential correspondence check (Rust harness vs compiled Lean driver), with the executable Spec evaluated on the implementation's observations"),
    })
claimed = [c["property_id"] for c in checks]
m = {
    "version": 1,
    "setup_cmd": "./setup.sh",
    "hooks": {
        "guard": "cargo feature `verif_hooks` (off by default, not part of `all_components`)",
        "enable": "harness/Cargo.toml: log4rs = { path = \"/repo\", features = [\"verif_hooks\", \"json_format\", \"toml_format\", \"gzip\", \"zstd\"] }",
        "baseline_off_cmd": "cd /repo && cargo test --workspace --no-fail-fast --offline",
        "source_commits": meta.get("hook_commits", []),
        "add_only": True,
    },
    "engines": [
        {"name": "lean-model", "path": "lean/", "serves_properties": claimed, "kind_free_text": "Lean 4 executable models, specifications, theorems (Log4rsModel/Properties/Cxx.lean) and the compiled line-protocol driver"},
        {"name": "harness", "path": "harness/", "serves_properties": claimed, "kind_free_text": "Rust crate with a path dependency on /repo (hooks on): case generators and executors running the real code"},
        {"name": "translator", "path": "tools/translate.py", "serves_properties": [c for c in claimed if any(str(t).startswith("tools/translate.py") for t in props[c].get("trusted", []))], "kind_free_text": "second tie, run by ./check on every run: regenerates the table-like and declarative parts of the Rust source (unit tables, formatter table, serde config structs and kind registry, SGR bytes, colour-mode cascade, JSON field order, buffer capacities, $ENV{ syntax) as Lean literals in a scratch file Gen_Cxx.lean with kernel-checked obligations `Cxx_gen_*` stating model table = source table; counted in the evidence's obligations/discharged and listed under coverage.translated_from_source"},
        {"name": "check", "path": "check", "serves_properties": claimed, "kind_free_text": "per-property run: lake build, axiom audit, translation obligations (tools/translate.py + lake env lean), cargo build, generate, execute, drive, compare, failing-input search, shrink, replay, evidence"},
    ],
    "checks": checks,
    "notes": "Every check is `./check Cxx`; known findings are in known_findings.json; seeded changes and which check catches them are in DESIGN.md section 10 and seeded/.",
    "not_applicable": na,
}
json.dump(m, open(os.path.join(ROOT, "MANIFEST.json"), "w"), indent=1)

# Driver/Main.lean and harness/src/main.rs dispatch only to integrated modules, so that a builder's
# half-finished Driver/Cxx.lean or cxx.rs lying in the tree cannot break the build of the others.
integrated = [i for i in ids if i in meta.get("integrated", [])]
main_lean = open(os.path.join(ROOT, "lean", "Driver", "Main.lean")).read()
import re
head_end = main_lean.index("open Driver")
imports = "import Driver.Common\n" + "".join("import Driver.%s\n" % i for i in integrated)
disp_start = main_lean.index("def dispatch")
disp_end = main_lean.index("def answerLine")
dispatch = "def dispatch (id : String) : Option Handler :=\n  match id with\n" + "".join('  | "%s" => some Driver.%s.handle\n' % (i, i) for i in integrated) + "  | _ => none\n\n"
main_lean = imports + main_lean[head_end:disp_start] + dispatch + main_lean[disp_end:]
open(os.path.join(ROOT, "lean", "Driver", "Main.lean"), "w").write(main_lean)
mr = open(os.path.join(ROOT, "harness", "src", "main.rs")).read()
mr = re.sub(r"(?m)^mod c\d\d;\n", "", mr)
# harness modules that are not a property of their own (`sys`: the end-to-end slice hosted in C01,
# dispatched to from c01.rs); listed in props.d/_meta.json `extra_harness_modules`
extra_mods = meta.get("extra_harness_modules", [])
for x in extra_mods:
    mr = re.sub(r"(?m)^mod %s;\n" % re.escape(x), "", mr)
mr = mr.replace("mod rng;\n", "mod rng;\n" + "".join("mod %s;\n" % i.lower() for i in integrated) + "".join("mod %s;\n" % x for x in extra_mods), 1)
mr = re.sub(r'(?m)^        "C\d\d" => Some\(\(c\d\d::gen, c\d\d::exec\)\),\n', "", mr)
mr = mr.replace("    match id {\n", "    match id {\n" + "".join('        "%s" => Some((%s::gen, %s::exec)),\n' % (i, i.lower(), i.lower()) for i in integrated), 1)
mr = re.sub(r'(?m)^        "c\d\d" => c\d\d::child\(&args\[1\.\.\]\),\n', "", mr)
childs = [i for i in integrated if i in meta.get("child_modules", ["C02", "C16", "C18"])]
mr = mr.replace("    match args[0].as_str() {\n        _ => 2,", "    match args[0].as_str() {\n" + "".join('        "%s" => %s::child(&args[1..]),\n' % (i.lower(), i.lower()) for i in childs) + "        _ => 2,", 1)
open(os.path.join(ROOT, "harness", "src", "main.rs"), "w").write(mr)
try:
    import jsonschema
    jsonschema.validate(m, json.load(open("/root/.vp/MANIFEST.schema.json")))
    print("MANIFEST.json valid; claimed:", " ".join(claimed))
except ImportError:
    print("MANIFEST.json written (jsonschema not available to validate); claimed:", " ".join(claimed))
