#!/usr/bin/env python3
"""
pty_run.py <tty|pipe> <tty|pipe> -- cmd [args…]

Runs `cmd` with its stdout and stderr each attached to a fresh pseudo-terminal (`tty`) or to a
pipe (`pipe`) — one pty PER stream, so that the two streams are captured separately even when both
are terminals — and stdin on /dev/null. The environment is passed through unchanged.
Prints exactly one line:   rc=<exit code> out=<hex|_> err=<hex|_>

The terminal's output post-processing (ONLCR: "\n" -> "\r\n") is switched off on the slave side
before the child starts; if that is not possible the translation is undone on the captured bytes.
Used by the C18 check (harness/src/c18.rs). Do not rename to pty.py (it would shadow the module).
"""
import os
import pty
import select
import subprocess
import sys
import termios
import time

TIMEOUT_S = 20.0


def open_stream(kind):
    """returns (parent_read_fd, child_write_fd, needs_crlf_undo)"""
    if kind == "tty":
        master, slave = pty.openpty()
        undo = True
        try:
            attrs = termios.tcgetattr(slave)
            attrs[1] &= ~termios.OPOST          # oflag: no output post-processing at all
            termios.tcsetattr(slave, termios.TCSANOW, attrs)
            undo = bool(termios.tcgetattr(slave)[1] & termios.OPOST)
        except termios.error:
            undo = True
        return master, slave, undo
    if kind == "pipe":
        r, w = os.pipe()
        return r, w, False
    raise SystemExit("stream kind must be tty or pipe")


def main():
    argv = sys.argv[1:]
    if len(argv) < 4 or argv[2] != "--":
        raise SystemExit(__doc__)
    out_r, out_w, out_undo = open_stream(argv[0])
    err_r, err_w, err_undo = open_stream(argv[1])
    devnull = os.open(os.devnull, os.O_RDONLY)
    proc = subprocess.Popen(argv[3:], stdin=devnull, stdout=out_w, stderr=err_w, close_fds=True)
    # the child holds the only remaining write ends: EOF / EIO arrives when it is gone
    os.close(out_w)
    os.close(err_w)
    os.close(devnull)
    bufs = {out_r: bytearray(), err_r: bytearray()}
    open_fds = [out_r, err_r]
    deadline = time.monotonic() + TIMEOUT_S
    timed_out = False
    while open_fds:
        left = deadline - time.monotonic()
        if left <= 0:
            timed_out = True
            proc.kill()
            break
        ready, _, _ = select.select(open_fds, [], [], min(left, 1.0))
        for fd in ready:
            try:
                chunk = os.read(fd, 65536)
            except OSError:          # EIO: every slave fd of the pty is closed
                chunk = b""
            if chunk:
                bufs[fd] += chunk
            else:
                open_fds.remove(fd)
                os.close(fd)
    rc = proc.wait()
    if timed_out:
        rc = 124
    elif rc < 0:
        rc = 128 - rc

    def fin(fd, undo):
        b = bytes(bufs[fd])
        if undo:
            b = b.replace(b"\r\n", b"\n")
        return b.hex() if b else "_"

    sys.stdout.write("rc=%d out=%s err=%s\n" % (rc, fin(out_r, out_undo), fin(err_r, err_undo)))


if __name__ == "__main__":
    main()
