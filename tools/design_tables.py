#!/usr/bin/env python3
"""Regenerate the machine-written tables of DESIGN.md (between <!-- BEGIN x --> / <!-- END x --> markers):
   status   : per property — claimed?, theorems, cases of the last quick run, lean/rust line counts
   findings : known_findings.json
   seeded   : seeded/*/meta.json — which check catches which change"""
import json, os, glob, re, subprocess
ROOT = os.path.dirname(os.path.dirname(os.path.abspath(__file__)))
def load(p, d=None):
    try: return json.load(open(p))
    except Exception: return d
man = load(os.path.join(ROOT, "MANIFEST.json"), {"checks": []})
claimed = [c["property_id"] for c in man["checks"]]
titles = {json.loads(l)["id"]: json.loads(l)["title"] for l in open(os.path.join(ROOT, "properties.jsonl")) if l.strip()}
rows = ["| Id | Claimed | Theorems (audited) | Cases in last run (distinct non-trivial) | Tier/wall of last run | Title |", "|---|---|---|---|---|---|"]
for pid in sorted(titles):
    ev = load(os.path.join(ROOT, "evidence", pid + ".json"))
    if ev:
        c = ev["coverage"]
        rows.append("| %s | %s | %d/%d | %d (%d) | %s %.0f s | %s |" % (pid, "yes" if pid in claimed else "no", c.get("discharged", 0), c.get("obligations", 0), c.get("evaluations", 0), c.get("distinct_nontrivial", 0), ev["tier"], ev["wall_s"], titles[pid]))
    else:
        rows.append("| %s | %s | – | – | – | %s |" % (pid, "yes" if pid in claimed else "no", titles[pid]))
status = "\n".join(rows)
kf = load(os.path.join(ROOT, "known_findings.json"), {"findings": []})["findings"]
rows = ["| Property | Status | Signature | What | Witness (case line) |", "|---|---|---|---|---|"]
for f in kf:
    rows.append("| %s | %s%s | `%s` | %s | `%s` |" % (f["property"], f["status"], (" (" + f["commit"][:60] + ")") if f.get("commit") else "", f["signature"], f["what"].replace("|", "\\|"), f.get("witness", "").replace("\t", "␉")[:160].replace("|", "\\|")))
findings = "\n".join(rows)
rows = ["| Seed | Breaks | Needs to manifest | Caught by (quick tier) | Notes |", "|---|---|---|---|---|"]
for d in sorted(glob.glob(os.path.join(ROOT, "seeded", "*"))):
    m = load(os.path.join(d, "meta.json"))
    if not m: continue
    hist = m.get("check_history", [])
    missed_first = [h for h in hist if h["rc"] == 0]
    note = m.get("note", "")
    if missed_first and m.get("caught_by"):
        note = ("missed at first; check strengthened. " + note).strip()
    rows.append("| %s | %s | %s | %s | %s |" % (os.path.basename(d), (m.get("breaks") or "")[:220].replace("|", "\\|").replace("\n", " "), (m.get("needs_to_manifest") or "")[:200].replace("|", "\\|").replace("\n", " "), ", ".join(m.get("caught_by", [])) or "**none**", note))
seeded = "\n".join(rows)
p = os.path.join(ROOT, "DESIGN.md")
s = open(p).read()
for name, body in (("status", status), ("findings", findings), ("seeded", seeded)):
    b, e = "<!-- BEGIN %s -->" % name, "<!-- END %s -->" % name
    if b in s and e in s:
        s = s[:s.index(b) + len(b)] + "\n" + body + "\n" + s[s.index(e):]
open(p, "w").write(s)
print("tables regenerated")
