#!/usr/bin/env python3
"""
tools/translate.py --repo <checkout> --prop Cxx --out <file.lean>

TRANSLATOR: regenerates, from the Rust sources of <checkout>/src as they are NOW, the table-like and
declarative parts of log4rs as Lean definitions (`namespace Gen`), together with machine-checked
EQUALITY OBLIGATIONS `Cxx_gen_<name>` stating that the hand-written model's tables are exactly the
tables of the source.  The generated file is self-contained (imports model modules of Log4rsModel),
is checked with `cd lean && lake env lean <file.lean>`, and ends with a meta snippet that prints
`GEN-OK <name> axioms=[…]` for every obligation.  An item the translator cannot find or parse gives
`GEN-UNREADABLE <name>: <what was expected, file:line>` (the obligation then counts as broken).

A sidecar `<file.lean>.json` maps every obligation to its line range in the generated file, to the
source location it pins and to a one-line description (used by ./check to name a broken obligation).

Pure Python 3, standard library only.  The Rust side is read with a small tolerant tokenizer
(comments, strings, raw strings, chars vs lifetimes) and balanced-bracket matching, so whitespace,
line breaks, comments and (where the order carries no meaning) the order of match arms do not matter.
Semantic refactorings are NOT followed: they legitimately break the obligation.

What is trusted in the translator (named in evidence `trusted_base`): the tokenizer and the pattern
recognisers below; the naming maps Rust type/variant → model constant (`TYPE_SCHEMA`, `NAMED_SCHEMA`,
`STRUCT_MODEL`, `TRAIT_MODEL`, `log::Level`/`LevelFilter` numbering, `FormattedChunk` variant → model
constructor); the cfg evaluation (all cargo features on, unix, not test).
"""
import argparse, json, os, re, sys


# =============================================================================================
# Rust tokenizer
# =============================================================================================
class Tok:
    __slots__ = ("k", "v", "line")

    def __init__(self, k, v, line):
        self.k, self.v, self.line = k, v, line

    def __repr__(self):
        return "%s:%r@%d" % (self.k, self.v, self.line)


PUNCT3 = ("..=", "...", "<<=", ">>=")
PUNCT2 = ("::", "->", "=>", "==", "!=", "<=", ">=", "&&", "||", "..", "+=", "-=", "*=", "/=", "|=", "&=", "^=")
ESC = {"n": "\n", "t": "\t", "r": "\r", "0": "\0", "\\": "\\", '"': '"', "'": "'"}


class LexError(Exception):
    pass


def _unescape(s, i, n, line):
    """s[i] is the char after a backslash; returns (char or '', new index)"""
    c = s[i]
    if c in ESC:
        return ESC[c], i + 1
    if c == "x":
        return chr(int(s[i + 1:i + 3], 16)), i + 3
    if c == "u":
        j = s.index("}", i)
        return chr(int(s[i + 2:j].replace("_", ""), 16)), j + 1
    if c == "\n":  # line continuation: skip following white space
        i += 1
        while i < n and s[i] in " \t\r\n":
            i += 1
        return "", i
    raise LexError("unknown escape \\%s at line %d" % (c, line))


def lex(src):
    toks, i, n, line = [], 0, len(src), 1
    while i < n:
        c = src[i]
        if c == "\n":
            line += 1; i += 1; continue
        if c in " \t\r":
            i += 1; continue
        if src.startswith("//", i):
            while i < n and src[i] != "\n":
                i += 1
            continue
        if src.startswith("/*", i):
            depth, i = 1, i + 2
            while i < n and depth:
                if src.startswith("/*", i):
                    depth += 1; i += 2
                elif src.startswith("*/", i):
                    depth -= 1; i += 2
                else:
                    if src[i] == "\n":
                        line += 1
                    i += 1
            continue
        # raw strings r"…", r#"…"#, br"…"
        m = re.match(r'b?r(#*)"', src[i:i + 40])
        if m:
            hashes = m.group(1)
            start = i + m.end()
            end = src.index('"' + hashes, start)
            val = src[start:end]
            toks.append(Tok("bstr" if src[i] == "b" else "str", val, line))
            line += val.count("\n")
            i = end + 1 + len(hashes)
            continue
        if c == '"' or (c == "b" and i + 1 < n and src[i + 1] == '"'):
            kind = "str"
            if c == "b":
                kind = "bstr"; i += 1
            i += 1
            out, l0 = [], line
            while src[i] != '"':
                if src[i] == "\\":
                    ch, i = _unescape(src, i + 1, n, line)
                    out.append(ch)
                    continue
                if src[i] == "\n":
                    line += 1
                out.append(src[i]); i += 1
            i += 1
            toks.append(Tok(kind, "".join(out), l0))
            continue
        if c == "'" or (c == "b" and i + 1 < n and src[i + 1] == "'"):
            kind = "char"
            j = i
            if c == "b":
                kind = "byte"; j += 1
            # char literal or lifetime?
            if src[j + 1] == "\\":
                ch, k = _unescape(src, j + 2, n, line)
                if src[k] != "'":
                    raise LexError("bad char literal at line %d" % line)
                toks.append(Tok(kind, ch, line)); i = k + 1
                continue
            if j + 2 < n and src[j + 2] == "'":
                toks.append(Tok(kind, src[j + 1], line)); i = j + 3
                continue
            if kind == "char":
                m = re.match(r"'[A-Za-z_][A-Za-z0-9_]*", src[i:i + 80])
                if m:
                    toks.append(Tok("lt", m.group(0), line)); i += m.end()
                    continue
            # fall through: the letter b as an identifier start
        if c.isalpha() or c == "_":
            m = re.match(r"[A-Za-z_][A-Za-z0-9_]*", src[i:i + 200])
            w = m.group(0)
            if w == "r" and src.startswith("r#", i) and re.match(r"r#[A-Za-z_]", src[i:i + 3]):
                m = re.match(r"r#[A-Za-z_][A-Za-z0-9_]*", src[i:i + 200])
                w = m.group(0)[2:]
                i += 2
            toks.append(Tok("id", w, line)); i += len(w)
            continue
        if c.isdigit():
            m = re.match(r"0x[0-9a-fA-F_]+|0o[0-7_]+|0b[01_]+|[0-9][0-9_]*(\.[0-9][0-9_]*)?([eE][+-]?[0-9_]+)?", src[i:i + 100])
            body = m.group(0)
            j = i + len(body)
            ms = re.match(r"(u8|u16|u32|u64|u128|usize|i8|i16|i32|i64|i128|isize|f32|f64)\b", src[j:j + 6])
            if ms:
                j += ms.end()
            toks.append(Tok("num", body.replace("_", ""), line)); i = j
            continue
        for p in PUNCT3:
            if src.startswith(p, i):
                toks.append(Tok("p", p, line)); i += 3
                break
        else:
            for p in PUNCT2:
                if src.startswith(p, i):
                    toks.append(Tok("p", p, line)); i += 2
                    break
            else:
                toks.append(Tok("p", c, line)); i += 1
    return toks


def num_value(t):
    v = t.v
    if v.startswith("0x"):
        return int(v[2:], 16)
    if v.startswith("0o"):
        return int(v[2:], 8)
    if v.startswith("0b"):
        return int(v[2:], 2)
    return int(v)


OPEN = {"(": ")", "[": "]", "{": "}"}
CLOSE = {")": "(", "]": "[", "}": "{"}


class Unreadable(Exception):
    """an expected item was not found / not of the expected shape"""

    def __init__(self, what, where=""):
        Exception.__init__(self, what)
        self.what, self.where = what, where


class RustFile:
    """token list of one source file + bracket pairs + item index"""

    def __init__(self, repo, rel):
        self.rel = rel
        self.path = os.path.join(repo, rel)
        try:
            self.text = open(self.path, encoding="utf-8").read()
        except OSError:
            raise Unreadable("source file missing", rel)
        try:
            self.T = lex(self.text)
        except (LexError, ValueError, IndexError) as e:
            raise Unreadable("cannot tokenize (%s)" % e, rel)
        self.pair = {}
        st = []
        for i, t in enumerate(self.T):
            if t.k == "p" and t.v in OPEN:
                st.append(i)
            elif t.k == "p" and t.v in CLOSE:
                # tolerate imbalance: pop to the nearest matching opener
                while st and self.T[st[-1]].v != CLOSE[t.v]:
                    st.pop()
                if st:
                    j = st.pop()
                    self.pair[j] = i
                    self.pair[i] = j
        self._inactive = None

    # ---- small helpers ---------------------------------------------------------------------
    def at(self, i):
        return "%s:%d" % (self.rel, self.T[i].line if 0 <= i < len(self.T) else 0)

    def is_p(self, i, v):
        return 0 <= i < len(self.T) and self.T[i].k == "p" and self.T[i].v == v

    def is_id(self, i, v=None):
        return 0 <= i < len(self.T) and self.T[i].k == "id" and (v is None or self.T[i].v == v)

    def text_of(self, lo, hi):
        return " ".join(t.v if t.k != "str" else json.dumps(t.v) for t in self.T[lo:hi])

    def attrs_before(self, i):
        """attribute groups (token ranges inside #[ … ]) directly before the item keyword at i,
        in source order; visibility and qualifiers are skipped"""
        j = i
        while True:
            if self.is_id(j - 1) and self.T[j - 1].v in ("pub", "unsafe", "async", "extern", "default"):
                j -= 1
            elif self.is_p(j - 1, ")") and self.is_id(self.pair.get(j - 1, -9) - 1, "pub"):
                j = self.pair[j - 1] - 1
            else:
                break
        out = []
        while self.is_p(j - 1, "]") and (j - 1) in self.pair and self.is_p(self.pair[j - 1] - 1, "#"):
            o = self.pair[j - 1]
            out.append((o + 1, j - 1))
            j = o - 1
        out.reverse()
        return out, j

    def attr_list(self, i):
        """attributes before i, as parsed (name, args-token-range) after cfg_attr expansion"""
        groups, start = self.attrs_before(i)
        out = []
        for lo, hi in groups:
            out.extend(self._expand_attr(lo, hi))
        return out, start

    def _expand_attr(self, lo, hi):
        if self.is_id(lo, "cfg_attr") and self.is_p(lo + 1, "("):
            close = self.pair[lo + 1]
            parts = self.split_top(lo + 2, close, ",")
            if parts and cfg_eval(self, parts[0][0], parts[0][1]):
                out = []
                for a, b in parts[1:]:
                    out.extend(self._expand_attr(a, b))
                return out
            return []
        return [(lo, hi)]

    def split_top(self, lo, hi, sep, angles=False):
        """split the token range [lo,hi) at top-level separators; with `angles` the generic brackets
        < > of a type context nest as well"""
        parts, start, i, ang = [], lo, lo, 0
        while i < hi:
            t = self.T[i]
            if t.k == "p" and t.v in OPEN and i in self.pair:
                i = self.pair[i] + 1
                continue
            if angles and t.k == "p":
                if t.v == "<":
                    ang += 1
                elif t.v == ">":
                    ang = max(0, ang - 1)
            if t.k == "p" and t.v == sep and ang == 0:
                parts.append((start, i)); start = i + 1
            i += 1
        if start < hi:
            parts.append((start, hi))
        return parts

    # ---- cfg ---------------------------------------------------------------------------------
    def cfg_ok(self, i):
        attrs, _ = self.attr_list(i)
        for lo, hi in attrs:
            if self.is_id(lo, "cfg") and self.is_p(lo + 1, "("):
                if not cfg_eval(self, lo + 2, self.pair[lo + 1]):
                    return False
        return True

    def item_end(self, i):
        """index one past the item starting with the keyword at i: the first top-level `;` or the
        end of the first `{…}` block"""
        j = i
        while j < len(self.T):
            t = self.T[j]
            if t.k == "p" and t.v == ";":
                return j + 1
            if t.k == "p" and t.v == "{" and j in self.pair:
                return self.pair[j] + 1
            if t.k == "p" and t.v in ("(", "[") and j in self.pair:
                j = self.pair[j] + 1
                continue
            j += 1
        return len(self.T)

    def inactive(self):
        if self._inactive is None:
            self._inactive = []
            for i, t in enumerate(self.T):
                if t.k == "id" and t.v in ("mod", "struct", "enum", "fn", "impl", "const", "static", "use", "type", "trait"):
                    if not self.cfg_ok(i):
                        self._inactive.append((i, self.item_end(i)))
        return self._inactive

    def active(self, i):
        return not any(lo <= i < hi for lo, hi in self.inactive())

    # ---- items -------------------------------------------------------------------------------
    def find_kw(self, kw, name, lo=0, hi=None):
        """active items `kw name` in [lo,hi)"""
        hi = len(self.T) if hi is None else hi
        out = []
        for i in range(lo, hi - 1):
            if self.is_id(i, kw) and self.is_id(i + 1, name) and self.active(i):
                if kw == "fn" and not (self.is_p(i + 2, "(") or self.is_p(i + 2, "<")):
                    continue
                out.append(i)
        return out

    def one_kw(self, kw, name, lo=0, hi=None):
        xs = self.find_kw(kw, name, lo, hi)
        if len(xs) != 1:
            raise Unreadable("expected exactly one active `%s %s` (found %d)" % (kw, name, len(xs)),
                             self.at(xs[0]) if xs else (self.at(lo) if lo else self.rel + ":1"))
        return xs[0]

    def body(self, i):
        """(open, close) of the first {…} block of the item at i; None for `;` items"""
        j = i
        while j < len(self.T):
            t = self.T[j]
            if t.k == "p" and t.v == ";":
                return None
            if t.k == "p" and t.v == "{" and j in self.pair:
                return j, self.pair[j]
            if t.k == "p" and t.v in ("(", "[") and j in self.pair:
                j = self.pair[j] + 1
                continue
            j += 1
        return None

    def fn_body(self, name, lo=0, hi=None):
        i = self.one_kw("fn", name, lo, hi)
        b = self.body(i)
        if b is None:
            raise Unreadable("fn %s has no body" % name, self.at(i))
        return i, b[0], b[1]

    def impls(self, pred):
        """active impl blocks whose header token texts satisfy pred(list of str)"""
        out = []
        for i, t in enumerate(self.T):
            if t.k == "id" and t.v == "impl" and self.active(i):
                if i > 0 and self.T[i - 1].k == "p" and self.T[i - 1].v in (":", "(", ",", "->", "&", "<", "=", "+"):
                    continue
                b = self.body(i)
                if b is None:
                    continue
                hdr = [x.v for x in self.T[i + 1:b[0]]]
                if pred(hdr):
                    out.append((i, b[0], b[1]))
        return out

    def find_seq(self, seq, lo, hi):
        """first index in [lo,hi) where the token texts equal seq (kinds id/p only)"""
        n = len(seq)
        for i in range(lo, hi - n + 1):
            ok = True
            for k in range(n):
                t = self.T[i + k]
                if t.k in ("str", "bstr", "char", "byte") or t.v != seq[k]:
                    ok = False
                    break
            if ok:
                return i
        return -1


def cfg_eval(F, lo, hi):
    """cfg predicate over tokens [lo,hi): all cargo features on, unix, linux, not test, not windows"""
    T = F.T
    if lo >= hi:
        return True
    if F.is_id(lo) and F.is_p(lo + 1, "(") and F.pair.get(lo + 1) == hi - 1:
        op = T[lo].v
        parts = F.split_top(lo + 2, hi - 1, ",")
        vals = [cfg_eval(F, a, b) for a, b in parts]
        if op == "not":
            return not (vals[0] if vals else True)
        if op == "all":
            return all(vals)
        if op == "any":
            return any(vals)
        return True
    if F.is_id(lo) and F.is_p(lo + 1, "=") and lo + 2 < hi and T[lo + 2].k == "str":
        k, v = T[lo].v, T[lo + 2].v
        if k == "feature":
            return True
        if k == "target_os":
            return v == "linux"
        if k == "target_family":
            return v == "unix"
        return True
    if F.is_id(lo) and hi == lo + 1:
        return {"test": False, "windows": False, "unix": True, "debug_assertions": True, "doc": False,
                "miri": False}.get(T[lo].v, True)
    return True


# =============================================================================================
# Lean rendering
# =============================================================================================
def lean_char(c):
    o = ord(c)
    if c == "'":
        return "'\\''"
    if c == "\\":
        return "'\\\\'"
    if c == "\n":
        return "'\\n'"
    if c == "\t":
        return "'\\t'"
    if 32 <= o < 127:
        return "'%s'" % c
    return "(Char.ofNat %d)" % o


def lean_chars(s):
    if s == "":
        return "([] : List Char)"
    return "[" + ",".join(lean_char(c) for c in s) + "]"


class Out:
    """the generated Lean file: definitions, obligations, the closing report"""

    def __init__(self, pid, imports, opens):
        self.pid = pid
        self.lines = ["import Lean"] + ["import " + m for m in imports] + [
            "/- GENERATED by tools/translate.py on every check run — do not edit, do not commit. -/",
            "set_option autoImplicit false"]
        if opens:
            self.lines.append("open " + " ".join(opens))
        self.obl = []          # dicts: name, lo, hi, src, what, unreadable
        self.seen = set()

    def line_no(self):
        return len(self.lines) + 1

    def raw(self, text):
        self.lines.extend(text.split("\n"))

    def define(self, text):
        self.raw("namespace Gen")
        self.raw(text)
        self.raw("end Gen")

    def theorem(self, name, stmt, proof, src, what):
        full = "%s_gen_%s" % (self.pid, name)
        assert full not in self.seen, full
        self.seen.add(full)
        lo = self.line_no()
        self.raw("theorem %s : %s := %s" % (full, stmt, proof))
        self.obl.append({"name": full, "lo": lo, "hi": self.line_no() - 1, "src": src, "what": what,
                         "unreadable": None})

    def unreadable(self, name, e, what):
        full = "%s_gen_%s" % (self.pid, name)
        if full in self.seen:
            return
        self.seen.add(full)
        msg = "GEN-UNREADABLE %s: %s (%s)" % (full, e.what, e.where or "?")
        lo = self.line_no()
        self.raw("#eval IO.eprintln %s" % json.dumps(msg))
        self.obl.append({"name": full, "lo": lo, "hi": lo, "src": e.where, "what": what, "unreadable": msg})

    def finish(self):
        names = [o["name"] for o in self.obl if not o["unreadable"]]
        self.raw("open Lean Elab Command in")
        self.raw("run_cmd do")
        self.raw("  let names : List Name := [%s]" % ", ".join("`" + n for n in names))
        self.raw("  for n in names do")
        self.raw("    let env ← getEnv")
        self.raw("    if env.contains n then")
        self.raw("      let axs ← collectAxioms n")
        self.raw("      logInfo m!\"GEN-OK {n} axioms={axs.toList}\"")
        self.raw("    else")
        self.raw("      logInfo m!\"GEN-MISSING {n}\"")
        return "\n".join(self.lines) + "\n"


def guarded(out, name, what, fn):
    """run one extractor+emitter; any failure to read the source becomes GEN-UNREADABLE"""
    try:
        fn()
    except Unreadable as e:
        out.unreadable(name, e, what)
    except Exception as e:   # never crash, never skip silently: the obligation counts as broken
        out.unreadable(name, Unreadable("translator could not parse the item (%s: %s)" % (type(e).__name__, e), "?"), what)


# =============================================================================================
# shared recognisers
# =============================================================================================
def eval_int_expr(F, lo, hi):
    """integer literal products / sums: 1024 * 1024, (1 << 10) is not supported"""
    parts = F.split_top(lo, hi, "+")
    total = 0
    for a, b in parts:
        prod = 1
        for c, d in F.split_top(a, b, "*"):
            if d - c == 1 and F.T[c].k == "num" and re.match(r"^(0x[0-9a-fA-F]+|0o[0-7]+|0b[01]+|[0-9]+)$", F.T[c].v):
                prod *= num_value(F.T[c])
            elif F.is_p(c, "(") and F.pair.get(c) == d - 1:
                prod *= eval_int_expr(F, c + 1, d - 1)
            else:
                raise Unreadable("expected an integer literal product, found `%s`" % F.text_of(c, d), F.at(c))
        total += prod
    return total


def if_chain(F, i):
    """F.T[i] is `if`: returns ([(cond_lo, cond_hi, body_lo, body_hi)], else_body or None, end)"""
    arms = []
    while True:
        assert F.is_id(i, "if")
        j = i + 1
        while not (F.is_p(j, "{") and j in F.pair):
            if F.T[j].k == "p" and F.T[j].v in ("(", "[") and j in F.pair:
                j = F.pair[j]
            j += 1
        arms.append((i + 1, j, j + 1, F.pair[j]))
        k = F.pair[j] + 1
        if F.is_id(k, "else"):
            if F.is_id(k + 1, "if"):
                i = k + 1
                continue
            if F.is_p(k + 1, "{"):
                return arms, (k + 2, F.pair[k + 1]), F.pair[k + 1] + 1
        return arms, None, k


def ci_disjuncts(F, lo, hi, method="eq_ignore_ascii_case"):
    """`x.eq_ignore_ascii_case("a") || x.eq_ignore_ascii_case("b")` → (receiver, [literals])"""
    lits, recv = [], None
    for a, b in F.split_top(lo, hi, "||"):
        ok = (b - a == 6 and F.is_id(a) and F.is_p(a + 1, ".") and F.is_id(a + 2, method) and F.is_p(a + 3, "(")
              and F.T[a + 4].k == "str" and F.is_p(a + 5, ")"))
        if not ok:
            raise Unreadable("expected `<unit>.%s(\"…\")`, found `%s`" % (method, F.text_of(a, b)), F.at(a))
        if recv is None:
            recv = F.T[a].v
        elif recv != F.T[a].v:
            raise Unreadable("the comparisons of one chain name different receivers", F.at(a))
        lits.append(F.T[a + 4].v)
    return recv, lits


def unit_chain(F, lo, hi, what):
    """the first if-chain in [lo,hi) whose first condition calls eq_ignore_ascii_case"""
    for i in range(lo, hi):
        if F.is_id(i, "if") and not F.is_id(i - 1, "else"):
            arms, els, end = if_chain(F, i)
            if any(F.is_id(k, "eq_ignore_ascii_case") for k in range(arms[0][0], arms[0][1])):
                return i, arms, els
    raise Unreadable("expected the `if unit.eq_ignore_ascii_case(…) … else if …` chain of %s" % what, F.at(lo))


# =============================================================================================
# serde-derived config structs → ConfigDoc.Schema values (C14, C20)
# =============================================================================================
SIZE_RS = "src/append/rolling_file/policy/compound/trigger/size.rs"
TIME_RS = "src/append/rolling_file/policy/compound/trigger/time.rs"
ONSTARTUP_RS = "src/append/rolling_file/policy/compound/trigger/onstartup.rs"
CD = "Log4rs.ConfigDoc."

# Rust scalar / external types → leaf schemas, and their `Default::default()` as a Typed value
TYPE_SCHEMA = {
    "String": (".leaf .str", ".str []"),
    "bool": (".leaf .bool", ".bool false"),
    "u32": (".leaf .u32", ".nat 0"),
    "u64": (".leaf .u64", ".nat 0"),
    "LevelFilter": (".leaf .level", None),          # log::LevelFilter (external crate)
    "TimeTriggerInterval": (".leaf .interval", None),
    "ConfigTarget": (".leaf .target", None),
}
# hand-written kind-tagged `Deserialize` impls → the model's schema constant (their inner tables are
# pinned by the `tagged_*` / `registry_*` obligations)
NAMED_SCHEMA = {
    "EncoderConfig": CD + "encoderS", "Policy": CD + "policyS", "Trigger": CD + "triggerS",
    "Roller": CD + "rollerS", "FilterConfig": CD + "filterS", "AppenderConfig": CD + "appenderS",
}
# `#[serde(deserialize_with = "f")]`: (type the field must have, schema)
DESER_WITH = {
    "deserialize_limit": ("u64", ".leaf .size"),
    "de_duration": ("Option<Duration>", ".opt (.leaf .duration)"),
}
LEVEL_FILTER = {"Off": 0, "Error": 1, "Warn": 2, "Info": 3, "Debug": 4, "Trace": 5}   # log crate
LEVEL = {"Error": 1, "Warn": 2, "Info": 3, "Debug": 4, "Trace": 5}                    # log crate
# derived config struct → (source file, model constant)
STRUCT_MODEL = {
    "RawConfig": ("src/config/raw.rs", "docS"),
    "Root": ("src/config/raw.rs", "rootS"),
    "Logger": ("src/config/raw.rs", "loggerS"),
    "FileAppenderConfig": ("src/append/file.rs", "fileAppenderS"),
    "ConsoleAppenderConfig": ("src/append/console.rs", "consoleAppenderS"),
    "RollingFileAppenderConfig": ("src/append/rolling_file/mod.rs", "rollingFileAppenderS"),
    "CompoundPolicyConfig": ("src/append/rolling_file/policy/compound/mod.rs", "compoundPolicyS"),
    "FixedWindowRollerConfig": ("src/append/rolling_file/policy/compound/roll/fixed_window.rs", "fixedWindowRollerS"),
    "DeleteRollerConfig": ("src/append/rolling_file/policy/compound/roll/delete.rs", "deleteRollerS"),
    "SizeTriggerConfig": (SIZE_RS, "sizeTriggerS"),
    "TimeTriggerConfig": (TIME_RS, "timeTriggerS"),
    "OnStartUpTriggerConfig": (ONSTARTUP_RS, "onStartUpTriggerS"),
    "PatternEncoderConfig": ("src/encode/pattern/mod.rs", "patternEncoderS"),
    "JsonEncoderConfig": ("src/encode/json.rs", "jsonEncoderS"),
    "ThresholdFilterConfig": ("src/filter/threshold.rs", "thresholdS"),
}


class Repo:
    def __init__(self, root):
        self.root = root
        self.files = {}

    def file(self, rel):
        if rel not in self.files:
            self.files[rel] = RustFile(self.root, rel)
        return self.files[rel]


def parse_meta(F, lo, hi):
    """`serde(a, b = "x", c(d))` inner list → dict name → True | str | (lo,hi)"""
    out = {}
    for a, b in F.split_top(lo, hi, ","):
        if not F.is_id(a):
            raise Unreadable("unexpected attribute argument `%s`" % F.text_of(a, b), F.at(a))
        k = F.T[a].v
        if b == a + 1:
            out[k] = True
        elif F.is_p(a + 1, "=") and b == a + 3 and F.T[a + 2].k == "str":
            out[k] = F.T[a + 2].v
        elif F.is_p(a + 1, "(") and F.pair.get(a + 1) == b - 1:
            out[k] = (a + 2, b - 1)
        else:
            raise Unreadable("unexpected attribute argument `%s`" % F.text_of(a, b), F.at(a))
    return out


def tool_attrs(F, attrs, tool):
    """merge all `#[tool(...)]` groups of an attribute list"""
    out = {}
    for lo, hi in attrs:
        if F.is_id(lo, tool) and F.is_p(lo + 1, "(") and F.pair.get(lo + 1) == hi - 1:
            out.update(parse_meta(F, lo + 2, hi - 1))
    return out


def derives(F, attrs):
    out = set()
    for lo, hi in attrs:
        if F.is_id(lo, "derive") and F.is_p(lo + 1, "("):
            for a, b in F.split_top(lo + 2, F.pair[lo + 1], ","):
                out.add(F.T[b - 1].v)
    return out


def type_str(F, lo, hi):
    """canonical text of a type: paths reduced to their last segment, lifetimes dropped"""
    out, i = [], lo
    while i < hi:
        t = F.T[i]
        if t.k == "id" and F.is_p(i + 1, "::"):
            i += 2
            continue
        if t.k == "lt":
            i += 1
            if F.is_p(i, ","):
                i += 1
            continue
        if t.k == "p" and t.v == "&":
            i += 1
            continue
        out.append(t.v); i += 1
    return "".join(out)


class Field:
    pass


def parse_fields(F, lo, hi):
    """named fields of a struct body [lo,hi)"""
    fields = []
    for a, b in F.split_top(lo, hi, ",", angles=True):
        # leading attributes
        attrs, i = [], a
        while F.is_p(i, "#") and F.is_p(i + 1, "[") and (i + 1) in F.pair:
            attrs.extend(F._expand_attr(i + 2, F.pair[i + 1]))
            i = F.pair[i + 1] + 1
        if F.is_id(i, "pub"):
            i += 1
            if F.is_p(i, "(") and i in F.pair:
                i = F.pair[i] + 1
        if not (F.is_id(i) and F.is_p(i + 1, ":")):
            raise Unreadable("expected `name: Type`, found `%s`" % F.text_of(i, b), F.at(i))
        f = Field()
        f.name, f.line, f.ty, f.attrs = F.T[i].v, F.T[i].line, type_str(F, i + 2, b), attrs
        f.cfg = all(cfg_eval(F, lo2 + 2, F.pair[lo2 + 1]) for lo2, hi2 in attrs if F.is_id(lo2, "cfg") and F.is_p(lo2 + 1, "("))
        if f.cfg:
            fields.append(f)
    return fields


class Struct:
    pass


def read_struct(repo, rel, name):
    F = repo.file(rel)
    i = F.one_kw("struct", name)
    s = Struct()
    s.F, s.name, s.at = F, name, F.at(i)
    s.attrs, _ = F.attr_list(i)
    s.derives = derives(F, s.attrs)
    s.serde = tool_attrs(F, s.attrs, "serde")
    s.derivative = tool_attrs(F, s.attrs, "derivative")
    b = F.body(i)
    s.fields = parse_fields(F, b[0] + 1, b[1]) if b else []
    for f in s.fields:
        f.serde = tool_attrs(F, f.attrs, "serde")
        f.derivative = tool_attrs(F, f.attrs, "derivative")
    return s


def fn_literal(F, fname):
    """the body of `fn fname() -> T { <literal> }` as a Typed value"""
    i, lo, hi = F.fn_body(fname)
    body = F.T[lo + 1:hi]
    if len(body) == 1 and body[0].k == "num":
        return ".nat %d" % num_value(body[0])
    if len(body) == 1 and body[0].k == "id" and body[0].v in ("true", "false"):
        return ".bool " + body[0].v
    if len(body) == 1 and body[0].k == "str":
        return ".str " + lean_chars(body[0].v)
    if len(body) == 3 and body[0].v == "LevelFilter" and body[1].v == "::" and body[2].v in LEVEL_FILTER:
        return ".level %d" % LEVEL_FILTER[body[2].v]
    raise Unreadable("default function %s is not a single literal: `%s`" % (fname, F.text_of(lo + 1, hi)), F.at(i))


def split_generic(ty):
    m = re.match(r"^(\w+)<(.*)>$", ty)
    if not m:
        return ty, None
    args, depth, cur = [], 0, ""
    for ch in m.group(2):
        if ch == "<":
            depth += 1
        elif ch == ">":
            depth -= 1
        if ch == "," and depth == 0:
            args.append(cur); cur = ""
        else:
            cur += ch
    if cur:
        args.append(cur)
    return m.group(1), args


class SchemaGen:
    """translation of the derived structs of one run; `lazy_value` = what an untyped
    `serde_value::Value` entry of RawConfig.appenders is typed as later (appenders_lossy)"""

    def __init__(self, repo):
        self.repo = repo
        self.done = {}      # struct name → (lean def text, where)

    def ty_schema(self, s, f, ty):
        """(schema expr, Default::default() as Typed or None)"""
        head, args = split_generic(ty)
        where = "%s:%d" % (s.F.rel, f.line)
        if args is None:
            if ty in TYPE_SCHEMA:
                return TYPE_SCHEMA[ty]
            if ty in NAMED_SCHEMA:
                return NAMED_SCHEMA[ty], None
            if ty in STRUCT_MODEL:
                self.struct(ty)
                return "Gen." + ty, (lambda: self.struct_default(ty))
            if ty == "Value" and s.name == "RawConfig" and f.name == "appenders":
                return self.raw_appender_entry(s, f), None
            raise Unreadable("field %s.%s has a type the translator has no schema for: %s" % (s.name, f.name, ty), where)
        if head == "Option" and len(args) == 1:
            return ".opt (%s)" % self.ty_schema(s, f, args[0])[0], ".nothing"
        if head == "Vec" and len(args) == 1:
            return ".seqOf (%s)" % self.ty_schema(s, f, args[0])[0], ".list []"
        if head in ("HashMap", "BTreeMap") and len(args) == 2 and args[0] == "String":
            return ".mapOf (%s)" % self.ty_schema(s, f, args[1])[0], ".dict []"
        raise Unreadable("field %s.%s has a type the translator has no schema for: %s" % (s.name, f.name, ty), where)

    def raw_appender_entry(self, s, f):
        """RawConfig.appenders: HashMap<String, Value> — the entries stay raw and are typed one by one
        by `appenders_lossy` through `split_appender`, which removes `filters` and keeps its entries raw"""
        F = s.F
        where = "%s:%d" % (F.rel, f.line)
        i, lo, hi = F.fn_body("appenders_lossy")
        if F.find_seq(["split_appender", "("], lo, hi) < 0:
            raise Unreadable("RawConfig.appenders holds raw values but appenders_lossy does not type them through split_appender", F.at(i))
        j, lo2, hi2 = F.fn_body("split_appender")
        ok = any(F.T[k].k == "str" and F.T[k].v == "filters" for k in range(lo2, hi2)) and \
            F.find_seq(["deserialize_into"], lo2, hi2) >= 0
        if not ok:
            raise Unreadable("split_appender does not have the expected shape (remove `filters`, deserialize_into)", F.at(j))
        k = F.find_seq(["deserialize_into", "::", "<"], lo, hi)
        if k < 0 or not any(F.is_id(m, "FilterConfig") for m in range(k, min(k + 12, hi))):
            raise Unreadable("appenders_lossy does not type the raw filter entries as FilterConfig", F.at(i))
        return ".lazy %sappenderLazyS" % CD

    def struct_default(self, name):
        """`Default::default()` of a derived struct as a Typed record (derive(Default) or derivative)"""
        rel, _ = STRUCT_MODEL[name]
        s = read_struct(self.repo, rel, name)
        if "Default" not in s.derives and "Default" not in s.derivative:
            raise Unreadable("struct %s is used with #[serde(default)] but derives no Default" % name, s.at)
        items = []
        for f in s.fields:
            d = None
            dv = f.derivative.get("Default")
            if isinstance(dv, tuple):
                m = parse_meta(s.F, dv[0], dv[1])
                v = m.get("value")
                if isinstance(v, str):
                    mm = re.match(r"^(\w+)\(\)$", v.strip())
                    if not mm:
                        raise Unreadable("derivative default of %s.%s is not a call `f()`" % (name, f.name), "%s:%d" % (s.F.rel, f.line))
                    d = fn_literal(s.F, mm.group(1))
            if d is None:
                d = self.ty_schema(s, f, f.ty)[1]
            if callable(d):
                d = d()
            if d is None:
                raise Unreadable("no literal Default for field %s.%s" % (name, f.name), "%s:%d" % (s.F.rel, f.line))
            items.append("(%s, %s)" % (lean_chars(self.key(f)), d))
        return ".record [%s]" % ", ".join(items)

    @staticmethod
    def key(f):
        r = f.serde.get("rename")
        return r if isinstance(r, str) else f.name

    def struct(self, name):
        """Lean definition `def <name> : Schema := .struct deny [fields]` (memoised)"""
        if name in self.done:
            return self.done[name]
        rel, _ = STRUCT_MODEL[name]
        s = read_struct(self.repo, rel, name)
        if "Deserialize" not in s.derives:
            raise Unreadable("struct %s does not derive Deserialize" % name, s.at)
        for k in s.serde:
            if k not in ("deny_unknown_fields",):
                raise Unreadable("container attribute serde(%s) on %s is outside the translated fragment" % (k, name), s.at)
        deny = bool(s.serde.get("deny_unknown_fields"))
        fields = []
        for f in s.fields:
            where = "%s:%d" % (s.F.rel, f.line)
            for k in f.serde:
                if k not in ("default", "rename", "deserialize_with", "skip_deserializing", "skip"):
                    raise Unreadable("field attribute serde(%s) on %s.%s is outside the translated fragment" % (k, name, f.name), where)
            if f.serde.get("skip_deserializing") or f.serde.get("skip"):
                continue
            dw = f.serde.get("deserialize_with")
            if dw is not None:
                if dw not in DESER_WITH:
                    raise Unreadable("unknown deserialize_with function %r on %s.%s" % (dw, name, f.name), where)
                want, schema = DESER_WITH[dw]
                if f.ty != want:
                    raise Unreadable("%s.%s: deserialize_with=%s expects type %s, found %s" % (name, f.name, dw, want, f.ty), where)
                s.F.fn_body(dw)     # the function must still exist in this file
                tydef = ".nothing" if f.ty.startswith("Option<") else TYPE_SCHEMA.get(f.ty, (None, None))[1]
                implicit_opt = False       # with deserialize_with a missing Option field is an error
            else:
                schema, tydef = self.ty_schema(s, f, f.ty)
                implicit_opt = f.ty.startswith("Option<")
            d = f.serde.get("default")
            if d is True:
                if callable(tydef):
                    tydef = tydef()
                if tydef is None:
                    raise Unreadable("#[serde(default)] on %s.%s: no literal Default known for type %s" % (name, f.name, f.ty), where)
                dflt = "some (%s)" % tydef
            elif isinstance(d, str):
                dflt = "some (%s)" % fn_literal(s.F, d)
            elif implicit_opt:
                dflt = "some .nothing"
            else:
                dflt = "none"
            fields.append("    (%s, %s, %s)" % (lean_chars(self.key(f)), dflt, schema))
        text = "def %s : %sSchema :=\n  .struct %s [\n%s]" % (name, CD, "true" if deny else "false", ",\n".join(fields))
        if not fields:
            text = "def %s : %sSchema := .struct %s []" % (name, CD, "true" if deny else "false")
        self.done[name] = (text, s.at)
        return self.done[name]


def emit_struct_obligations(out, repo, names, sg=None):
    """for every struct: `Gen.<Name>` and `model constant = Gen.<Name>` (rfl: both sides are closed
    constructor terms; the field helpers req/dfl/optF unfold to the same triples)"""
    sg = sg or SchemaGen(repo)
    emitted = set()
    for name in names:
        oname = "struct_" + name
        what = "serde-derived config struct %s: field names (after rename), required / Option / #[serde(default…)] with the default's literal value, field types, deny_unknown_fields  ↔  ConfigDoc.%s" % (name, STRUCT_MODEL[name][1])

        def one(name=name, oname=oname, what=what):
            text, where = sg.struct(name)
            # dependencies first (Root / Logger inside RawConfig)
            for dep in list(sg.done):
                if dep not in emitted and dep != name:
                    out.define(sg.done[dep][0]); emitted.add(dep)
            if name not in emitted:
                out.define(text); emitted.add(name)
            out.theorem(oname, "%s%s = Gen.%s" % (CD, STRUCT_MODEL[name][1], name), "rfl", where, what)
        guarded(out, oname, what, one)
    return sg


# =============================================================================================
# C20 — size / interval unit tables, trigger config defaults
# =============================================================================================
def c20_size_units(repo):
    F = repo.file(SIZE_RS)
    _, dlo, dhi = F.fn_body("deserialize_limit")
    vi, lo, hi = F.fn_body("visit_str", dlo, dhi)
    i, arms, els = unit_chain(F, lo, hi, "the size visitor")
    table, recv = [], None
    for clo, chi, blo, bhi in arms:
        r, lits = ci_disjuncts(F, clo, chi)
        recv = recv or r
        if r != recv:
            raise Unreadable("the unit chain compares different variables", F.at(clo))
        # body: Some(number)  |  number.checked_mul(<int expr>)
        if bhi - blo == 4 and F.is_id(blo, "Some") and F.is_p(blo + 1, "(") and F.is_id(blo + 2) and F.is_p(blo + 3, ")"):
            mult = 1
        elif (F.is_id(blo) and F.is_p(blo + 1, ".") and F.is_id(blo + 2, "checked_mul") and F.is_p(blo + 3, "(")
              and F.pair.get(blo + 3) == bhi - 1):
            mult = eval_int_expr(F, blo + 4, bhi - 1)
        else:
            raise Unreadable("expected `Some(number)` or `number.checked_mul(<literal product>)`, found `%s`" % F.text_of(blo, bhi), F.at(blo))
        for l in lits:
            table.append((l, mult))
    if els is None or F.find_seq(["return", "Err"], els[0], els[1]) < 0:
        raise Unreadable("the unit chain must end in `else { return Err(…) }` (unknown unit rejected)", F.at(i))
    return table, F.at(i)


def c20_time_units(repo):
    F = repo.file(TIME_RS)
    impls = F.impls(lambda h: "Deserialize" in h and "for" in h and h[h.index("for") + 1:h.index("for") + 2] == ["TimeTriggerInterval"])
    if len(impls) != 1:
        raise Unreadable("expected one `impl Deserialize for TimeTriggerInterval`", F.rel + ":1")
    _, ilo, ihi = impls[0]
    vi, lo, hi = F.fn_body("visit_str", ilo, ihi)
    i, arms, els = unit_chain(F, lo, hi, "the interval visitor")
    table = []
    for clo, chi, blo, bhi in arms:
        _, lits = ci_disjuncts(F, clo, chi)
        # body: Some(TimeTriggerInterval::<Variant>(number))
        ok = (F.is_id(blo, "Some") and F.is_p(blo + 1, "(") and F.is_id(blo + 2, "TimeTriggerInterval") and F.is_p(blo + 3, "::")
              and F.is_id(blo + 4) and F.is_p(blo + 5, "(") and F.is_id(blo + 6) and F.is_p(blo + 7, ")") and F.is_p(blo + 8, ")")
              and bhi == blo + 9)
        if not ok:
            raise Unreadable("expected `Some(TimeTriggerInterval::<Variant>(number))`, found `%s`" % F.text_of(blo, bhi), F.at(blo))
        var = F.T[blo + 4].v
        for l in lits:
            table.append((l, var))
    if els is None or F.find_seq(["return", "Err"], els[0], els[1]) < 0:
        raise Unreadable("the unit chain must end in `else { return Err(…) }` (unknown unit rejected)", F.at(i))
    return table, F.at(i)


def lower_first(s):
    return s[:1].lower() + s[1:]


def gen_C20(repo, out):
    what = "size-unit chain of SizeTriggerConfig's visit_str: spelling → multiplier, in source order, eq_ignore_ascii_case compare, checked_mul, unknown unit rejected  ↔  Literals.sizeUnitTable"

    def size():
        table, where = c20_size_units(repo)
        out.define("def sizeUnitTable : List (List Char × Nat) :=\n  [" + ",\n   ".join("(%s, %d)" % (lean_chars(u), m) for u, m in table) + "]")
        out.theorem("size_units", "Log4rs.Literals.sizeUnitTable = Gen.sizeUnitTable", "by decide +kernel", where, what)
    guarded(out, "size_units", what, size)

    what2 = "interval-unit chain of TimeTriggerInterval's visit_str: spelling → TimeTriggerInterval variant, in source order, eq_ignore_ascii_case compare  ↔  Literals.timeUnitTable"

    def time():
        table, where = c20_time_units(repo)
        out.define("def timeUnitTable : List (List Char × Log4rs.Literals.TUnit) :=\n  [" + ",\n   ".join(
            "(%s, .%s)" % (lean_chars(u), lower_first(v)) for u, v in table) + "]")
        out.theorem("interval_units", "Log4rs.Literals.timeUnitTable = Gen.timeUnitTable", "by decide +kernel", where, what2)
    guarded(out, "interval_units", what2, time)
    emit_struct_obligations(out, repo, ["SizeTriggerConfig", "TimeTriggerConfig", "OnStartUpTriggerConfig"])


# =============================================================================================
# C14 — every derived config struct, the kind-tagged impls, the kind registry, ConfigTarget
# =============================================================================================
def match_arms(F, lo, hi):
    """arms of a match body [lo,hi): (pat_lo, pat_hi, body_lo, body_hi)"""
    arms, i = [], lo
    while i < hi:
        # attributes on arms are skipped
        while F.is_p(i, "#") and F.is_p(i + 1, "[") and (i + 1) in F.pair:
            i = F.pair[i + 1] + 1
        p0 = i
        while i < hi and not F.is_p(i, "=>"):
            if F.T[i].k == "p" and F.T[i].v in OPEN and i in F.pair:
                i = F.pair[i]
            i += 1
        if i >= hi:
            break
        p1 = i
        i += 1
        if F.is_p(i, "{") and i in F.pair:
            b0, b1 = i + 1, F.pair[i]
            i = F.pair[i] + 1
            if F.is_p(i, ","):
                i += 1
        else:
            b0 = i
            while i < hi and not F.is_p(i, ","):
                if F.T[i].k == "p" and F.T[i].v in OPEN and i in F.pair:
                    i = F.pair[i]
                i += 1
            b1 = i
            i += 1
        arms.append((p0, p1, b0, b1))
    return arms


TAGGED = {   # hand-written kind-tagged impls: type → (file, model constants the head is compared with)
    "AppenderConfig": ("src/append/mod.rs", ["appenderS"]),
    "FilterConfig": ("src/filter/mod.rs", ["filterS"]),
    "EncoderConfig": ("src/encode/mod.rs", ["encoderS"]),
    "Policy": ("src/append/rolling_file/mod.rs", ["policyS"]),
    "Trigger": ("src/append/rolling_file/policy/compound/mod.rs", ["triggerS"]),
    "Roller": ("src/append/rolling_file/policy/compound/mod.rs", ["rollerS"]),
}
TRAIT_MODEL = {"Append": ["appenderS", "appenderLazyS"], "Filter": ["filterS"], "Encode": ["encoderS"],
               "Policy": ["policyS"], "Trigger": ["triggerS"], "Roll": ["rollerS"]}


def read_tagged(repo, ty):
    """`impl Deserialize for <ty>`: the keys removed from the map, and what `None` means for each"""
    rel, _ = TAGGED[ty]
    F = repo.file(rel)
    impls = F.impls(lambda h: "Deserialize" in h and "for" in h and h[h.index("for") + 1:] == [ty])
    if len(impls) != 1:
        raise Unreadable("expected one hand-written `impl Deserialize for %s`" % ty, rel + ":1")
    ii, ilo, ihi = impls[0]
    _, lo, hi = F.fn_body("deserialize", ilo, ihi)
    if F.find_seq(["BTreeMap", "::", "<", "Value", ",", "Value", ">", "::", "deserialize"], lo, hi) < 0:
        raise Unreadable("impl Deserialize for %s no longer starts from BTreeMap::<Value, Value>::deserialize" % ty, F.at(ii))
    keys = []
    for i in range(lo, hi):
        if F.is_id(i, "remove") and F.is_p(i + 1, "(") and F.is_id(i - 2, "map") and F.is_id(i - 3, "match"):
            close = F.pair[i + 1]
            strs = [F.T[k].v for k in range(i + 2, close) if F.T[k].k == "str"]
            if len(strs) != 1 or not F.is_p(close + 1, "{"):
                raise Unreadable("expected `match map.remove(&Value::String(\"key\".to_owned())) {`", F.at(i))
            none = None
            for p0, p1, b0, b1 in match_arms(F, close + 2, F.pair[close + 1]):
                if p1 - p0 == 1 and F.is_id(p0, "None"):
                    if F.T[b0].k == "str" and F.is_p(b0 + 1, ".") and F.is_id(b0 + 2, "to_owned"):
                        none = ("kind", F.T[b0].v)
                    elif F.is_id(b0, "return") and F.find_seq(["missing_field"], b0, b1) >= 0:
                        none = ("required", None)
                    elif F.is_id(b0, "vec") and F.is_p(b0 + 1, "!") and F.is_p(b0 + 2, "[") and F.is_p(b0 + 3, "]"):
                        none = ("emptyvec", None)
                    else:
                        raise Unreadable("unexpected `None =>` arm `%s`" % F.text_of(b0, b1), F.at(b0))
            if none is None:
                raise Unreadable("no `None =>` arm for key %r" % strs[0], F.at(i))
            keys.append((strs[0], none, F.at(i)))
    if not keys or keys[0][0] != "kind":
        raise Unreadable("impl Deserialize for %s does not remove the key \"kind\" first" % ty, F.at(ii))
    return F, ii, keys


def path_to_file(repo, segs):
    base = "src/" + "/".join(segs)
    for rel in (base + ".rs", base + "/mod.rs"):
        if os.path.exists(os.path.join(repo.root, rel)):
            return rel
    raise Unreadable("no source file for module path %s" % "::".join(segs), "src/config/raw.rs")


def read_registry(repo):
    """Deserializers::default(): kind literal → deserializer → (trait, config struct)"""
    F = repo.file("src/config/raw.rs")
    impls = F.impls(lambda h: h[-3:] == ["Default", "for", "Deserializers"])
    if len(impls) != 1:
        raise Unreadable("expected `impl Default for Deserializers`", F.rel + ":1")
    ii, ilo, ihi = impls[0]
    _, lo, hi = F.fn_body("default", ilo, ihi)
    reg = []
    for i in range(lo, hi):
        if F.is_id(i, "insert") and F.is_p(i - 1, ".") and F.is_p(i + 1, "("):
            parts = F.split_top(i + 2, F.pair[i + 1], ",")
            if len(parts) != 2 or parts[0][1] - parts[0][0] != 1 or F.T[parts[0][0]].k != "str":
                raise Unreadable("expected `d.insert(\"kind\", path::Deserializer)`", F.at(i))
            kind = F.T[parts[0][0]].v
            segs = [F.T[k].v for k in range(parts[1][0], parts[1][1]) if F.T[k].k == "id"]
            if len(segs) < 2:
                raise Unreadable("expected a module path to the deserializer of kind %r" % kind, F.at(i))
            rel = path_to_file(repo, segs[:-1])
            G = repo.file(rel)
            dimpls = G.impls(lambda h: h[-3:] == ["Deserialize", "for", segs[-1]])
            if len(dimpls) != 1:
                raise Unreadable("expected one `impl Deserialize for %s`" % segs[-1], rel + ":1")
            _, dlo, dhi = dimpls[0]
            k = G.find_seq(["type", "Trait", "=", "dyn"], dlo, dhi)
            c = G.find_seq(["type", "Config", "="], dlo, dhi)
            if k < 0 or c < 0 or not G.is_p(c + 4, ";"):
                raise Unreadable("`type Trait = dyn …;` / `type Config = …;` not found in impl Deserialize for %s" % segs[-1], G.at(dlo))
            reg.append((G.T[k + 4].v, kind, G.T[c + 3].v, F.at(i)))
    if not reg:
        raise Unreadable("Deserializers::default() registers nothing", F.at(ii))
    return reg, F.at(ii)


def gen_C14(repo, out):
    sg = emit_struct_obligations(out, repo, list(STRUCT_MODEL))

    # --- hand-written kind-tagged impls: default kind, typed extras ------------------------------
    for ty in TAGGED:
        what = "hand-written `impl Deserialize for %s`: the key `kind`, its default when absent (or missing_field), the extra keys typed by the impl  ↔  defaultKind / extras of ConfigDoc.%s" % (ty, TAGGED[ty][1][0])

        def one(ty=ty, what=what):
            F, ii, keys = read_tagged(repo, ty)
            mode, lit = keys[0][1]
            if mode == "kind":
                dk = "some (some %s)" % lean_chars(lit)
            elif mode == "required":
                dk = "some none"
            else:
                raise Unreadable("the `kind` key of %s has an unexpected `None` arm" % ty, keys[0][2])
            st = read_struct(repo, TAGGED[ty][0], ty)
            extras, lazy_extras = [], []
            for key, (m, _), where in keys[1:]:
                fld = [f for f in st.fields if f.name == key]
                if m != "emptyvec" or len(fld) != 1 or fld[0].ty != "Vec<FilterConfig>":
                    raise Unreadable("extra key %r of %s is not a `Vec<FilterConfig>` defaulting to vec![]" % (key, ty), where)
                extras.append("(%s, some (.list []), .seqOf %sfilterS)" % (lean_chars(key), CD))
                lazy_extras.append("(%s, some (.list []), .seqOf (.lazy %sfilterS))" % (lean_chars(key), CD))
            stmts = ["%s%s.defaultKind = %s" % (CD, TAGGED[ty][1][0], dk),
                     "%s%s.extras = [%s]" % (CD, TAGGED[ty][1][0], ", ".join(extras))]
            if ty == "AppenderConfig":
                # the document keeps appender entries raw; split_appender removes `filters` and leaves
                # its entries raw (typed one by one as FilterConfig)
                G = repo.file("src/config/raw.rs")
                j, lo2, hi2 = G.fn_body("split_appender")
                strs = [G.T[k].v for k in range(lo2, hi2) if G.T[k].k == "str"]
                if strs != [x[0] for x in keys[1:]] or G.find_seq(["unwrap_or_default"], lo2, hi2) < 0:
                    raise Unreadable("split_appender does not remove exactly the extra keys of AppenderConfig with an empty default", G.at(j))
                stmts += ["%sappenderLazyS.defaultKind = %s" % (CD, dk),
                          "%sappenderLazyS.extras = [%s]" % (CD, ", ".join(lazy_extras))]
            out.theorem("tagged_" + ty, "\n    " + " ∧\n    ".join(stmts), "by\n  refine ⟨" + ", ".join(["?_"] * len(stmts)) + "⟩ <;> rfl" if len(stmts) > 1 else "rfl",
                        F.at(ii), what)
        guarded(out, "tagged_" + ty, what, one)

    # --- the kind registry ------------------------------------------------------------------------
    try:
        reg, rwhere = read_registry(repo)
        rerr = None
    except Unreadable as e:
        reg, rwhere, rerr = [], e.where, e
    for trait, models in TRAIT_MODEL.items():
        what = "Deserializers::default() entries of trait %s: kind literal → `type Config` of the registered deserializer  ↔  cases of ConfigDoc.%s (same kinds, each kind the same config schema)" % (trait, models[0])

        def one(trait=trait, models=models, what=what):
            if rerr:
                raise rerr
            rows = [(k, c, w) for t, k, c, w in reg if t == trait]
            if not rows:
                raise Unreadable("no deserializer registered for trait %s" % trait, rwhere)
            for k, c, w in rows:
                if c not in STRUCT_MODEL:
                    raise Unreadable("config struct %s of kind %r is unknown to the translator" % (c, k), w)
            kinds = "[" + ", ".join(lean_chars(k) for k, _, _ in rows) + "]"
            out.define("def kinds_%s : List (List Char) := %s" % (trait, kinds))
            stmts, proofs = [], []
            for m in models:
                stmts.append("(∀ k ∈ %s%s.caseKinds, k ∈ Gen.kinds_%s)" % (CD, m, trait)); proofs.append("by decide +kernel")
                stmts.append("(∀ k ∈ Gen.kinds_%s, k ∈ %s%s.caseKinds)" % (trait, CD, m)); proofs.append("by decide +kernel")
                stmts.append("%s%s.caseKinds.length = Gen.kinds_%s.length" % (CD, m, trait)); proofs.append("by decide +kernel")
                for k, c, _ in rows:
                    stmts.append("%slookupCase %s %s%s.cases = some Gen.%s" % (CD, lean_chars(k), CD, m, c)); proofs.append("rfl")
            out.theorem("registry_" + trait, "\n    " + " ∧\n    ".join(stmts), "\n  ⟨" + ", ".join(proofs) + "⟩", rwhere, what)
        guarded(out, "registry_" + trait, what, one)

    # --- ConfigTarget ---------------------------------------------------------------------------
    what = "enum ConfigTarget of src/append/console.rs: variant names after #[serde(rename)] (stdout / stderr), and nothing else accepted  ↔  the target leaf of ConfigDoc.interpLeaf"

    def target():
        F = repo.file("src/append/console.rs")
        i = F.one_kw("enum", "ConfigTarget")
        attrs, _ = F.attr_list(i)
        if "Deserialize" not in derives(F, attrs):
            raise Unreadable("enum ConfigTarget does not derive Deserialize", F.at(i))
        if tool_attrs(F, attrs, "serde"):
            raise Unreadable("container serde attributes on ConfigTarget are outside the translated fragment", F.at(i))
        b = F.body(i)
        rows = []
        for a, bb in F.split_top(b[0] + 1, b[1], ","):
            at, j = [], a
            while F.is_p(j, "#") and F.is_p(j + 1, "["):
                at.extend(F._expand_attr(j + 2, F.pair[j + 1])); j = F.pair[j + 1] + 1
            if bb - j != 1 or not F.is_id(j):
                raise Unreadable("ConfigTarget variant with a payload", F.at(j))
            sd = tool_attrs(F, at, "serde")
            for k in sd:
                if k != "rename":
                    raise Unreadable("serde(%s) on a ConfigTarget variant" % k, F.at(j))
            var = F.T[j].v
            if var not in ("Stdout", "Stderr"):
                raise Unreadable("unknown ConfigTarget variant %s" % var, F.at(j))
            rows.append((sd.get("rename", var), var == "Stderr"))
        out.define("def targetNames : List (List Char × Bool) := [%s]" % ", ".join(
            "(%s, %s)" % (lean_chars(n), "true" if e else "false") for n, e in rows))
        out.theorem("target_names", "∀ e ∈ Gen.targetNames, %stargetOfName e.1 = some e.2" % CD, "by decide +kernel", F.at(i), what)
        conds = " ".join("(h%d : s ≠ %s)" % (k, lean_chars(n)) for k, (n, _) in enumerate(rows))
        out.theorem("target_names_only",
                    "∀ (s : List Char), (∀ e ∈ Gen.targetNames, s ≠ e.1) → %sinterpLeaf .target (.str s) = .error .unknownVariant" % CD,
                    "by\n  intro s h\n  have h' : ∀ n, n ∈ Gen.targetNames.map (·.1) → s ≠ n := by\n    intro n hn\n    obtain ⟨e, he, rfl⟩ := List.mem_map.mp hn\n    exact h e he\n"
                    "  simp only [Gen.targetNames, List.map, List.mem_cons, List.not_mem_nil, or_false, forall_eq_or_imp, forall_eq] at h'\n"
                    "  simp [%sinterpLeaf, h']" % CD,
                    F.at(i), what + " (converse)")
    guarded(out, "target_names", what, target)


# =============================================================================================
# C09 / C11 — the formatter table of `impl From<Piece> for Chunk`
# =============================================================================================
PATTERN_RS = "src/encode/pattern/mod.rs"
PP = "Log4rs.Pattern.Parse."
CHUNK_KIND = {"Time": ".time", "Mdc": ".mdc", "Align": ".group .align", "Highlight": ".group .highlight",
              "Debug": ".group .debug", "Release": ".group .release"}


def chunk_error_literal(F, lo, hi):
    """`Chunk::Error("…".to_owned())` in [lo,hi) → the literal"""
    k = F.find_seq(["Chunk", "::", "Error", "("], lo, hi)
    if k < 0 or F.T[k + 4].k != "str" or not F.is_id(k + 6, "to_owned"):
        raise Unreadable("expected `Chunk::Error(\"…\".to_owned())`", F.at(lo))
    return F.T[k + 4].v


def read_formatters(repo):
    F = repo.file(PATTERN_RS)
    impls = F.impls(lambda h: "From" in h and "Piece" in h and h[-2:] == ["for", "Chunk"])
    if len(impls) != 1:
        raise Unreadable("expected one `impl From<Piece> for Chunk`", F.rel + ":1")
    ii, ilo, ihi = impls[0]
    _, lo, hi = F.fn_body("from", ilo, ihi)
    m = F.find_seq(["match", "formatter", ".", "name", "{"], lo, hi)
    if m < 0:
        raise Unreadable("expected `match formatter.name {` in From<Piece> for Chunk", F.at(lo))
    mlo, mhi = m + 5, F.pair[m + 4]
    # no_args: `if arg.is_empty() { Chunk::Formatted {..} } else { Chunk::Error("…") }`
    ni, nlo, nhi = F.fn_body("no_args")
    k = F.find_seq(["if"], nlo, nhi)
    ok = k >= 0 and F.is_id(k + 1) and F.is_p(k + 2, ".") and F.is_id(k + 3, "is_empty") and F.is_p(k + 4, "(") and F.is_p(k + 5, ")") and F.is_p(k + 6, "{")
    if not ok:
        raise Unreadable("fn no_args does not start with `if arg.is_empty() {`", F.at(ni))
    arms_n, els_n, _ = if_chain(F, k)
    if len(arms_n) != 1 or els_n is None or F.find_seq(["Chunk", "::", "Formatted"], arms_n[0][2], arms_n[0][3]) < 0:
        raise Unreadable("fn no_args is not `if arg.is_empty() { Chunk::Formatted … } else { Chunk::Error … }`", F.at(ni))
    no_args_msg = chunk_error_literal(F, els_n[0], els_n[1])
    rows, catch_all, pat_ranges = [], None, []
    for p0, p1, b0, b1 in match_arms(F, mlo, mhi):
        pat_ranges.append((p0, p1))
        if p1 - p0 == 1 and F.is_id(p0):
            # catch-all `name => Chunk::Error(format!("unknown formatter `{}`", name))`
            k = F.find_seq(["Chunk", "::", "Error", "(", "format", "!", "("], b0, b1)
            if k < 0 or F.T[k + 7].k != "str" or not F.is_id(k + 9, F.T[p0].v):
                raise Unreadable("the catch-all arm is not `Chunk::Error(format!(\"…{}…\", %s))`" % F.T[p0].v, F.at(p0))
            catch_all = (F.T[k + 7].v, F.at(p0))
            continue
        names = []
        for a, b in F.split_top(p0, p1, "|"):
            if b - a != 1 or F.T[a].k != "str":
                raise Unreadable("formatter arm pattern is not a list of string literals: `%s`" % F.text_of(p0, p1), F.at(p0))
            names.append(F.T[a].v)
        if catch_all is not None:
            raise Unreadable("an arm follows the catch-all arm", F.at(p0))
        variants = sorted({F.T[k + 2].v for k in range(b0, b1 - 2) if F.is_id(k, "FormattedChunk") and F.is_p(k + 1, "::") and F.is_id(k + 2)})
        if len(variants) != 1:
            raise Unreadable("arm %s builds %d different FormattedChunk variants" % (names, len(variants)), F.at(p0))
        var = variants[0]
        if F.is_id(b0, "no_args") and F.is_p(b0 + 1, "(") and F.pair.get(b0 + 1) == b1 - 1:
            parts = F.split_top(b0 + 2, b1 - 1, ",")
            if len(parts) != 3 or F.text_of(*parts[0]) != "& formatter . args" or F.text_of(*parts[2]) != "FormattedChunk :: " + var:
                raise Unreadable("unexpected no_args call `%s`" % F.text_of(b0, b1), F.at(b0))
            if var in CHUNK_KIND:
                raise Unreadable("variant %s built through no_args" % var, F.at(b0))
            kind, lo_, hi_, msg = ".plain ." + lower_first(var), 0, 0, no_args_msg
        else:
            # first statement: `if formatter.args.len() OP N { return Chunk::Error("…".to_owned()); }`
            hd = ["if", "formatter", ".", "args", ".", "len", "(", ")"]
            if [t.v for t in F.T[b0:b0 + 8]] != hd or F.T[b0 + 9].k != "num" or not F.is_p(b0 + 10, "{"):
                raise Unreadable("arm %s does not start with `if formatter.args.len() <op> <n> {`" % names, F.at(b0))
            op, n = F.T[b0 + 8].v, num_value(F.T[b0 + 9])
            blk = (b0 + 11, F.pair[b0 + 10])
            if not F.is_id(blk[0], "return"):
                raise Unreadable("the argument-count test of arm %s does not return an error chunk" % names, F.at(b0))
            msg = chunk_error_literal(F, blk[0], blk[1])
            if op == ">":
                lo_, hi_ = 0, n
            elif op == "!=":
                lo_, hi_ = n, n
            else:
                raise Unreadable("unexpected comparison `%s` in the argument-count test of arm %s" % (op, names), F.at(b0))
            if var not in CHUNK_KIND:
                raise Unreadable("variant %s is built without no_args; the translator does not know its shape" % var, F.at(b0))
            kind = CHUNK_KIND[var]
            if kind.startswith(".group") and F.find_seq([".", "map", "(", "From", "::", "from", ")"], b0, b1) < 0:
                raise Unreadable("group arm %s does not convert its argument with .map(From::from)" % names, F.at(b0))
        for nm in names:
            rows.append((nm, kind, lo_, hi_, msg, F.at(p0)))
    if catch_all is None:
        raise Unreadable("no catch-all arm (unknown formatter)", F.at(m))
    # string literals of the impl outside the arm patterns, of no_args and plain_text
    texts = set()
    pi, plo, phi = F.fn_body("plain_text")
    for a, b in ((lo, hi), (nlo, nhi), (plo, phi)):
        for k in range(a, b):
            if F.T[k].k == "str" and not any(x <= k < y for x, y in pat_ranges):
                texts.add(F.T[k].v)
    # time zone names: `match zone.as_str() { "utc" => Timezone::Utc, "local" => Timezone::Local, z => … }`
    zones = []
    z = F.find_seq(["match", "zone", ".", "as_str", "(", ")", "{"], lo, hi)
    if z >= 0:
        for p0, p1, b0, b1 in match_arms(F, z + 7, F.pair[z + 6]):
            if p1 - p0 == 1 and F.T[p0].k == "str" and [t.v for t in F.T[b0:b1]][:2] == ["Timezone", "::"]:
                zones.append((F.T[p0].v, F.T[b0 + 2].v))
    return {"rows": rows, "catch_all": catch_all, "texts": sorted(texts), "zones": zones, "zone_at": F.at(z) if z >= 0 else F.at(m),
            "at": F.at(m)}


def gen_pattern_table(repo, out):
    try:
        R = read_formatters(repo)
        err = None
    except Unreadable as e:
        R, err = None, e
    w_table = "`match formatter.name` arms of impl From<Piece> for Chunk: every name / alias literal → the FormattedChunk variant its arm builds, the arm's formatter.args.len() test and its error literal  ↔  Pattern.kindOfName / arityRange / arityErr (= compile, by compile_eq_kind)"
    w_compl = "no formatter name selects an arm of the model unless it is a literal of a source arm (the model accepts nothing more)"
    w_unknown = "every name outside the source's literals compiles to the catch-all's `unknown formatter` text (format! template from the source)"
    w_arity = "for every source arm: a violated argument-count test makes `compile` return the arm's error literal"
    w_texts = "the set of string literals of impl From<Piece> for Chunk (outside arm patterns), no_args and plain_text: error texts, format! templates, `%+`, `utc`, `local`  ↔  Pattern.chunkTexts"
    w_zone = "`match zone.as_str()` arms: time-zone literal → Timezone variant  ↔  Pattern.timezoneOfWhole"

    def need():
        if err:
            raise err

    def table():
        need()
        rows = R["rows"]
        out.define("def formatterTable : List (List Char × %sFKind × Nat × Nat × List Char) :=\n  [" % PP + ",\n   ".join(
            "(%s, %s, %d, %d, %s)" % (lean_chars(n), k, lo, hi, lean_chars(msg)) for n, k, lo, hi, msg, _ in rows) + "]")
        out.define("def formatterNames : List (List Char) := formatterTable.map (·.1)")
        out.theorem("formatter_table",
                    "∀ e ∈ Gen.formatterTable, %skindOfName e.1 = some e.2.1 ∧ e.2.1.arityRange = (e.2.2.1, e.2.2.2.1) ∧ e.2.1.arityErr = e.2.2.2.2" % PP,
                    "by decide +kernel", R["at"], w_table)
    guarded(out, "formatter_table", w_table, table)

    def compl():
        need()
        out.theorem("formatter_names_complete",
                    "∀ (n : List Char) (k : %sFKind), %skindOfName n = some k → n ∈ Gen.formatterNames" % (PP, PP),
                    "fun n k h =>\n  (by decide +kernel : ∀ x ∈ %sformatterNames, x ∈ Gen.formatterNames) n (%skindOfName_mem n k h)" % (PP, PP),
                    R["at"], w_compl)
    guarded(out, "formatter_names_complete", w_compl, compl)

    def unknown():
        need()
        tmpl, where = R["catch_all"]
        if tmpl.count("{}") != 1:
            raise Unreadable("the catch-all's format! template does not have exactly one `{}`", where)
        pre, post = tmpl.split("{}")
        out.define("def unknownFormatter (n : List Char) : List Char := %s ++ n ++ %s" % (lean_chars(pre), lean_chars(post)))
        pid = out.pid
        out.theorem("unknown_formatter",
                    "∀ (B : %sBuild) (n : List Char) (args : List (List %sPiece)) (p : Log4rs.Pattern.Params), n ∉ Gen.formatterNames →\n    %scompile B (.arg n args p) = .error (Gen.unknownFormatter n)" % (PP, PP, PP),
                    "by\n  intro B n args p hn\n  have hk : %skindOfName n = none := by\n    cases h : %skindOfName n with\n    | none => rfl\n    | some k => exact absurd (%s_gen_formatter_names_complete n k h) hn\n  rw [%scompile_unknown B n args p hk]\n  rfl" % (PP, PP, pid, PP),
                    where, w_unknown)
    guarded(out, "unknown_formatter", w_unknown, unknown)

    def arity():
        need()
        pid = out.pid
        out.theorem("formatter_arity",
                    "∀ (B : %sBuild) (args : List (List %sPiece)) (p : Log4rs.Pattern.Params), ∀ e ∈ Gen.formatterTable,\n    (decide (e.2.2.1 ≤ args.length) && decide (args.length ≤ e.2.2.2.1)) = false → %scompile B (.arg e.1 args p) = .error e.2.2.2.2" % (PP, PP, PP),
                    "by\n  intro B args p e he ha\n  obtain ⟨hk, hr, hm⟩ := %s_gen_formatter_table e he\n  rw [← hm]\n  apply %scompile_arity B e.1 args p e.2.1 hk\n  simp only [%sFKind.arityOk, hr]\n  exact ha" % (pid, PP, PP),
                    R["at"], w_arity)
    guarded(out, "formatter_arity", w_arity, arity)

    def texts():
        need()
        out.define("def chunkTexts : List (List Char) :=\n  [" + ",\n   ".join(lean_chars(t) for t in R["texts"]) + "]")
        out.theorem("chunk_texts", "(∀ x ∈ %schunkTexts, x ∈ Gen.chunkTexts) ∧ (∀ x ∈ Gen.chunkTexts, x ∈ %schunkTexts)" % (PP, PP),
                    "by decide +kernel", R["at"], w_texts)
    guarded(out, "chunk_texts", w_texts, texts)

    def zones():
        need()
        zs = R["zones"]
        if not zs:
            raise Unreadable("expected `match zone.as_str() { \"utc\" => Timezone::Utc, … }`", R["zone_at"])
        for n, v in zs:
            if v not in ("Utc", "Local"):
                raise Unreadable("unknown Timezone variant %s" % v, R["zone_at"])
        out.define("def zoneTable : List (List Char × Bool) := [%s]" % ", ".join("(%s, %s)" % (lean_chars(n), "true" if v == "Utc" else "false") for n, v in zs))
        out.theorem("timezone_names",
                    "(∀ e ∈ Gen.zoneTable, (%stimezoneOfWhole [.text e.1]).toOption = some e.2) ∧\n    (∀ (z : List Char), z ≠ [] → (∀ e ∈ Gen.zoneTable, z ≠ e.1) → %szoneArgValid [.text z] = false)" % (PP, PP),
                    "by\n  refine ⟨by decide +kernel, ?_⟩\n  intro z hz h\n  have h' : ∀ n, n ∈ Gen.zoneTable.map (·.1) → z ≠ n := by\n    intro n hn\n    obtain ⟨e, he, rfl⟩ := List.mem_map.mp hn\n    exact h e he\n"
                    "  simp only [Gen.zoneTable, List.map, List.mem_cons, List.not_mem_nil, or_false, forall_eq_or_imp, forall_eq] at h'\n"
                    "  simp [%szoneArgValid, %splainTextOf, %splainTextLoop, h']" % (PP, PP, PP),
                    R["zone_at"], w_zone)
    guarded(out, "timezone_names", w_zone, zones)


PARSER_RS = "src/encode/pattern/parser.rs"


def gen_pattern_depth(repo, out):
    """`const MAX_DEPTH: usize = N;` of parser.rs, its use in Parser::arg (`self.depth == MAX_DEPTH`, one
    `self.depth += 1` / `self.depth -= 1` pair around arg_pieces) and the error literal of that branch."""
    what = "parser.rs: `const MAX_DEPTH: usize = N` (a literal), `if self.depth == MAX_DEPTH { … return Err(\"nesting too deep\"…) }` followed by `self.depth += 1; … self.depth -= 1;` in Parser::arg  ↔  Profile.maxDepth (default) / eNestingTooDeep of Pattern/Parser.lean"

    def one():
        F = repo.file(PARSER_RS)
        i = F.one_kw("const", "MAX_DEPTH")
        e = F.item_end(i)
        eq = F.find_seq(["="], i, e)
        if eq < 0:
            raise Unreadable("expected `const MAX_DEPTH: usize = <literal>;`", F.at(i))
        n = eval_int_expr(F, eq + 1, e - 1)
        fi, lo, hi = F.fn_body("arg")
        c = F.find_seq(["if", "self", ".", "depth", "==", "MAX_DEPTH", "{"], lo, hi)
        if c < 0:
            raise Unreadable("expected `if self.depth == MAX_DEPTH {` in Parser::arg", F.at(fi))
        close = F.pair[c + 6]
        lits = [t.v for t in F.T[c + 6:close] if t.k == "str"]
        if len(lits) != 1 or F.find_seq(["return", "Err", "("], c + 6, close) < 0:
            raise Unreadable("expected exactly one `return Err(\"…\".to_owned())` in the MAX_DEPTH branch of Parser::arg", F.at(c))
        inc = F.find_seq(["self", ".", "depth", "+=", "1", ";"], close, hi)
        dec = F.find_seq(["self", ".", "depth", "-=", "1", ";"], close, hi)
        if inc < 0 or dec < 0 or dec < inc:
            raise Unreadable("expected `self.depth += 1; … self.depth -= 1;` after the MAX_DEPTH test of Parser::arg", F.at(c))
        for j, t in enumerate(F.T):
            if t.k == "id" and t.v == "MAX_DEPTH" and F.active(j) and j not in (i + 1, c + 5):
                raise Unreadable("MAX_DEPTH is used somewhere else than in the test of Parser::arg", F.at(j))
        out.define("def maxDepth : Nat := %d" % n)
        out.define("def nestingTooDeep : List Char := %s" % lean_chars(lits[0]))
        out.theorem("max_depth",
                    "({} : %sProfile).maxDepth = Gen.maxDepth ∧ %sProfile.debug64.maxDepth = Gen.maxDepth ∧ %sProfile.release64.maxDepth = Gen.maxDepth ∧ %seNestingTooDeep = Gen.nestingTooDeep" % (PP, PP, PP, PP),
                    "by decide +kernel", F.at(i), what)
    guarded(out, "max_depth", what, one)


def gen_pattern(repo, out):
    gen_pattern_table(repo, out)
    gen_pattern_depth(repo, out)


# =============================================================================================
# C18 — SGR colour digits, highlight styles, COLOR_MODE cascade, set_style buffer
# =============================================================================================
ANSI_RS = "src/encode/writer/ansi.rs"
CONSOLE_WRITER_RS = "src/encode/writer/console.rs"
ENCODE_RS = "src/encode/mod.rs"
ENV_FIELD = {"NO_COLOR": "noColor", "CLICOLOR": "clicolor", "CLICOLOR_FORCE": "clicolorForce"}


def read_enum_variants(F, name):
    i = F.one_kw("enum", name)
    b = F.body(i)
    out = []
    for a, bb in F.split_top(b[0] + 1, b[1], ","):
        j = a
        while F.is_p(j, "#") and F.is_p(j + 1, "["):
            j = F.pair[j + 1] + 1
        if bb - j != 1 or not F.is_id(j):
            raise Unreadable("enum %s has a variant with payload or discriminant" % name, F.at(j))
        out.append(F.T[j].v)
    return out, F.at(i)


def read_style_chain(F, lo, hi, colors):
    """`Style::new().text(Color::Red).intense(true)` inside [lo,hi) → dict"""
    k = F.find_seq(["Style", "::", "new", "(", ")"], lo, hi)
    if k < 0:
        raise Unreadable("expected `Style::new()…`", F.at(lo))
    st, j = {}, k + 5
    while F.is_p(j, ".") and F.is_id(j + 1) and F.is_p(j + 2, "(") and F.pair.get(j + 2, hi) < hi:
        meth, a, b = F.T[j + 1].v, j + 3, F.pair[j + 2]
        if meth in ("text", "background") and b - a == 3 and F.is_id(a, "Color") and F.is_p(a + 1, "::") and F.T[a + 2].v in colors:
            st[meth] = colors.index(F.T[a + 2].v)
        elif meth == "intense" and b - a == 1 and F.T[a].v in ("true", "false"):
            st[meth] = F.T[a].v
        else:
            raise Unreadable("unexpected style builder call `.%s(%s)`" % (meth, F.text_of(a, b)), F.at(j))
        j = b + 1
    return st


def lean_style(st):
    if st is None:
        return "none"
    parts = []
    if "text" in st:
        parts.append("text := some %d" % st["text"])
    if "background" in st:
        parts.append("background := some %d" % st["background"])
    if "intense" in st:
        parts.append("intense := some %s" % st["intense"])
    return "some ({ %s } : Log4rs.Style)" % ", ".join(parts) if parts else "some ({} : Log4rs.Style)"


def level_pattern(F, p0, p1):
    """`Level::Error | Level::Warn` → [1,2]; `_` → None"""
    if p1 - p0 == 1 and F.is_id(p0, "_"):
        return None
    out = []
    for a, b in F.split_top(p0, p1, "|"):
        if not (b - a == 3 and F.is_id(a, "Level") and F.is_p(a + 1, "::") and F.T[a + 2].v in LEVEL):
            raise Unreadable("expected `Level::<Name>` patterns, found `%s`" % F.text_of(p0, p1), F.at(p0))
        out.append(LEVEL[F.T[a + 2].v])
    return out


def gen_C18(repo, out):
    w_col = "enum Color (declaration order = the model's colour numbers 0..7) and fn color_byte: every variant → its SGR digit byte  ↔  Console.colorByte on 0..7"

    def colours():
        E = repo.file(ENCODE_RS)
        colors, _ = read_enum_variants(E, "Color")
        F = repo.file(ANSI_RS)
        ci, lo, hi = F.fn_body("color_byte")
        m = F.find_seq(["match"], lo, hi)
        if m < 0 or not F.is_p(m + 2, "{"):
            raise Unreadable("fn color_byte is not a single match", F.at(ci))
        table = {}
        for p0, p1, b0, b1 in match_arms(F, m + 3, F.pair[m + 2]):
            if not (p1 - p0 == 3 and F.is_id(p0, "Color") and F.T[p0 + 2].v in colors and b1 - b0 == 1 and F.T[b0].k == "byte"):
                raise Unreadable("expected `Color::<Variant> => b'<digit>'`, found `%s => %s`" % (F.text_of(p0, p1), F.text_of(b0, b1)), F.at(p0))
            table[colors.index(F.T[p0 + 2].v)] = ord(F.T[b0].v)
        if sorted(table) != list(range(len(colors))):
            raise Unreadable("color_byte does not cover every Color variant exactly once", F.at(ci))
        out.define("def colorTable : List (Nat × Nat) := [%s]" % ", ".join("(%d, %d)" % (k, table[k]) for k in sorted(table)))
        out.theorem("color_bytes", "(List.range %d).map (fun c => (c, Log4rs.Console.colorByte c)) = Gen.colorTable" % len(colors),
                    "by decide +kernel", F.at(ci), w_col)
    guarded(out, "color_bytes", w_col, colours)

    w_buf = "`let mut buf = [0; N];` of AnsiWriter::set_style  ↔  Console.bufLen"

    def buf():
        F = repo.file(ANSI_RS)
        si, lo, hi = F.fn_body("set_style")
        k = F.find_seq(["let", "mut", "buf", "=", "[", "0", ";"], lo, hi)
        if k < 0 or F.T[k + 7].k != "num" or not F.is_p(k + 8, "]"):
            raise Unreadable("expected `let mut buf = [0; N];` in AnsiWriter::set_style", F.at(si))
        out.define("def bufLen : Nat := %d" % num_value(F.T[k + 7]))
        out.theorem("set_style_buffer", "Log4rs.Console.bufLen = Gen.bufLen", "by decide", F.at(k), w_buf)
    guarded(out, "set_style_buffer", w_buf, buf)

    w_hl = "FormattedChunk::Highlight: `match record.level()` before the chunks (level → Style::new()… builder chain, other levels nothing) and after them (levels that get the reset `&Style::new()`)  ↔  highlightStyle on levels 1..5, Style.plain, and the model's reset rule (reset iff a style was set)"

    def highlight():
        E = repo.file(ENCODE_RS)
        colors, _ = read_enum_variants(E, "Color")
        F = repo.file(PATTERN_RS)
        arm = F.find_seq(["FormattedChunk", "::", "Highlight", "(", "ref", "chunks", ")", "=>", "{"], 0, len(F.T))
        if arm < 0 or not F.active(arm):
            raise Unreadable("expected the arm `FormattedChunk::Highlight(ref chunks) => {` of FormattedChunk::encode", F.rel + ":1")
        lo, hi = arm + 9, F.pair[arm + 8]
        ms = [k for k in range(lo, hi) if [t.v for t in F.T[k:k + 7]] == ["match", "record", ".", "level", "(", ")", "{"]]
        loop = F.find_seq(["for", "chunk", "in", "chunks"], lo, hi)
        if len(ms) != 2 or not (ms[0] < loop < ms[1]):
            raise Unreadable("expected: match record.level() {set style}; for chunk in chunks {…}; match record.level() {reset}", F.at(arm))
        styles, reset = {}, []
        for p0, p1, b0, b1 in match_arms(F, ms[0] + 7, F.pair[ms[0] + 6]):
            lv = level_pattern(F, p0, p1)
            if lv is None:
                if b1 != b0:
                    raise Unreadable("the `_` arm of the style match is not empty", F.at(p0))
                continue
            if F.find_seq(["w", ".", "set_style", "("], b0, b1) < 0:
                raise Unreadable("style arm does not call w.set_style", F.at(p0))
            st = read_style_chain(F, b0, b1, colors)
            for l in lv:
                styles[l] = st
        for p0, p1, b0, b1 in match_arms(F, ms[1] + 7, F.pair[ms[1] + 6]):
            lv = level_pattern(F, p0, p1)
            if lv is None:
                if b1 != b0:
                    raise Unreadable("the `_` arm of the reset match is not empty", F.at(p0))
                continue
            if F.find_seq(["w", ".", "set_style", "("], b0, b1) < 0 or read_style_chain(F, b0, b1, colors) != {}:
                raise Unreadable("reset arm is not `w.set_style(&Style::new())`", F.at(p0))
            reset.extend(lv)
        out.define("def highlightTable : List (Nat × Option Log4rs.Style) :=\n  [" + ", ".join(
            "(%d, %s)" % (l, lean_style(styles.get(l))) for l in range(1, 6)) + "]")
        out.define("def resetLevels : List Nat := [%s]" % ", ".join(str(l) for l in sorted(reset)))
        out.theorem("highlight_styles",
                    "(List.range' 1 5).map (fun l => (l, Log4rs.highlightStyle l)) = Gen.highlightTable ∧\n"
                    "    (∀ l ∈ List.range' 1 5, (Log4rs.highlightStyle l).isSome = decide (l ∈ Gen.resetLevels)) ∧\n"
                    "    Log4rs.Style.plain = ({} : Log4rs.Style)",
                    "by decide +kernel", F.at(arm), w_hl)
    guarded(out, "highlight_styles", w_hl, highlight)

    w_ss = "AnsiWriter::set_style executed by the translator's interpreter of its straight-line fragment (buf[i] = byte, idx += n, if let Some(x) = style.f, if x {} else {}, &buf[..=idx], bounds checks) on all 243 styles: the byte sequence handed to write_all  ↔  Console.setStyle on all 243 styles"

    def set_style():
        E = repo.file(ENCODE_RS)
        colors, _ = read_enum_variants(E, "Color")
        F = repo.file(ANSI_RS)
        ci, clo, chi = F.fn_body("color_byte")
        m = F.find_seq(["match"], clo, chi)
        cb = {}
        for p0, p1, b0, b1 in match_arms(F, m + 3, F.pair[m + 2]):
            if p1 - p0 == 3 and F.T[p0 + 2].v in colors and b1 - b0 == 1 and F.T[b0].k == "byte":
                cb[colors.index(F.T[p0 + 2].v)] = ord(F.T[b0].v)
        if sorted(cb) != list(range(len(colors))):
            raise Unreadable("color_byte does not cover every Color variant", F.at(ci))
        si, lo, hi = F.fn_body("set_style")

        class Panic(Exception):
            pass

        def expr(env, a, b):
            if b - a == 1 and F.T[a].k == "num":
                return num_value(F.T[a])
            if b - a == 1 and F.is_id(a) and isinstance(env.get(F.T[a].v), int):
                return env[F.T[a].v]
            if b - a == 3 and F.is_id(a) and F.is_p(a + 1, "+") and F.T[a + 2].k == "num" and isinstance(env.get(F.T[a].v), int):
                return env[F.T[a].v] + num_value(F.T[a + 2])
            raise Unreadable("set_style: unexpected index expression `%s`" % F.text_of(a, b), F.at(a))

        def bexpr(env, a, b):
            if b - a == 1 and F.T[a].k == "byte":
                return ord(F.T[a].v)
            if b - a == 4 and F.is_id(a, "color_byte") and F.is_p(a + 1, "(") and F.is_id(a + 2) and F.T[a + 2].v in env:
                return cb[env[F.T[a + 2].v]]
            raise Unreadable("set_style: unexpected byte expression `%s`" % F.text_of(a, b), F.at(a))

        def run_block(env, style, a, b):
            """returns the written slice when the block ends in write_all, else None"""
            j = a
            while j < b:
                if F.is_id(j, "let") and F.is_id(j + 1, "mut") and F.is_id(j + 2) and F.is_p(j + 3, "="):
                    end = j
                    while not F.is_p(end, ";"):
                        end = F.pair[end] + 1 if F.T[end].v in OPEN and end in F.pair else end + 1
                    if F.is_p(j + 4, "[") and F.pair[j + 4] == end - 1 and [t.v for t in F.T[j + 5:j + 7]] == ["0", ";"] and F.T[j + 7].k == "num":
                        env[F.T[j + 2].v] = [0] * num_value(F.T[j + 7])
                    elif end == j + 5 and F.T[j + 4].k == "num":
                        env[F.T[j + 2].v] = num_value(F.T[j + 4])
                    else:
                        raise Unreadable("set_style: unexpected let `%s`" % F.text_of(j, end), F.at(j))
                    j = end + 1
                elif F.is_id(j) and F.is_p(j + 1, "[") and isinstance(env.get(F.T[j].v), list) and F.is_p(F.pair[j + 1] + 1, "="):
                    close = F.pair[j + 1]
                    end = close
                    while not F.is_p(end, ";"):
                        end += 1
                    idx = expr(env, j + 2, close)
                    v = bexpr(env, close + 2, end)
                    if idx >= len(env[F.T[j].v]):
                        raise Panic()
                    env[F.T[j].v][idx] = v
                    j = end + 1
                elif F.is_id(j) and F.is_p(j + 1, "+=") and F.T[j + 2].k == "num" and F.is_p(j + 3, ";") and isinstance(env.get(F.T[j].v), int):
                    env[F.T[j].v] += num_value(F.T[j + 2])
                    j += 4
                elif [t.v for t in F.T[j:j + 4]] == ["if", "let", "Some", "("] and F.is_id(j + 4) and [t.v for t in F.T[j + 5:j + 9]] == [")", "=", "style", "."] \
                        and F.T[j + 9].v in ("text", "background", "intense") and F.is_p(j + 10, "{"):
                    close = F.pair[j + 10]
                    val = style[F.T[j + 9].v]
                    if val is not None:
                        env[F.T[j + 4].v] = val
                        run_block(env, style, j + 11, close)
                    if F.is_id(close + 1, "else"):
                        raise Unreadable("set_style: `if let … else` is outside the interpreted fragment", F.at(close + 1))
                    j = close + 1
                elif F.is_id(j, "if") and F.is_id(j + 1) and isinstance(env.get(F.T[j + 1].v), bool) and F.is_p(j + 2, "{"):
                    close = F.pair[j + 2]
                    if not (F.is_id(close + 1, "else") and F.is_p(close + 2, "{")):
                        raise Unreadable("set_style: `if <bool>` without else block", F.at(j))
                    close2 = F.pair[close + 2]
                    if env[F.T[j + 1].v]:
                        run_block(env, style, j + 3, close)
                    else:
                        run_block(env, style, close + 3, close2)
                    j = close2 + 1
                elif [t.v for t in F.T[j:j + 8]] == ["self", ".", "0", ".", "write_all", "(", "&", "buf"] and F.is_p(j + 8, "[") and F.is_p(j + 9, "..="):
                    close = F.pair[j + 8]
                    if F.pair[j + 5] != b - 1 or close != b - 2:
                        raise Unreadable("set_style: write_all is not the last expression", F.at(j))
                    idx = expr(env, j + 10, close)
                    if idx >= len(env["buf"]):
                        raise Panic()
                    return env["buf"][:idx + 1]
                else:
                    raise Unreadable("set_style: statement outside the interpreted fragment: `%s`" % F.text_of(j, min(b, j + 10)), F.at(j))
            return None

        rows = []
        opts = [None] + list(range(len(colors)))
        for t in opts:
            for bg in opts:
                for it in (None, True, False):
                    style = {"text": t, "background": bg, "intense": it}
                    try:
                        res = run_block({}, style, lo + 1, hi)
                        if res is None:
                            raise Unreadable("set_style does not end in self.0.write_all(&buf[..=idx])", F.at(si))
                        r = "some [%s]" % ", ".join(str(x) for x in res)
                    except Panic:
                        r = "none"
                    st = {}
                    if t is not None:
                        st["text"] = t
                    if bg is not None:
                        st["background"] = bg
                    if it is not None:
                        st["intense"] = "true" if it else "false"
                    rows.append("(%s, %s)" % (lean_style(st)[5:] if st else "({} : Log4rs.Style)", r))
        out.define("def setStyleTable : List (Log4rs.Style × Option (List Nat)) :=\n  [" + ",\n   ".join(rows) + "]")
        out.theorem("set_style_bytes",
                    "∀ e ∈ Gen.setStyleTable, (match Log4rs.Console.setStyle e.1 with | .ok bs => some bs | _ => none) = e.2",
                    "by decide +kernel", F.at(si), w_ss)
    guarded(out, "set_style_bytes", w_ss, set_style)

    w_cm = "static COLOR_MODE: the environment variable names read (NO_COLOR, CLICOLOR_FORCE, CLICOLOR), the test `var != \"0\"` with its unwrap_or default, and the if / else precedence cascade, translated statement by statement into a Lean function  ↔  Console.colorMode on all 64 environments"

    def color_mode():
        F = repo.file(CONSOLE_WRITER_RS)
        i = F.one_kw("static", "COLOR_MODE")
        k = F.find_seq(["Lazy", "::", "new", "(", "|", "|", "{"], i, F.item_end(i))
        if k < 0:
            k2 = F.find_seq(["Lazy", "::", "new", "(", "||", "{"], i, F.item_end(i))
            if k2 < 0:
                raise Unreadable("expected `static COLOR_MODE: Lazy<ColorMode> = Lazy::new(|| { … })`", F.at(i))
            blo = k2 + 6
            bhi = F.pair[k2 + 5]
        else:
            blo, bhi = k + 7, F.pair[k + 6]
        used = []

        def block(lo, hi, ind):
            lines, j = [], lo
            while F.is_id(j, "let"):
                # let NAME = std::env::var("ENV").map(|var| var != "0").unwrap_or(BOOL);
                end = j
                while not F.is_p(end, ";"):
                    end += 1
                toks = [t.v for t in F.T[j:end]]
                strs = [t for t in F.T[j:end] if t.k == "str"]
                shape = ["let", None, "=", "std", "::", "env", "::", "var", "(", None, ")", ".", "map", "(", "|", None, "|", None, "!=", None, ")",
                         ".", "unwrap_or", "(", None, ")"]
                ok = len(toks) == len(shape) and all(s is None or s == t for s, t in zip(shape, toks)) and len(strs) == 2 \
                    and toks[15] == toks[17] and strs[1].v == "0" and toks[24] in ("true", "false") and strs[0].v in ENV_FIELD
                if not ok:
                    raise Unreadable("expected `let x = std::env::var(\"NO_COLOR|CLICOLOR|CLICOLOR_FORCE\").map(|var| var != \"0\").unwrap_or(<bool>);`, found `%s`" % F.text_of(j, end), F.at(j))
                used.append(strs[0].v)
                lines.append("%slet %s := e.%s.test %s" % (ind, toks[1], ENV_FIELD[strs[0].v], toks[24]))
                j = end + 1
            if F.is_id(j, "if"):
                arms, els, end = if_chain(F, j)
                if els is None or end != hi:
                    raise Unreadable("expected an if / else cascade ending the block", F.at(j))
                text = ""
                for n, (clo, chi, b0, b1) in enumerate(arms):
                    if chi - clo != 1 or not F.is_id(clo):
                        raise Unreadable("condition of the cascade is not a plain variable: `%s`" % F.text_of(clo, chi), F.at(clo))
                    lines.append("%s%sif %s then" % (ind, "else " if n else "", F.T[clo].v))
                    lines.extend(block(b0, b1, ind + "  "))
                lines.append("%selse" % ind)
                lines.extend(block(els[0], els[1], ind + "  "))
                return lines
            if hi - j == 3 and F.is_id(j, "ColorMode") and F.is_p(j + 1, "::") and F.T[j + 2].v in ("Auto", "Always", "Never"):
                lines.append("%sLog4rs.Console.ColorMode.%s" % (ind, F.T[j + 2].v.lower()))
                return lines
            raise Unreadable("unexpected statement in COLOR_MODE: `%s`" % F.text_of(j, min(hi, j + 12)), F.at(j))

        body = block(blo, bhi, "  ")
        if sorted(set(used)) != sorted(ENV_FIELD):
            raise Unreadable("COLOR_MODE reads %s, expected exactly NO_COLOR, CLICOLOR, CLICOLOR_FORCE" % sorted(set(used)), F.at(i))
        out.define("def colorMode (e : Log4rs.Console.Env) : Log4rs.Console.ColorMode :=\n" + "\n".join(body))
        out.theorem("color_mode", "∀ e : Log4rs.Console.Env, Log4rs.Console.colorMode e = Gen.colorMode e",
                    "by\n  intro ⟨a, b, c⟩\n  cases a <;> cases b <;> cases c <;> rfl", F.at(i), w_cm)
    guarded(out, "color_mode", w_cm, color_mode)


# =============================================================================================
# C12 — struct Message;  C04/C05/C06 — BufWriter capacity;  C19 — env_util constants
# =============================================================================================
def gen_C12(repo, out):
    what = "struct Message of src/encode/json.rs (derive Serialize): serialized key of every field in declaration order (after rename), skip_serializing_if = \"Option::is_none\", Option-typed or not  ↔  Json.messageFieldTable (= messageMembers, by messageMembers_eq_table)"

    def msg():
        F = repo.file("src/encode/json.rs")
        i = F.one_kw("struct", "Message")
        attrs, _ = F.attr_list(i)
        if "Serialize" not in derives(F, attrs):
            raise Unreadable("struct Message does not derive Serialize", F.at(i))
        if tool_attrs(F, attrs, "serde"):
            raise Unreadable("container serde attributes on Message (rename_all, …) are outside the translated fragment", F.at(i))
        b = F.body(i)
        rows = []
        for f in parse_fields(F, b[0] + 1, b[1]):
            sd = tool_attrs(F, f.attrs, "serde")
            where = "%s:%d" % (F.rel, f.line)
            for k in sd:
                if k not in ("rename", "serialize_with", "skip_serializing_if"):
                    raise Unreadable("serde(%s) on Message.%s is outside the translated fragment" % (k, f.name), where)
            skip = sd.get("skip_serializing_if")
            if skip not in (None, "Option::is_none"):
                raise Unreadable("skip_serializing_if = %r on Message.%s" % (skip, f.name), where)
            if sd.get("serialize_with") not in (None, "ser_display"):
                raise Unreadable("serialize_with = %r on Message.%s" % (sd.get("serialize_with"), f.name), where)
            is_opt = f.ty.startswith("Option<")
            if skip and not is_opt:
                raise Unreadable("Message.%s skips None but is not an Option" % f.name, where)
            rows.append((sd.get("rename", f.name) if isinstance(sd.get("rename", f.name), str) else f.name, bool(skip), is_opt))
        out.define("def messageFields : List (List Char × Bool × Bool) :=\n  [" + ",\n   ".join(
            "(%s, %s, %s)" % (lean_chars(k), str(sk).lower(), str(op).lower()) for k, sk, op in rows) + "]")
        out.theorem("message_fields", "Log4rs.Json.messageFieldTable = Gen.messageFields", "by decide +kernel", F.at(i), what)
    guarded(out, "message_fields", what, msg)


def bufwriter_capacity(repo, rel):
    F = repo.file(rel)
    caps = []
    for i in range(len(F.T)):
        if F.is_id(i, "BufWriter") and F.is_p(i + 1, "::") and F.is_id(i + 2) and F.is_p(i + 3, "(") and F.active(i):
            if F.T[i + 2].v != "with_capacity":
                raise Unreadable("a BufWriter is built with BufWriter::%s (the model assumes with_capacity(<literal>, …) everywhere)" % F.T[i + 2].v, F.at(i))
            parts = F.split_top(i + 4, F.pair[i + 3], ",")
            if len(parts) != 2:
                raise Unreadable("unexpected BufWriter::with_capacity arguments", F.at(i))
            caps.append((eval_int_expr(F, parts[0][0], parts[0][1]), F.at(i)))
    if not caps:
        raise Unreadable("expected `BufWriter::with_capacity(<literal>, file)`", rel + ":1")
    if len({c for c, _ in caps}) != 1:
        raise Unreadable("BufWriters of different capacities in one file", caps[0][1])
    return caps[0]


def gen_bufwriter(files):
    def gen(repo, out):
        for tag, rel in files:
            what = "`BufWriter::with_capacity(N, file)` of %s (every active construction, a literal N)  ↔  Rolling.CAP" % rel

            def one(tag=tag, rel=rel, what=what):
                cap, where = bufwriter_capacity(repo, rel)
                out.define("def %sCapacity : Nat := %d" % (tag, cap))
                out.theorem("bufwriter_capacity_" + tag, "Log4rs.Rolling.CAP = Gen.%sCapacity" % tag, "by decide", where, what)
            guarded(out, "bufwriter_capacity_" + tag, what, one)
    return gen


FILE_RS, ROLLING_RS = "src/append/file.rs", "src/append/rolling_file/mod.rs"


def gen_C19(repo, out):
    EE = "Log4rs.EnvExpand."
    what = "mod env_util of src/append/mod.rs: ENV_PREFIX literal, ENV_PREFIX_LEN (= its UTF-8 length), ENV_SUFFIX, ENV_SUFFIX_LEN, and their use by expand_env_vars (match_indices(ENV_PREFIX), Some(ENV_SUFFIX) terminates)  ↔  EnvExpand.envPrefix / ENV_PREFIX_LEN / envSuffix / ENV_SUFFIX_LEN"
    what2 = "is_env_var_start / is_env_var_part: `c.is_alphanumeric() || c == '…'` chains (the extra characters)  ↔  EnvExpand.isStart / isPart for every alnum predicate and every character"

    def consts():
        F = repo.file("src/append/mod.rs")
        mi = F.one_kw("mod", "env_util")
        b = F.body(mi)
        lo, hi = b

        def const(name):
            i = F.one_kw("const", name, lo, hi)
            e = F.item_end(i)
            eq = F.find_seq(["="], i, e)
            return i, eq + 1, e - 1
        i, a, z = const("ENV_PREFIX")
        if z - a != 1 or F.T[a].k != "str":
            raise Unreadable("ENV_PREFIX is not a string literal", F.at(i))
        prefix = F.T[a].v
        i2, a, z = const("ENV_PREFIX_LEN")
        if [t.v for t in F.T[a:z]] == ["ENV_PREFIX", ".", "len", "(", ")"]:
            plen = len(prefix.encode("utf-8"))
        elif z - a == 1 and F.T[a].k == "num":
            plen = num_value(F.T[a])
        else:
            raise Unreadable("ENV_PREFIX_LEN is neither ENV_PREFIX.len() nor a literal", F.at(i2))
        i3, a, z = const("ENV_SUFFIX")
        if z - a != 1 or F.T[a].k != "char":
            raise Unreadable("ENV_SUFFIX is not a char literal", F.at(i3))
        suffix = F.T[a].v
        i4, a, z = const("ENV_SUFFIX_LEN")
        if z - a != 1 or F.T[a].k != "num":
            raise Unreadable("ENV_SUFFIX_LEN is not a literal", F.at(i4))
        slen = num_value(F.T[a])
        fi, flo, fhi = F.fn_body("expand_env_vars", lo, hi)
        for seq, msg in ((["path", ".", "match_indices", "(", "ENV_PREFIX", ")"], "path.match_indices(ENV_PREFIX)"),
                         (["match_start", "+", "ENV_PREFIX_LEN"], "match_start + ENV_PREFIX_LEN"),
                         (["is_env_var_start", "(", "ch", ")"], "is_env_var_start(ch)"),
                         (["is_env_var_part", "(", "ch", ")"], "is_env_var_part(ch)"),
                         (["Some", "(", "ENV_SUFFIX", ")", "=>", "break", "true"], "Some(ENV_SUFFIX) => break true"),
                         (["+", "ENV_SUFFIX_LEN"], "… + ENV_SUFFIX_LEN")):
            if F.find_seq(seq, flo, fhi) < 0:
                raise Unreadable("expand_env_vars no longer contains `%s`" % msg, F.at(fi))
        out.define("def envPrefix : List Char := %s\ndef envPrefixLen : Nat := %d\ndef envSuffix : Char := %s\ndef envSuffixLen : Nat := %d" % (
            lean_chars(prefix), plen, lean_char(suffix), slen))
        out.theorem("env_reference_syntax",
                    "%senvPrefix = Gen.envPrefix ∧ %sENV_PREFIX_LEN = Gen.envPrefixLen ∧ %senvSuffix = Gen.envSuffix ∧ %sENV_SUFFIX_LEN = Gen.envSuffixLen ∧ %sutf8Len %senvPrefix = %sENV_PREFIX_LEN" % (EE, EE, EE, EE, EE, EE, EE),
                    "by decide +kernel", F.at(i), what)
    guarded(out, "env_reference_syntax", what, consts)

    def name_chars():
        F = repo.file("src/append/mod.rs")
        mi = F.one_kw("mod", "env_util")
        lo, hi = F.body(mi)
        res = {}
        for fn in ("is_env_var_start", "is_env_var_part"):
            fi, a, z = F.fn_body(fn, lo, hi)
            terms = []
            for x, y in F.split_top(a + 1, z, "||"):
                toks = [t.v for t in F.T[x:y]]
                if toks == ["c", ".", "is_alphanumeric", "(", ")"]:
                    terms.append("alnum c")
                elif y - x == 3 and toks[0] == "c" and toks[1] == "==" and F.T[x + 2].k == "char":
                    terms.append("c == " + lean_char(F.T[x + 2].v))
                else:
                    raise Unreadable("%s is not `c.is_alphanumeric() || c == '…' …`: `%s`" % (fn, F.text_of(x, y)), F.at(x))
            if "alnum c" not in terms:
                raise Unreadable("%s does not test c.is_alphanumeric()" % fn, F.at(fi))
            res[fn] = " || ".join(terms)
            where = F.at(fi)
        out.define("def isStart (alnum : Char → Bool) (c : Char) : Bool := %s\ndef isPart (alnum : Char → Bool) (c : Char) : Bool := %s" % (
            res["is_env_var_start"], res["is_env_var_part"]))
        out.theorem("env_name_chars",
                    "(∀ (alnum : Char → Bool) (c : Char), %sisStart alnum c = Gen.isStart alnum c) ∧\n    (∀ (alnum : Char → Bool) (c : Char), %sisPart alnum c = Gen.isPart alnum c)" % (EE, EE),
                    "by\n  constructor <;> intro alnum c <;> first | rfl | simp [%sisStart, %sisPart, Gen.isStart, Gen.isPart, Bool.or_comm, Bool.or_left_comm, Bool.or_assoc]" % (EE, EE),
                    where, what2)
    guarded(out, "env_name_chars", what2, name_chars)


def gen_structs(names):
    def gen(repo, out):
        emit_struct_obligations(out, repo, names)
    return gen


def gen_both(*gens):
    def gen(repo, out):
        for g in gens:
            g(repo, out)
    return gen


# =============================================================================================
PROPS = {}


def register(pid, imports, opens, fn):
    PROPS[pid] = (imports, opens, fn)


register("C20", ["Log4rsModel.Literals.Model", "Log4rsModel.ConfigDoc.Schema"], [], gen_C20)
register("C09", ["Log4rsModel.Pattern.ChunkTableLemmas"], [], gen_pattern)
register("C11", ["Log4rsModel.Pattern.ChunkTableLemmas"], [], gen_pattern)
register("C18", ["Log4rsModel.Console.Model"], [], gen_C18)
register("C12", ["Log4rsModel.Json.FieldTable"], [], gen_C12)
register("C04", ["Log4rsModel.Rolling.BufWriter"], [], gen_bufwriter([("file_appender", FILE_RS)]))
register("C05", ["Log4rsModel.Rolling.BufWriter"], [], gen_bufwriter([("rolling_file_appender", ROLLING_RS)]))
register("C06", ["Log4rsModel.Rolling.BufWriter", "Log4rsModel.ConfigDoc.Schema"], [],
         gen_both(gen_bufwriter([("rolling_file_appender", ROLLING_RS)]), gen_structs(["SizeTriggerConfig"])))
register("C16", ["Log4rsModel.ConfigDoc.Schema"], [], gen_structs(["TimeTriggerConfig"]))
register("C17", ["Log4rsModel.ConfigDoc.Schema"], [], gen_structs(["OnStartUpTriggerConfig"]))
register("C19", ["Log4rsModel.EnvExpand.Model"], [], gen_C19)
register("C14", ["Log4rsModel.ConfigDoc.SchemaTable"], [], gen_C14)


def translate(repo_root, pid):
    """returns (lean text, sidecar dict)"""
    if pid not in PROPS:
        out = Out(pid, [], [])
    else:
        imports, opens, fn = PROPS[pid]
        out = Out(pid, imports, opens)
        fn(Repo(repo_root), out)
    text = out.finish()
    return text, {"property": pid, "repo": repo_root, "imports": list(PROPS.get(pid, ([],))[0]), "obligations": out.obl}


def main():
    ap = argparse.ArgumentParser()
    ap.add_argument("--repo", required=True)
    ap.add_argument("--prop", required=True)
    ap.add_argument("--out", required=True)
    a = ap.parse_args()
    text, side = translate(a.repo.rstrip("/"), a.prop)
    os.makedirs(os.path.dirname(os.path.abspath(a.out)), exist_ok=True)
    with open(a.out, "w") as f:
        f.write(text)
    with open(a.out + ".json", "w") as f:
        json.dump(side, f, indent=1)
    for o in side["obligations"]:
        print(("UNREADABLE " if o["unreadable"] else "obligation ") + o["name"])


if __name__ == "__main__":
    main()
