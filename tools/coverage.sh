#!/bin/bash
# tools/coverage.sh — which lines of /repo/src do the harness runs of the quick checks execute?
# (an audit of the tie, not a check: nightly toolchain + -C instrument-coverage, scratch build under .scratch/cov)
set -e
cd "$(dirname "$0")/.."
ROOT=$PWD
COV=$ROOT/.scratch/cov; rm -rf $COV; mkdir -p $COV/prof
TOOLS=$HOME/.rustup/toolchains/nightly-x86_64-unknown-linux-gnu/lib/rustlib/x86_64-unknown-linux-gnu/bin
rsync -a --exclude target harness/ $COV/harness/
( cd $COV/harness && RUSTFLAGS="-C instrument-coverage" CARGO_NET_OFFLINE=true cargo +nightly build --release --offline --target-dir $COV/target 2>&1 | tail -1 )
BIN=$COV/target/release/verif-harness
export VERIF_SCRATCH=$ROOT/.scratch VERIF_PTY_RUN=$ROOT/tools/pty_run.py
for p in $(python3 -c "import json;print(' '.join(c['property_id'] for c in json.load(open('MANIFEST.json'))['checks']))"); do
  N=$(python3 -c "import json;print(json.load(open('props.d/$p.json')).get('n_quick',1000))")
  ( grep -v '^#' corpus/$p.cases 2>/dev/null; LLVM_PROFILE_FILE=$COV/prof/gen-%p.profraw $BIN gen $p 0 $N quick ) > $COV/$p.cases
  LLVM_PROFILE_FILE=$COV/prof/$p-%p-%m.profraw $BIN exec $p < $COV/$p.cases > /dev/null || true
  echo "ran $p: $(wc -l < $COV/$p.cases) cases"
done
$TOOLS/llvm-profdata merge -sparse $COV/prof/*.profraw -o $COV/all.profdata
$TOOLS/llvm-cov report $BIN -instr-profile=$COV/all.profdata --ignore-filename-regex='(registry|harness/src|rustc/)' 2>/dev/null | tee $ROOT/coverage_report.txt | tail -45
