#!/bin/bash
# tools/seed_matrix.sh <seed-dir> [Cxx …] — applies the seed's patch.diff in ONE scratch worktree and runs the quick
# check of every claimed property (or of the listed ones) against it; prints which checks raise a VIOLATION.
DIR=$(readlink -f "$1"); shift
WT=/tmp/matrix_$$
git -C /repo worktree add -q --detach "$WT" HEAD || exit 2
( cd "$WT" && git apply "$DIR/patch.diff" ) || { echo "$(basename $(dirname $DIR))/$(basename $DIR): patch does not apply"; git -C /repo worktree remove --force "$WT"; exit 3; }
cd /verif
PIDS="$@"; [ -z "$PIDS" ] && PIDS=$(python3 -c "import json;print(' '.join(c['property_id'] for c in json.load(open('MANIFEST.json'))['checks']))")
CAUGHT=""
for p in $PIDS; do
  OUT=$(VERIF_REPO="$WT" timeout 900 ./check $p 2>&1); RC=$?
  if [ $RC -eq 1 ]; then CAUGHT="$CAUGHT $p"; fi
  [ $RC -ge 2 ] && echo "   ($p: rc=$RC $(echo "$OUT" | tail -1 | cut -c1-120))"
done
echo "$(basename $(dirname $DIR))/$(basename $DIR): caught_by=[$CAUGHT ]"
echo "$CAUGHT" > "$DIR/matrix.txt"
git -C /repo worktree remove --force "$WT"
rm -rf /verif/.scratch/alt_$(python3 -c "import hashlib;print(hashlib.sha1('$WT'.encode()).hexdigest()[:8])")
