#!/usr/bin/env python3
"""print the prompt for a seeding sub-agent for property Cxx (only the property text, no /verif content)"""
import json, sys
pid = sys.argv[1]
ROUND = sys.argv[2] if len(sys.argv) > 2 else ""
for l in open('/verif/properties.jsonl'):
    p = json.loads(l)
    if p['id'] == pid:
        break
wt = "/tmp/seed_%s" % pid
out = "/tmp/seed_%s_out" % pid
print(f"""You are given a private git worktree of a Rust crate (log4rs, a logging framework) at {wt} (already created; its HEAD is the current version of the crate). Work ONLY inside {wt} and {out} (create it). Do NOT read, list or use anything under /verif, and do not touch /repo. There is no network; use `--offline` with cargo (all dependencies are cached).

A semantic property the crate is supposed to have:

  Title: {p['title']}
  Statement: {p['statement']}
  Quantified over: {p['quantifier']['text']}
  Code anchors: {', '.join(p['anchors']['files'])}

Your task: produce TWO different realistic changes to the crate's source (under src/) that each BREAK this property — the kind of bug a maintainer could plausibly introduce in a refactoring or "optimisation": an off-by-one, a wrong comparison, a reordered pair of operations, a narrowed critical section, a missing flush, a boundary case handled on the wrong side, a stale cached value, two sites that each look fine alone — while ALL of the following hold for each change:
  (a) the crate still compiles with default features AND with `--features verif_hooks,json_format,toml_format,gzip,zstd` (do not modify src/verif_hooks.rs, the `#[cfg(feature = "verif_hooks")]` lines, Cargo.toml, tests, benches or examples);
  (b) the existing test suite passes exactly as before: `cargo test --workspace --no-fail-fast --offline` → the same tests pass (55 pass; `append::test::expand_env_vars_tests` fails before and after — that failure is pre-existing and unrelated);
  (c) the breakage needs something SPECIFIC to manifest — a particular multi-step sequence of operations, an unusual input, a particular thread interleaving, a fault or crash at a particular point, or two cooperating sites — NOT something ordinary use (or the crate's examples/README usage) would expose at once;
  (d) it is a change of behaviour that genuinely violates the property's statement (not just an internal difference), and the two changes touch different mechanisms.

For each change i ∈ {{1,2}} write into {out}/change<i>/:
  - patch.diff      : `git diff` of the change against HEAD (src/ only), applicable with `git apply` at the repository root;
  - demo.rs         : a self-contained integration test file (to be placed at tests/seed_demo.rs of the crate, uses only the crate's public API plus dev-dependencies already in Cargo.toml such as tempfile) that FAILS with the change and PASSES without it; run it as `cargo test --offline --test seed_demo` (add `--features …` only if needed and say so);
  - meta.json       : {{"property": "{pid}", "summary": "...", "mechanism": "...", "needs_to_manifest": "...", "files_touched": [...], "demo_cmd": "...", "verified": {{"compiles_default": true, "compiles_with_features": true, "suite_unchanged": true, "demo_fails_with_change": true, "demo_passes_without": true}}}}
Verify every one of those five facts yourself by running the commands in your worktree (apply the patch, run, `git checkout -- src` to undo, run again) and only claim what you observed. Leave the worktree clean (no uncommitted changes, no tests/seed_demo.rs left behind) when you finish. In your final message give a 5-line summary per change.""")

if ROUND == "r5":
    print(f"""
ADDITIONAL REQUIREMENTS FOR THIS ROUND (they override the above where they differ). Earlier rounds of this exercise already produced the obvious mutations of the anchor functions (flipped comparisons, off-by-ones, dropped sorts, missing flushes, byte/char confusions, stale caches after restart, narrowed critical sections). This round asks for changes of a DIFFERENT character; pick two of these kinds, one per change:
  (1) the edit lives in a file OTHER than the property's code anchors (a helper, a builder, a Drop impl, a deserializer, an error path, lib.rs plumbing, a trait default method) and breaks the property only through an interaction with the anchored code;
  (2) the breakage needs a LONG or numerically special history: the k-th rotation/record/reconfiguration for some k >= 5, a counter or size crossing a power of two or a buffer capacity, an accumulated drift that only shows after many steps;
  (3) the breakage needs a specific ORDER of public-API calls that is legal but unusual (builder methods in another order, a handle used after another handle, an appender shared by two loggers, the same object reused after an error, flush()/drop at a particular moment);
  (4) the breakage needs an unusual but legal VALUE class in the data (empty strings, zero, maximum values, non-ASCII or combining characters, names that are prefixes of other names, duplicate entries) in combination with a second condition;
  (5) the breakage needs a particular thread interleaving or a fault (I/O error, missing directory, full disk simulated by a failing writer, permission change) at one particular point.
Write the results into {out}/r5_1/ and {out}/r5_2/ (instead of change1/ change2/), same three files each. In meta.json add a field "kind": one of 1..5 as above. The change must read like an honest refactoring or optimisation with a plausible commit message (put it in meta.json as "commit_message"); no dead code, no comments that give the bug away.""")

if ROUND == "r7":
    print(f"""
ADDITIONAL REQUIREMENTS FOR THIS ROUND (they override the above where they differ). Many rounds of this exercise already produced the obvious mutations of the anchor functions (flipped comparisons, off-by-ones, dropped sorts, missing flushes, byte/char confusions, stale caches after restart, narrowed critical sections, builder-order bugs, block-wise padding, Unicode case folding, directory creation moved to the builder). This round asks for changes that live at the SEAMS of the crate; pick two of these kinds, one per change:
  (6) the configuration-FILE path: a deserializer, the `Deserializers` registry, `RawConfig`, `appenders_lossy`, `init_file`/`load_config_file`, the reloader — the programmatic builder API stays correct, the same logical configuration loaded from YAML/JSON/TOML (or re-loaded at runtime) breaks the property;
  (7) object LIFETIMES: `Drop`, flush, `Handle` clones, an appender shared through `Arc` by two loggers or two configurations, the old configuration's objects still alive while the new ones are used, a logger used from a thread that outlives a reconfiguration;
  (8) the INTERACTION of two components that are each correct alone: encoder + appender (what the appender does with what the encoder wrote), trigger + roller (when the policy consults which), filter + logger level, reloader + logger, pattern writer stack + console/ansi writer;
  (9) PROCESS conditions: current directory, environment variables, time zone, stdout/stderr closed or full, file permissions, symlinks, a second process or handle touching the same file;
  (10) an ERROR PATH: what state is left behind when an I/O operation, an encoder, a filter, a trigger or a roller returns an error or panics, and the same objects are used again.
Write the results into {out}/r7_1/ and {out}/r7_2/ (instead of change1/ change2/), same three files each. In meta.json add a field "kind": one of 6..10 as above, and "commit_message". The change must read like an honest refactoring, optimisation or robustness fix; no dead code, no comments that give the bug away. Prefer changes whose demonstration does NOT depend on timing; if it needs an interleaving, make the demo deterministic (barriers, custom Encode/Append/Filter impls, the crate's guarded `verif_hooks` points if you compile the demo with `--features verif_hooks`).""")
