#!/bin/sh
# tools/run_all.sh [quick|thorough] — runs every claimed check in sequence, prints a one-line summary each
TIER=${1:-quick}
cd "$(dirname "$0")/.."
FAIL=0
for p in $(python3 -c "import json;print(' '.join(c['property_id'] for c in json.load(open('MANIFEST.json'))['checks']))"); do
  OUT=$(./check $p --tier $TIER 2>&1); RC=$?
  echo "$OUT" | grep -E "^(C[0-9]+ tier|VIOLATION|KNOWN-FINDING|INFRA|AUDIT-PROBLEM)" 
  [ $RC -ne 0 ] && FAIL=1 && echo "   -> $p exit $RC"
done
exit $FAIL
