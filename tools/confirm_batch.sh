#!/bin/bash
# tools/confirm_batch.sh Cxx Cyy … — confirm_seed for change1/change2 of each, 4 in parallel; log to /tmp/confirm_batch.log
for p in "$@"; do for c in 1 2; do echo "$p /tmp/seed_${p}_out/change$c"; done; done | xargs -P 4 -L 1 /verif/tools/confirm_seed.sh 2>&1 | grep -E "^C[0-9]+ change" | tee -a /tmp/confirm_batch.log
