#!/bin/bash
# tools/confirm_batch3.sh Cxx Cyy … — confirm_seed for the round-3 changes r3_1/r3_2 of each, 4 in parallel
for p in "$@"; do for c in r3_1 r3_2; do [ -d /tmp/seed_${p}_out/$c ] && echo "$p /tmp/seed_${p}_out/$c"; done; done | xargs -P 4 -L 1 /verif/tools/confirm_seed.sh 2>&1 | grep -E "^C[0-9]+ " | tee -a /tmp/confirm_batch.log
