#!/bin/sh
# tools/seedtest.sh <Cxx> <patch.diff> [quick|thorough]
# Applies a seeded change to a scratch worktree of /repo (never to /repo itself), runs the
# property's check against that worktree (VERIF_REPO), prints the outcome, removes the worktree.
set -u
PID=$1; PATCH=$(readlink -f "$2"); TIER=${3:-quick}
WT=/tmp/seedtest_$$_$PID
git -C /repo worktree add -q --detach "$WT" HEAD || exit 2
( cd "$WT" && git apply "$PATCH" ) || { echo "patch does not apply"; git -C /repo worktree remove --force "$WT"; exit 2; }
cd "$(dirname "$0")/.." && VERIF_REPO="$WT" ./check "$PID" --tier "$TIER"; RC=$?
echo "seedtest $PID $(basename "$(dirname "$PATCH")") rc=$RC"
git -C /repo worktree remove --force "$WT"

exit $RC
