#!/bin/sh
# How a stranger audits the proofs: clean build, forbidden-token grep, axioms of every property theorem, leanchecker.
set -e
cd "$(dirname "$0")/../lean"
rm -rf .lake/build
lake build
echo "--- forbidden tokens (comments not stripped here; ./check strips them):"
grep -rnE 'sorry|admit|^axiom |native_decide|bv_decide|implemented_by|unsafe |maxHeartbeats 0' Log4rsModel Driver || echo none
for f in Log4rsModel/Properties/C*.lean; do
  p=$(basename $f .lean)
  printf 'import Lean\nimport Log4rsModel.Properties.%s\nopen Lean Elab Command\nrun_cmd do\n  let env ← getEnv\n  let some i := env.getModuleIdx? `Log4rsModel.Properties.%s | throwError "no module"\n  for (n, ci) in env.constants.map₁.toList do\n    if env.getModuleIdxFor? n == some i then\n      match ci with\n      | .thmInfo _ => logInfo m!"{n} {(← collectAxioms n).toList}"\n      | _ => pure ()\n' $p $p > /tmp/audit_$p.lean
  echo "--- axioms of theorems in $p"; lake env lean /tmp/audit_$p.lean | grep "$p"_ || true
  lake env leanchecker Log4rsModel.Properties.$p && echo "leanchecker ok: $p"
  rm -f /tmp/audit_$p.lean
done
echo "--- translation obligations (tables regenerated from ${VERIF_REPO:-/repo}/src by tools/translate.py, checked by the kernel):"
mkdir -p ../.scratch/audit_gen
for j in ../props.d/C*.json; do
  p=$(basename $j .json)
  python3 ../tools/translate.py --repo "${VERIF_REPO:-/repo}" --prop $p --out ../.scratch/audit_gen/Gen_$p.lean > /dev/null
  if grep -q '^theorem\|GEN-UNREADABLE' ../.scratch/audit_gen/Gen_$p.lean; then
    lake env lean ../.scratch/audit_gen/Gen_$p.lean 2>&1 | grep 'GEN-\|error' || true
  fi
done
rm -rf ../.scratch/audit_gen
