#!/bin/sh
# How a stranger audits the proofs: clean build, forbidden-token grep, axioms of every property theorem, leanchecker.
set -e
cd "$(dirname "$0")/../lean"
rm -rf .lake/build
lake build
echo "--- forbidden tokens (comments not stripped here; ./check strips them):"
grep -rnE 'sorry|admit|^axiom |native_decide|bv_decide|implemented_by|unsafe |maxHeartbeats 0' Log4rsModel Driver || echo none
for f in Log4rsModel/Properties/C*.lean; do
  p=$(basename $f .lean)
  printf 'import Lean\nimport Log4rsModel.Properties.%s\nopen Lean Elab Command\nrun_cmd do\n  let env ← getEnv\n  let some i := env.getModuleIdx? `Log4rsModel.Properties.%s | throwError "no module"\n  for (n, ci) in env.constants.map₁.toList do\n    if env.getModuleIdxFor? n == some i then\n      match ci with\n      | .thmInfo _ => logInfo m!"{n} {(← collectAxioms n).toList}"\n      | _ => pure ()\n' $p $p > /tmp/audit_$p.lean
  echo "--- axioms of theorems in $p"; lake env lean /tmp/audit_$p.lean | grep "$p"_ || true
  lake env leanchecker Log4rsModel.Properties.$p && echo "leanchecker ok: $p"
  rm -f /tmp/audit_$p.lean
done
