#!/usr/bin/env python3
"""Copy confirmed seeded changes from /tmp/seed_Cxx_out/changeN into /verif/seeded/<Cxx>_<N>/ (patch.diff, demo.rs, meta.json
with what was confirmed and what the checks said)."""
import json, os, shutil, sys, glob
ROOT = os.path.dirname(os.path.dirname(os.path.abspath(__file__)))
for d in sorted(glob.glob("/tmp/seed_C*_out/change*") + glob.glob("/tmp/seed_C*_out/r2_*") + glob.glob("/tmp/seed_C*_out/r3_*") + glob.glob("/tmp/seed_C*_out/r5_*") + glob.glob("/tmp/seed_C*_out/r7_*")):
    pid = d.split("/")[2][5:8]
    n = os.path.basename(d).replace("change", "")
    conf = os.path.join(d, "confirm.json")
    if not os.path.exists(conf):
        continue
    c = json.load(open(conf))
    if not c.get("applies"):
        continue
    ok = c["demo_passes_clean"] and c["builds_default"] and c["builds_features"] and c["suite_identical"] and c["demo_fails_patched"]
    if not ok:
        print("NOT CONFIRMED", pid, n, c); continue
    out = os.path.join(ROOT, "seeded", "%s_%s" % (pid, n))
    os.makedirs(out, exist_ok=True)
    shutil.copy(os.path.join(d, "patch.diff"), out)
    shutil.copy(os.path.join(d, "demo.rs"), out)
    m = json.load(open(os.path.join(d, "meta.json")))
    prev = {}
    if os.path.exists(os.path.join(out, "meta.json")):
        prev = json.load(open(os.path.join(out, "meta.json")))
    hist = prev.get("check_history", [])
    entry = {"against_head": c["head"], "tier": c["check_tier"], "rc": c["check_rc"], "violation_lines": c["check_violation_lines"], "summary": c["check_summary"]}
    if entry not in hist:
        hist.append(entry)
    meta = {"property": pid, "breaks": m.get("summary"), "mechanism": m.get("mechanism"), "needs_to_manifest": m.get("needs_to_manifest"),
            "files_touched": m.get("files_touched"), "demo_cmd": m.get("demo_cmd"),
            "confirmed_by_integrator": {"worktree_of": "/repo@" + c["head"], "demo_passes_without_change": True, "demo_fails_with_change": True,
                                        "builds_default_and_hook_features": True, "existing_suite_results_identical": True,
                                        "how": "tools/confirm_seed.sh %s <dir> (scratch worktree, never /repo itself)" % pid},
            "check_history": hist,
            "caught_by": sorted(set(prev.get("caught_by", [])) | ({pid} if c["check_rc"] == 1 else set())
                                | (set(open(os.path.join(d, "matrix.txt")).read().split()) if os.path.exists(os.path.join(d, "matrix.txt")) else set()))}
    for k in ("kind", "commit_message"):
        if k in m:
            meta[k] = m[k]
    json.dump(meta, open(os.path.join(out, "meta.json"), "w"), indent=1)
    print(pid, n, "caught" if c["check_rc"] == 1 else "MISSED rc=%d" % c["check_rc"])
