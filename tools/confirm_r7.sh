#!/bin/bash
# tools/confirm_r5.sh <Cxx> — confirm both round-7 seeds of a property (sequentially), then drop the seeding worktree
P=$1
cd "$(dirname "$0")/.."
for n in 1 2; do
  D=/tmp/seed_${P}_out/r7_$n
  [ -f $D/patch.diff ] && tools/confirm_seed.sh $P $D
done
git -C /repo worktree remove --force /tmp/seed_$P 2>/dev/null
