#!/bin/bash
# tools/confirm_seed.sh <Cxx> <change-dir> — independently confirm a seeded change in a scratch worktree:
#   demo passes on clean HEAD; patch applies; builds (default + hook features); suite results identical
#   to HEAD's; demo fails with the patch. Then runs the property's check against the patched worktree.
# Writes <change-dir>/confirm.json. Never touches /repo's working tree.
PID=$1; DIR=$(readlink -f "$2"); TIER=${3:-quick}
WT=/tmp/confirm_$$_$PID
export CARGO_NET_OFFLINE=true
git -C /repo worktree add -q --detach "$WT" HEAD || exit 2
cd "$WT"
DEMO_FEATURES=$(python3 -c "
import json,re,sys
m=json.load(open('$DIR/meta.json')); c=m.get('demo_cmd','')
f=re.search(r'--features[ =]([\w,]+)',c); print(f.group(1) if f else '')")
FEAT=""; [ -n "$DEMO_FEATURES" ] && FEAT="--features $DEMO_FEATURES"
suite() { cargo test --workspace --no-fail-fast --offline 2>&1 | grep -oE 'test [A-Za-z0-9_:]+ \.\.\. (ok|FAILED|ignored)' | sort; }
cp "$DIR/demo.rs" tests/seed_demo.rs
cargo test --offline $FEAT --test seed_demo >/tmp/confirm_$$.log 2>&1; DEMO_CLEAN=$?
rm -f tests/seed_demo.rs
BASE=/tmp/confirm_baseline_$(git rev-parse --short HEAD).txt
[ -f "$BASE" ] || suite > "$BASE"
APPLY=0; git apply "$DIR/patch.diff" 2>/tmp/confirm_$$.apply || APPLY=1
if [ $APPLY -ne 0 ]; then
  echo "{\"applies\": false, \"note\": \"$(head -c 300 /tmp/confirm_$$.apply | tr '\n\"' '  ')\"}" > "$DIR/confirm.json"
  cd /; git -C /repo worktree remove --force "$WT"; echo "$PID $(basename $DIR): patch does not apply to current HEAD"; exit 3
fi
cargo build --offline >/dev/null 2>&1; B1=$?
cargo build --offline --features verif_hooks,json_format,toml_format,gzip,zstd >/dev/null 2>&1; B2=$?
suite > /tmp/confirm_$$.suite; cmp -s "$BASE" /tmp/confirm_$$.suite; SUITE=$?
[ $SUITE -ne 0 ] && diff "$BASE" /tmp/confirm_$$.suite > "$DIR/suite.diff"
cp "$DIR/demo.rs" tests/seed_demo.rs
cargo test --offline $FEAT --test seed_demo >/tmp/confirm_$$.log2 2>&1; DEMO_PATCHED=$?
rm -f tests/seed_demo.rs
cd /verif
OUT=$(VERIF_REPO="$WT" ./check "$PID" --tier "$TIER" 2>&1); RC=$?
VIOL=$(echo "$OUT" | grep -E '^VIOLATION' | head -3 | tr '\n' ';')
SUMMARY=$(echo "$OUT" | grep -E "^$PID tier" | head -1)
python3 - <<PY
import json
json.dump({"applies": True, "head": "$(git -C /repo rev-parse --short HEAD)", "demo_passes_clean": $DEMO_CLEAN == 0, "builds_default": $B1 == 0,
 "builds_features": $B2 == 0, "suite_identical": $SUITE == 0, "demo_fails_patched": $DEMO_PATCHED != 0,
 "check_tier": "$TIER", "check_rc": $RC, "check_violation_lines": """$VIOL""", "check_summary": """$SUMMARY"""}, open("$DIR/confirm.json","w"), indent=1)
PY
echo "$PID $(basename $DIR): demo_clean=$DEMO_CLEAN builds=$B1/$B2 suite_same=$SUITE demo_patched=$DEMO_PATCHED check_rc=$RC $VIOL"
git -C /repo worktree remove --force "$WT"
rm -rf /verif/.scratch/alt_$(python3 -c "import hashlib;print(hashlib.sha1('$WT'.encode()).hexdigest()[:8])")
rm -f /tmp/confirm_$$.*
