import Driver.Common
import Driver.C05
/-
C17 driver: the rolling-appender case format of `Driver/C05.lean` with an on-start-up trigger
and a dense pre-existing window. The specification is the statement as a function: the first
append of every appender rolls iff the file that exists at that moment has at least `min_size`
bytes — the old content becomes the newest archive (`Spec.rotateWindow`), the record starts a
fresh file; every other append just extends the active file; nothing else ever changes; the
roller is asked exactly once by that first append and never otherwise (the harness's roller wrapper
counts `Roll::roll` calls; `g!record` makes it report `Err` once after doing its work). It is
compared with the directory the real code produced after every operation.
-/
namespace Driver.C17
open Log4rs.Proto Log4rs.Rolling Driver Driver.C05
open Driver.C04 (recBytes hex)

structure Expect where
  window : List Bytes        -- newest first, slot base+i
  active : Bytes
  first : Bool
  /-- the log file exists (it does not after a rotation whose record was not written) -/
  present : Bool := true

/-- pre-existing archives inside the window, newest first (the generator makes them dense from base) -/
def window0 (c : Case) : List Bytes :=
  let (b, n) := c.window
  (List.range n).filterMap (fun j => (c.preArch.find? (fun e => e.1 = b + j)).map (fun e => preArchBytes e.1 e.2))

def bystanders (c : Case) : List (Log4rs.Roller.Path × Bytes) :=
  let (b, n) := c.window
  (c.preArch.filter (fun e => ¬ (b ≤ e.1 ∧ e.1 < b + n))).map (fun e => (c.archName e.1, preArchBytes e.1 e.2))

def renderExpect (c : Case) (x : Expect) : String :=
  let (b, _) := c.window
  renderSnap (bystanders c ++ (List.range x.window.length).filterMap (fun i => x.window[i]?.map (fun w => (c.archName (b + i), w))) ++
    (if x.present then [(activePath, x.active)] else []))

def isLate (op : OpSpec) : Bool := match op.op with | .append _ (some k) => k == LATE | _ => false

def stepExpect (c : Case) (minSize : Nat) (x : Expect) (op : OpSpec) : Expect :=
  match op.op, op.rec? with
  | .append _ _, some r =>
    if op.fail.isSome then
      -- the encoder fails, but the policy has already been consulted (get_writer → policy → encode):
      -- the first record to ARRIVE decides; after a rotation `get_writer` has recreated the file
      if x.first ∧ x.active.length ≥ minSize then
        { window := Spec.rotateWindow c.window.2 x.window x.active, active := [], first := false, present := true }
      else { x with first := false, present := true }
    else
    if x.first ∧ x.active.length ≥ minSize then
      -- the one rotation; when the roller reports Err (after doing its work) the append fails
      -- before the record is written: the old content is archived, no new file yet
      if isLate op then { window := Spec.rotateWindow c.window.2 x.window x.active, active := [], first := false, present := false }
      else { window := Spec.rotateWindow c.window.2 x.window x.active, active := recBytes r.chunks, first := false }
    else { x with active := x.active ++ recBytes r.chunks, first := false, present := true }
  | .restart, _ => { x with active := if c.appendMode then x.active else [], first := true, present := true }
  | _, _ => x

def specGo (c : Case) (minSize : Nat) : Nat → Expect → List OpSpec → List ObsEntry → Option String
  | _, _, [], [] => none
  | k, x, op :: ops, e :: es =>
    let x' := stepExpect c minSize x op
    let rolledNow := x.first ∧ x.active.length ≥ minSize ∧ op.rec?.isSome
    let expectErr := (rolledNow ∧ isLate op) ∨ op.fail.isSome
    if e.res = "PANIC" then some ("panic at op " ++ toString k)
    else if e.calls ≠ (if rolledNow then 1 else 0) then
      some (toString e.calls ++ " rotation request(s) to the roller at op " ++ toString k ++ ", expected " ++ (if rolledNow then "exactly 1" else "none"))
    else if op.rec?.isSome ∧ (e.res = "ok") = expectErr then some ("append result " ++ e.res ++ " at op " ++ toString k)
    else if e.snapS ≠ renderExpect c x' then
      some ((if rolledNow ∧ op.fail.isSome then "first record (its encoder failed): the start-up rotation must still happen while it is handled"
             else if rolledNow then "first record: old content is not the newest archive / record not alone in a fresh file"
             else if x.first ∧ op.rec?.isSome then "first record rolled although the file was smaller than min_size (or lost data)"
             else "later operation changed more than appending the record") ++ " at op " ++ toString k)
    else specGo c minSize (k + 1) x' ops es
  | k, _, _, _ => some ("observation arity at op " ++ toString k)

def expect0 (c : Case) : Expect :=
  { window := window0 c, active := if c.appendMode then (c.preActive.map preActiveBytes).getD [] else [], first := true }

def handleSeq (cas obs : List String) : Answer :=
  withSeq cas obs fun c ops tr es =>
    match c.trig with
    | .startup minSize =>
      let model := encList "," (tr.map renderEntry)
      let x0 := expect0 c
      let spec := match es with
        | [] => "FAIL:empty observation;sig=" ++ c.sig "C17"
        | e0 :: rest =>
          if e0.snapS ≠ renderExpect c x0 then "FAIL:directory after build;sig=" ++ c.sig "C17" ++ "-open"
          else match specGo c minSize 0 x0 ops rest with
            | none => "ok"
            | some why => "FAIL:" ++ why ++ ";sig=" ++ c.sig "C17"
      let sz := x0.active.length
      let firstFails := match ops.find? (fun o => o.rec?.isSome) with | some o => o.fail.isSome | none => false
      let tags := modelTags c ops tr ++ ["min-" ++ toString minSize] ++
        (if firstFails then ["first-record-encoder-fails"] else []) ++
        (if ops.any (fun o => o.fail.isSome) then ["encoder-error"] else []) ++
        [if sz + 1 = minSize then "size=min-1" else if sz = minSize then "size=min" else if sz = minSize + 1 then "size=min+1"
         else if sz < minSize then "size<min" else "size>min"]
      { model, spec, tags := if ops.isEmpty then "trivial" :: tags else "seq" :: tags }
    | _ => badCase "C17 needs an on-start-up trigger"

def handleConc (cas obs : List String) : Answer :=
  withConc cas obs fun cc =>
    match cc.c.trig with
    | .startup minSize =>
      let c := cc.c
      let x0 := expect0 c
      let rolls := x0.active.length ≥ minSize
      let total := (cc.threads.map List.length).sum
      -- expected directory apart from the active file
      let x1 : Expect := if rolls ∧ total > 0 then { x0 with window := Spec.rotateWindow c.window.2 x0.window x0.active, active := [] } else x0
      let initial := x1.active
      let active := (cc.snap.get? activePath).getD []
      let othersOk : Bool :=
        renderSnap (cc.snap.filter (fun e => e.1 ≠ activePath) ++ [(activePath, [])]) == renderExpect c { x1 with active := [] }
      let allAcked := (cc.threads.zip cc.acks).all (fun (t, ids) => t.map (·.id) == ids)
      let callsOk := cc.calls = (if rolls ∧ total > 0 then 1 else 0)
      let ok := allAcked && othersOk && callsOk && Spec.isMergeOfWhole initial cc.acked active
      { model := if ok then cc.echo else cc.serial,
        spec := if ok then "ok" else
          "FAIL:simultaneous first appends: not exactly one rotation of the old content with every record whole after it;sig=" ++ c.sig "C17" ++ "-conc",
        tags := cc.tags ++ [if rolls then "rolls" else "no-roll"] }
    | _ => badCase "C17 needs an on-start-up trigger"

def handle : Handler := fun cas obs =>
  match cas with
  | "seq" :: _ => handleSeq cas obs
  | "conc" :: _ => handleConc cas obs
  | _ => badCase "kind"

end Driver.C17
