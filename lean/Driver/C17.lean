import Driver.Common
import Driver.C05
import Log4rsModel.Rolling.Ext17Spec
/-
C17 driver. Case formats:

  seq   … the rolling-appender format of `Driver/C05.lean` with an on-start-up trigger; the
          pre-existing window may have gaps; ops may carry `f<k>!` (step k of the rotation fails),
          `g!` (the roller reports Err after its work) and `e<n>!` (the encoder fails)
  conc  … the format of `Driver/C05.lean` (threads released by a barrier, one round)
  conc2 <mode> <preActive> <preArchives> <trigger> <roller> <clock0> <amplifier> <late rounds> <rounds>
          rounds `;`-joined, a restart (drop + build) between rounds; a round = threads `|`-joined,
          a thread = `,`-joined records (`record` | `e<n>!record`); `late rounds` = `,`-joined indices of
          the rounds in which the roller reports Err after doing its work
          observation: rounds `&`-joined, each  <acks `|` per thread>!<Roll::roll calls>!<snapshot>
  once  <min_size> <appenders `,`-joined: pre-existing size> <records per appender>
          N appenders on N files sharing ONE trigger object; all first records released by a barrier
          observation: `,`-joined per appender  <Roll::roll calls>:<active hex>:<archive hex | ->

The specification is `Spec17.step` (`Log4rsModel/Rolling/Ext17Spec.lean`), the function about which
`C17_model_refines_spec` is proved: the driver evaluates it on the REAL directory after every
operation (whole rendered directory, number of `Roll::roll` invocations, Ok/Err of the append).
For concurrent cases the commit order is reconstructed from the real file (records carry unique
ids); `Spec17.step` is folded over that order and must reproduce the observed directory, the
observed acknowledgements and the observed number of rotation requests (S); the model is run over
the same order and its rendering is compared with the observation (T) — no echo.
-/
namespace Driver.C17
open Log4rs.Proto Log4rs.Rolling Driver Driver.C05
open Driver.C04 (recBytes hex RecSpec dedup)

/-- the roller the model is run with is the wrapper the theorems speak about -/
theorem rollFn_eq_lateWrap (rs : RollSpec) : rollFn rs = Spec17.lateWrap (rollFnPlain rs) := rfl

abbrev Expect := Spec17.Expect

/-- the pre-existing window, slot by slot (gaps allowed) -/
def slots0 (c : Case) : List (Option Bytes) :=
  let (b, n) := c.window
  (List.range n).map (fun j => (c.preArch.find? (fun e => e.1 = b + j)).map (fun e => preArchBytes e.1 e.2))

def bystanders (c : Case) : List (Log4rs.Roller.Path × Bytes) :=
  let (b, n) := c.window
  (c.preArch.filter (fun e => ¬ (b ≤ e.1 ∧ e.1 < b + n))).map (fun e => (c.archName e.1, preArchBytes e.1 e.2))

def renderExpect (c : Case) (x : Expect) : String :=
  let (b, _) := c.window
  renderSnap (bystanders c ++
    (List.range x.slots.length).filterMap (fun i => (Spec17.slotAt x.slots i).map (fun w => (c.archName (b + i), w))) ++
    (if x.present then [(activePath, x.active)] else []))

def expect0 (c : Case) : Expect :=
  { slots := slots0 c, active := if c.appendMode then (c.preActive.map preActiveBytes).getD [] else [], first := true }

def isDense (slots : List (Option Bytes)) : Bool :=
  let k := (slots.takeWhile Option.isSome).length
  (slots.drop k).all Option.isNone

/-- size of the file seen by a first arrival, relative to `min_size` -/
def sizeTag (sz minSize : Nat) : String :=
  if sz + 1 = minSize then "min-1" else if sz = minSize then "min" else if sz = minSize + 1 then "min+1"
  else if sz < minSize then "<min" else if sz ≤ 2 * minSize + 2 then ">min+1" else ">>min"

structure Walk where
  x : Expect
  tags : List String := []
  appender : Nat := 0

def specGo (c : Case) (minSize : Nat) : Nat → Expect → List OpSpec → List ObsEntry → Option String
  | _, _, [], [] => none
  | k, x, op :: ops, e :: es =>
    let ev := Spec17.evOf op.xop
    let (x', v) := Spec17.step c.window.2 minSize c.appendMode x ev
    let rolledNow := Spec17.rollsNow minSize x && op.rec?.isSome
    let loc := " at op " ++ toString k
    if e.res = "PANIC" then some ("panic" ++ loc)
    else if e.calls ≠ (match v with | some v => v.calls | none => 0) then
      some (toString e.calls ++ " rotation request(s) to the roller" ++ loc ++ ", expected " ++
        (if rolledNow then "exactly 1" else "none"))
    else if (match v with | some v => e.res != (if v.ok then "ok" else "err") | none => e.res != "-") then
      some ("append result " ++ e.res ++ loc)
    else if e.snapS ≠ renderExpect c x' then
      some ((if rolledNow ∧ op.fail.isSome then "first record (its encoder failed): the start-up rotation must still happen while it is handled"
             else if rolledNow && (match v with | some v => !v.ok | none => false) then "first record with a failing roller: directory is not the image of the interrupted rotation / record written although the append failed"
             else if rolledNow then "first record: old content is not the newest archive / record not alone in a fresh file"
             else if x.first ∧ op.rec?.isSome then "first record rolled although the file was smaller than min_size (or lost data)"
             else "later operation changed more than appending the record") ++ loc)
    else specGo c minSize (k + 1) x' ops es
  | k, _, _, _ => some ("observation arity at op " ++ toString k)

/-- coverage tags derived from the statement's walk over the history -/
def walkTags (c : Case) (minSize : Nat) (ops : List OpSpec) : List String :=
  let step := fun (w : Walk) (op : OpSpec) =>
    let ev := Spec17.evOf op.xop
    let (x', v) := Spec17.step c.window.2 minSize c.appendMode w.x ev
    let t1 := if w.x.first ∧ op.rec?.isSome then
        ["arrival-size" ++ sizeTag w.x.active.length minSize] ++
        (if w.appender > 0 then ["later-appender-first-record"] else []) ++
        (if w.appender > 0 ∧ Spec17.rollsNow minSize w.x then ["later-appender-rolls"] else []) ++
        (if Spec17.rollsNow minSize w.x then
          (match v with
           | some v => if v.ok then [] else
              (match ev with
               | .arrive _ true _ => ["first-record-encoder-fails-and-rolls"]
               | .arrive _ _ (.failsAt _) => ["first-record-roller-fails-midway"]
               | .arrive _ _ .late => ["first-record-roller-late-err"]
               | _ => [])
           | none => []) ++
          (if !isDense w.x.slots then ["rolls-gapped-window"] else []) ++
          (if w.x.slots.all Option.isSome ∧ !w.x.slots.isEmpty then ["rolls-full-window"] else [])
         else [])
      else []
    let t2 := match op.op with
      | .restart => if w.x.first then ["restart-without-record"] else []
      | _ => []
    { x := x', tags := w.tags ++ t1 ++ t2, appender := match op.op with | .restart => w.appender + 1 | _ => w.appender }
  (ops.foldl step { x := expect0 c }).tags

def handleSeq (cas obs : List String) : Answer :=
  withSeq cas obs fun c ops tr es =>
    match c.trig with
    | .startup minSize =>
      let model := encList "," (tr.map renderEntry)
      let x0 := expect0 c
      let spec := match es with
        | [] => "FAIL:empty observation;sig=" ++ c.sig "C17"
        | e0 :: rest =>
          if e0.snapS ≠ renderExpect c x0 then "FAIL:directory after build;sig=" ++ c.sig "C17" ++ "-open"
          else match specGo c minSize 0 x0 ops rest with
            | none => "ok"
            | some why => "FAIL:" ++ why ++ ";sig=" ++ c.sig "C17"
      let sz := x0.active.length
      let firstFails := match ops.find? (fun o => o.rec?.isSome) with | some o => o.fail.isSome | none => false
      let tags := modelTags c ops tr ++ ["min-" ++ toString (if minSize > 100000 then 100000 else minSize)] ++
        (if firstFails then ["first-record-encoder-fails"] else []) ++
        (if ops.any (fun o => o.fail.isSome) then ["encoder-error"] else []) ++
        (if !isDense x0.slots then ["gapped-window"] else []) ++
        ["size" ++ sizeTag sz minSize] ++ walkTags c minSize ops
      { model, spec, tags := if ops.isEmpty then "trivial" :: dedup tags else "seq" :: dedup tags }
    | _ => badCase "C17 needs an on-start-up trigger"

/-! ### concurrent cases -/

structure CRec where
  id : Nat
  chunks : Rec
  fail : Option Nat
  deriving Repr

def CRec.bytes (r : CRec) : Bytes := recBytes r.chunks

structure Round where
  threads : List (List CRec)
  late : Bool

structure RoundObs where
  acks : List (List Nat)
  calls : Nat
  snapS : String
  snap : Spec.Snap

def decCRec (s : String) : Option CRec :=
  match decOp false s with
  | some { op := .append r _, rec? := some rs, fail } => some { id := rs.id, chunks := r, fail }
  | _ => none

def decRoundObs (s : String) : Option RoundObs :=
  match splitOnChar '!' s with
  | [acksS, callsS, snapS] =>
    match mapM? (fun t => mapM? decNat (decList ',' t)) (decList '|' acksS), decSnap snapS, decNat callsS with
    | some acks, some snap, some calls => some { acks, calls, snapS, snap }
    | _, _, _ => none
  | _ => none

/-- search for the commit order of the acknowledged non-empty records in the file: per thread the
next unplaced record must be a prefix of what remains (records start with a unique id) -/
def placeGo : Nat → List (List CRec) → Bytes → List (Nat × CRec) → Option (List (Nat × CRec))
  | 0, ths, file, acc => if ths.all List.isEmpty && file.isEmpty then some acc.reverse else none
  | fuel + 1, ths, file, acc =>
    if ths.all List.isEmpty then (if file.isEmpty then some acc.reverse else none)
    else (List.range ths.length).findSome? fun i =>
      match ths[i]? with
      | some (r :: rest) =>
        if r.bytes.isPrefixOf file then placeGo fuel (ths.set i rest) (file.drop r.bytes.length) ((i, r) :: acc) else none
      | _ => none

structure RoundPlan where
  /-- reconstructed commit order: (thread, record, fault index of the op) -/
  order : List (Nat × CRec × Option Nat)

/-- the commit order of one round, reconstructed from the observation: the record that lost the
rotation (roller `Err`) first, then the acknowledged records in file order, then the rest -/
def planRound (x : Expect) (minSize : Nat) (rd : Round) (o0 : RoundObs) : Except String RoundPlan :=
  -- `~` is both "no thread" and "one thread that acknowledged nothing": normalise
  let o : RoundObs := if o0.acks.isEmpty then { o0 with acks := List.replicate rd.threads.length [] } else o0
  let total := (rd.threads.map List.length).sum
  let rolls := Spec17.rollsNow minSize x && total > 0
  let indexed : List (Nat × List CRec) := (List.range rd.threads.length).zip rd.threads
  let isAcked := fun (i : Nat) (r : CRec) => ((o.acks[i]?).getD []).contains r.id
  -- acknowledgements are a sub-list of the thread's ids, never of a record whose encoder fails
  let acksOk := (indexed.all fun (i, t) =>
      ((t.filter (fun r => isAcked i r)).map (·.id)) == (o.acks[i]?).getD [] && t.all (fun r => !(r.fail.isSome && isAcked i r)))
  if !acksOk ∨ o.acks.length ≠ rd.threads.length then .error "acknowledgements are not a sub-sequence of each thread's records (or a failed encode was acknowledged)" else
  let victims : List (Nat × CRec) := indexed.flatMap fun (i, t) => (t.filter (fun r => r.fail.isNone && !isAcked i r)).map (fun r => (i, r))
  let encFails : List (Nat × CRec) := indexed.flatMap fun (i, t) => (t.filter (fun r => r.fail.isSome)).map (fun r => (i, r))
  let lateHit := rolls && rd.late
  -- who was first when the rotation reported Err
  let first : Except String (List (Nat × CRec)) :=
    if lateHit then
      match victims with
      | [v] => .ok [v]
      | [] => (match encFails with
               | e :: _ => .ok [e]
               | [] => .error "the roller reported Err but every record was acknowledged")
      | _ => .error "more than one record lost although only one rotation request can fail"
    else if victims.isEmpty then .ok [] else .error "a record with a working encoder was not acknowledged"
  match first with
  | .error e => .error e
  | .ok first =>
    let initial := if rolls then [] else x.active
    let active := (o.snap.get? activePath).getD []
    if !initial.isPrefixOf active then .error "the active file does not start with the expected old content" else
    let ackedNonEmpty := indexed.map fun (i, t) => t.filter (fun r => isAcked i r && !r.bytes.isEmpty)
    let n := (ackedNonEmpty.map List.length).sum
    match placeGo (n + 1) ackedNonEmpty (active.drop initial.length) [] with
    | none => .error "the active file is not the old content followed by whole acknowledged records in per-thread order"
    | some placed =>
      let empties : List (Nat × CRec) := indexed.flatMap fun (i, t) => (t.filter (fun r => isAcked i r && r.bytes.isEmpty)).map (fun r => (i, r))
      let firstIds := first.map (fun e => e.2.id)
      let restFails := encFails.filter (fun e => !firstIds.contains e.2.id)
      let all := first ++ placed ++ empties ++ restFails
      .ok { order := all.zipIdx.map fun ((i, r), k) => (i, r, if k = 0 ∧ rd.late then some Spec17.LATE else none) }

def xopOf (r : CRec) (f : Option Nat) : XOp :=
  match r.fail with
  | some n => .appendFail r.chunks n f
  | none => .op (.append r.chunks f)

/-- fold the statement over a reconstructed order; returns the final state, the number of rotation
requests and the ids the statement says are acknowledged, per thread -/
def specRound (c : Case) (minSize : Nat) (x : Expect) (nThreads : Nat) (plan : RoundPlan) : Expect × Nat × List (List Nat) :=
  plan.order.foldl (fun (acc : Expect × Nat × List (List Nat)) (e : Nat × CRec × Option Nat) =>
    let (x, calls, acks) := acc
    let (i, r, f) := e
    let (x', v) := Spec17.step c.window.2 minSize c.appendMode x (Spec17.evOf (xopOf r f))
    match v with
    | some v => (x', calls + v.calls, if v.ok then acks.set i ((acks[i]?).getD [] ++ [r.id]) else acks)
    | none => (x', calls, acks)) (x, 0, List.replicate nThreads [])

def sortedAcks (rd : Round) (acks : List (List Nat)) : List (List Nat) :=
  -- acknowledgements in the thread's own order (the order of the plan is the commit order)
  ((List.range rd.threads.length).zip rd.threads).map fun (i, t) => (t.map (·.id)).filter (fun id => ((acks[i]?).getD []).contains id)

def renderAcks (acks : List (List Nat)) : String :=
  encList "|" (acks.map (fun a => encList "," (a.map toString)))

structure ConcRun where
  spec : Option String          -- first failed clause
  model : List String           -- rendered rounds of the model
  tags : List String

/-- walk the rounds: statement (S) and model (T) over the reconstructed commit orders -/
def runRounds (c : Case) (minSize : Nat) (rounds : List Round) (obs : List RoundObs) : ConcRun :=
  let rec go (k : Nat) (x : Expect) (rds : List Round) (os : List RoundObs) (opsSoFar : List XOp) (marks : List (Nat × Round × RoundPlan))
      (spec : Option String) (tags : List String) : Option String × List XOp × List (Nat × Round × RoundPlan) × List String :=
    match rds, os with
    | [], [] => (spec, opsSoFar, marks, tags)
    | rd :: rds, o :: os =>
      let x := if k = 0 then x else (Spec17.step c.window.2 minSize c.appendMode x .restart).1
      let pre : List XOp := if k = 0 then [] else [.op .restart]
      let total := (rd.threads.map List.length).sum
      let rolls := Spec17.rollsNow minSize x && total > 0
      let tg := [if rolls then "rolls" else "no-roll"] ++ (if rolls ∧ k > 0 then ["later-round-rolls"] else []) ++
        (if rolls ∧ rd.late then ["conc-roller-late-err"] else []) ++
        (if rd.threads.any (fun t => t.any (fun r => r.fail.isSome)) then ["conc-encoder-error"] else [])
      match planRound x minSize rd o with
      | .error why =>
        -- no admissible order: the statement fails here; the model continues with the serial order
        let serial : List (Nat × CRec × Option Nat) :=
          (((List.range rd.threads.length).zip rd.threads).flatMap fun (i, t) => t.map (fun r => (i, r, (none : Option Nat))))
        let plan : RoundPlan := { order := serial }
        let (x', _, _) := specRound c minSize x rd.threads.length plan
        go (k + 1) x' rds os (opsSoFar ++ pre ++ plan.order.map (fun e => xopOf e.2.1 e.2.2)) (marks ++ [(pre.length, rd, plan)])
          (spec <|> some (why ++ " in round " ++ toString k)) (tags ++ tg)
      | .ok plan =>
        let (x', calls, acks) := specRound c minSize x rd.threads.length plan
        let why :=
          if calls ≠ o.calls then some (toString o.calls ++ " rotation request(s) in round " ++ toString k ++ ", the statement allows exactly " ++ toString calls)
          else if sortedAcks rd acks ≠ (if o.acks.isEmpty then List.replicate rd.threads.length [] else o.acks) then some ("acknowledgements differ from the statement's in round " ++ toString k)
          else if o.snapS ≠ renderExpect c x' then some ("simultaneous first appends: not exactly one rotation of the old content with every record whole after it (round " ++ toString k ++ ")")
          else none
        go (k + 1) x' rds os (opsSoFar ++ pre ++ plan.order.map (fun e => xopOf e.2.1 e.2.2)) (marks ++ [(pre.length, rd, plan)])
          (spec <|> why) (tags ++ tg)
    | _, _ => (spec <|> some "observation arity", opsSoFar, marks, tags)
  let (spec, allOps, marks, tags) := go 0 (expect0 c) rounds obs [] [] none []
  -- the model over the same orders
  let trAll := c.trace allOps
  let snap0 := match trAll.head? with | some e => renderSnap e.2.files | none => "~"
  let tr := trAll.drop 1
  let rec render (tr : List (Option Out × Log4rs.Roller.Disk)) (marks : List (Nat × Round × RoundPlan)) (last : String) (acc : List String) : List String :=
    match marks with
    | [] => acc
    | (npre, rd, plan) :: rest =>
      let tr1 := tr.drop npre
      let mine := tr1.take plan.order.length
      let calls := (mine.map (fun e => callsOf e.1)).sum
      let acks : List (List Nat) := (plan.order.zip mine).foldl (fun (a : List (List Nat)) (pe : (Nat × CRec × Option Nat) × (Option Out × Log4rs.Roller.Disk)) =>
          match pe.2.1 with
          | some o => if o.res = .ok then a.set pe.1.1 ((a[pe.1.1]?).getD [] ++ [pe.1.2.1.id]) else a
          | none => a) (List.replicate rd.threads.length [])
      let snap := match (tr.take (npre + plan.order.length)).getLast? with
        | some e => renderSnap e.2.files
        | none => last
      render (tr1.drop plan.order.length) rest snap (acc ++ [renderAcks (sortedAcks rd acks) ++ "!" ++ toString calls ++ "!" ++ snap])
  { spec, model := render tr marks snap0 [], tags }

def concAnswer (c : Case) (minSize amp : Nat) (rounds : List Round) (obs : List RoundObs) (kindTag : String) : Answer :=
  let run := runRounds c minSize rounds obs
  let nth := (rounds.head?.map (fun r => r.threads.length)).getD 0
  { model := encList "&" run.model,
    spec := match run.spec with
      | none => "ok"
      | some why => "FAIL:" ++ why ++ ";sig=" ++ c.sig "C17" ++ "-conc",
    tags := dedup (["conc", kindTag, "threads-" ++ toString nth, "amp-" ++ toString amp,
      if c.appendMode then "append" else "truncate", "trig-" ++ trigKind c.trig, "roller-" ++ rollKind c.roll,
      "rounds-" ++ toString rounds.length] ++
      (if !isDense (slots0 c) then ["gapped-window"] else []) ++ (if !c.preArch.isEmpty then ["pre-archives"] else []) ++ run.tags) }

def handleConc (cas obs : List String) : Answer :=
  match cas, obs with
  | ["conc", m, pre, arch, trig, roll, clock, ampS, thS], [implObs] =>
    match decCase m pre arch trig roll clock, decNat ampS,
          mapM? (fun t => mapM? decCRec (decList ',' t)) (decList '|' thS) with
    | some c, some amp, some threads =>
      match c.trig with
      | .startup minSize =>
        if implObs.startsWith "PANIC" then
          { model := "no-panic", spec := "FAIL:panic in a concurrent run;sig=" ++ c.sig "C17" ++ "-conc-panic", tags := ["panic"] }
        else match decRoundObs implObs with
        | some o => concAnswer c minSize amp [{ threads, late := false }] [o] "barrier-1-round"
        | none => badCase "conc observation"
      | _ => badCase "C17 needs an on-start-up trigger"
    | _, _, _ => badCase "conc case"
  | _, _ => badCase "arity"

def handleConc2 (cas obs : List String) : Answer :=
  match cas, obs with
  | ["conc2", m, pre, arch, trig, roll, clock, ampS, lateS, roundsS], [implObs] =>
    let rounds? := mapM? (fun rd => mapM? (fun t => mapM? decCRec (decList ',' t)) (decList '|' rd)) (decList ';' roundsS)
    match decCase m pre arch trig roll clock, decNat ampS, mapM? decNat (decList ',' lateS), rounds? with
    | some c, some amp, some lates, some rounds =>
      match c.trig with
      | .startup minSize =>
        if implObs.startsWith "PANIC" then
          { model := "no-panic", spec := "FAIL:panic in a concurrent run;sig=" ++ c.sig "C17" ++ "-conc-panic", tags := ["panic"] }
        else match mapM? decRoundObs (splitOnChar '&' implObs) with
        | some os =>
          let rds := rounds.zipIdx.map fun (threads, k) => ({ threads, late := lates.contains k } : Round)
          concAnswer c minSize amp rds os "rounds"
        | none => badCase "conc2 observation"
      | _ => badCase "C17 needs an on-start-up trigger"
    | _, _, _, _ => badCase "conc2 case"
  | _, _ => badCase "arity"

/-! ### one trigger object shared by several appenders (the `Once` without the appender mutex) -/

def handleOnce (cas obs : List String) : Answer :=
  match cas, obs with
  | ["once", minS, sizesS, nrecS], [implObs] =>
    match decNat minS, mapM? decNat (decList ',' sizesS), decNat nrecS with
    | some minSize, some sizes, some nrec =>
      if implObs.startsWith "PANIC" then
        { model := "no-panic", spec := "FAIL:panic;sig=C17/shared-trigger-panic", tags := ["panic"] }
      else
      let entries := (decList ',' implObs).map fun e =>
        match splitOnChar ':' e with
        | [cs, act, arch] =>
          match decNat cs, C04.decBytesBig act, (if arch = "-" then some none else (C04.decBytesBig arch).map some) with
          | some calls, some a, some ar => some (calls, a, ar)
          | _, _, _ => none
        | _ => none
      match mapM? id entries with
      | none => badCase "once observation"
      | some es =>
        if es.length ≠ sizes.length then badCase "once arity" else
        let total := (es.map (·.1)).sum
        let allBig := sizes.all (· ≥ minSize)
        let noneBig := sizes.all (· < minSize)
        let perOk := ((List.range sizes.length).zip (sizes.zip es)).all fun (i, sz, calls, act, arch) =>
          let old := preArchBytes i sz
          let recs := ((List.range nrec).map (fun s => C04.genBytes ((i + 1) * 65536 + s) 12)).flatten
          if calls = 1 then decide (sz ≥ minSize) && arch == some old && act == recs
          else calls == 0 && arch == none && act == old ++ recs
        let why :=
          if total > 1 then some (toString total ++ " rotation requests from ONE trigger object (at most one allowed)")
          else if nrec > 0 ∧ !sizes.isEmpty ∧ allBig ∧ total ≠ 1 then some "no rotation although the first call saw a file of at least min_size"
          else if noneBig ∧ total ≠ 0 then some "rotation although every file is smaller than min_size"
          else if !perOk then some "an appender's files are not (old content archived, records alone) / (old content followed by records)"
          else none
        -- which appender's call comes first is the scheduler's choice: the model (`Once17`) fixes the
        -- NUMBER of requests (`C17_once_at_most_one_yes`), so the model observation is the admitted
        -- observation itself, or the canonical "appender 0 first" outcome when it is not admitted
        let canon := encList "," (((List.range sizes.length).zip sizes).map fun (i, sz) =>
          let old := preArchBytes i sz
          let recs := ((List.range nrec).map (fun s => C04.genBytes ((i + 1) * 65536 + s) 12)).flatten
          if i = 0 ∧ sz ≥ minSize ∧ nrec > 0 then "1:" ++ hex recs ++ ":" ++ hex old else "0:" ++ hex (old ++ recs) ++ ":-")
        { model := if why.isNone then implObs else canon,
          spec := match why with | none => "ok" | some w => "FAIL:" ++ w ++ ";sig=C17/shared-trigger",
          tags := ["once", "appenders-" ++ toString sizes.length,
                   if allBig then "all-big" else if noneBig then "none-big" else "mixed-sizes",
                   "requests-" ++ toString total] ++ (if nrec = 0 then ["trivial"] else []) }
    | _, _, _ => badCase "once case"
  | _, _ => badCase "arity"

def handle : Handler := fun cas obs =>
  match cas with
  | "seq" :: _ => handleSeq cas obs
  | "conc" :: _ => handleConc cas obs
  | "conc2" :: _ => handleConc2 cas obs
  | "once" :: _ => handleOnce cas obs
  | _ => badCase "kind"

end Driver.C17
