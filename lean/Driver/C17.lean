import Driver.Common
namespace Driver.C17
open Driver

def handle : Handler := fun _ _ => badCase "unimplemented"

end Driver.C17
