import Driver.Common
import Driver.C07
import Log4rsModel.Roller.Crash
import Log4rsModel.Roller.FinalSplit
/-
C08 driver.
case   : mode(1 append|0 truncate)  pre(0|1)  pattern  base  count  file  init(path:bytes,…)
         ops(a:<bytes>:<0|1> | r | o | u ,…)  faults(n:k,…)  crash(-|n:k)
observation (one field): per op `res|boundaries|final`, ops joined by `/`; the first element is the
start-up of the appender (`rs:…`); boundaries = snapshots at the rotation's hook points joined by
`;` (`-` if none). After a crash op (`crash|…|image`) an `rs:` element for the fresh appender follows.
ops `p` … `v`: in between, the appender runs under a uid that may not modify the directory of the
log file (it owns the log file and the directory `arch/` of the archives): a REAL failure inside the
final step — `rename` refused, the copy fallback done, the source not removable.
op `x`: from here on `arch/` is on another filesystem (the final move is the copy + remove fallback).
step number 4294967294 (= the argument `u32::MAX - 1` of the hook point between the compressing copy
and the removal of the source) in `faults` / `crash`: a fault / a crash image INSIDE the compressing
final step (only patterns that compress have that point).
-/
namespace Driver.C08
open Log4rs.Proto Log4rs.Roller Log4rs Driver Driver.C07

structure Case where
  cfg : AppCfg
  init : Disk
  ops : List Op
  faults : List (Nat × Nat)
  crash : Option (Nat × Nat)
  /-- executed by the harness built with `background_rotation` -/
  bg : Bool := false
  /-- family `bg-stream`: the real `SizeTrigger` with this limit decides instead of the script -/
  size : Option Nat := none

def decOp (s : String) : Option Op :=
  match splitOnChar ':' s with
  | ["r"] => some .restart
  | ["o"] => some .obstacle
  | ["u"] => some .unobstacle
  | ["q"] => some .quiesce
  | ["p"] => some .protect
  | ["v"] => some .unprotect
  | ["x"] => some .crossMount
  | ["a", b, t] => match decBytes b, decBool t with
    | some b, some t => some (.append b t)
    | _, _ => none
  | _ => none

def decCase : List String → Option Case
  | [mode, pre, pat, b, c, file, init, ops, faults, crash] => do
    let mode ← decBool mode
    let size : Option Nat := if pre.startsWith "s" then (pre.drop 1).toNat? else none
    let pre ← (if size.isSome then some false else decBool pre)
    let pattern ← decStr pat
    let base ← decNat b
    let count ← decNat c
    let file ← decStr file
    let init ← decSnap init
    let ops ← mapM? decOp (decList ',' ops)
    let faults ← mapM? (decPair decNat decNat) (decList ',' faults)
    let crash ← decOpt (decPair decNat decNat) crash
    if !hasHole pattern || count = 0 then none else
    -- protection needs the archives in a directory of their own, and a crash image cannot be written
    -- by a process that may not modify anything else
    if (ops.contains .protect || ops.contains .crossMount) && (crash.isSome || !("arch/".toList.isPrefixOf pattern)) then none else
    pure { cfg := { mode := if mode then .append else .truncate, pre, file,
                    roller := mkRoller id id pattern base count },
           init, ops, faults, crash, size }
  | _ => none

def obstaclePath (r : RollerCfg) : Path :=
  r.nameOf (r.base + r.count - 1) ++ "/obstacle".toList

def nSteps (r : RollerCfg) : Nat := r.count

/-- the hook point inside the compressing final step, named by the hook's argument `u32::MAX - 1` -/
def midPt : Nat := 4294967294

/-- the model flag of `move_file`'s copy fallback (Roller/FinalSplit.lean) -/
def finalCfg : FinalCfg := {}

def hasMid (r : RollerCfg) : Bool := r.comp ≠ .none

/-- the fault oracle of the n-th rotation attempt, started on disk `d` -/
def faultOf (c : Case) (n : Nat) (d : Disk) : Nat → Bool := fun k =>
  c.faults.contains (n, k) ||
    (k = 0 && d.has (obstaclePath c.cfg.roller) &&
      (c.cfg.roller.count = 1 || (slot c.cfg.roller d (c.cfg.roller.base + c.cfg.roller.count - 2)).isSome))

/-- index of the first failing step, if any -/
def firstFault (fault : Nat → Bool) (n : Nat) : Option Nat := (List.range n).find? fault

def renderRes : AppRes → String
  | .ok => "ok"
  | .err => "err"
  | .panic => "PANIC"

def encBoundaries (bs : List Disk) : String :=
  if bs.isEmpty then "-" else ";".intercalate (bs.map encSnap)

structure MState where
  app : AppState
  attempts : Nat
  prot : Bool := false

def startObs (st : AppState) : String := "rs:ok|-|" ++ encSnap st.disk

/-- the model's run -/
def runModel (c : Case) : MState → List Op → List String
  | _, [] => []
  | m, op :: rest =>
    let cfg := c.cfg
    let r := cfg.roller
    match op with
    | .restart =>
      let st := restartOp cfg m.app.disk
      startObs st :: runModel c { m with app := st } rest
    | .obstacle =>
      let top := r.nameOf (r.base + r.count - 1)
      if m.app.disk.has top || m.app.disk.has (obstaclePath r) then
        ("o:skip|-|" ++ encSnap m.app.disk) :: runModel c m rest
      else
        let d := m.app.disk.set (obstaclePath r) [120]
        ("o:placed|-|" ++ encSnap d) :: runModel c { m with app := { m.app with disk := d } } rest
    | .quiesce => ("q|-|" ++ encSnap m.app.disk) :: runModel c m rest
    | .protect =>
      -- the scene includes the log file itself (created empty when it is not there: a process that
      -- may not modify the directory could not create it)
      let d := reopen false cfg.file m.app.disk
      ("p|-|" ++ encSnap d) :: runModel c { m with app := { m.app with disk := d }, prot := true } rest
    | .unprotect => ("v|-|" ++ encSnap m.app.disk) :: runModel c { m with prot := false } rest
    | .crossMount => ("x|-|" ++ encSnap m.app.disk) :: runModel c m rest
    | .unobstacle =>
      let d := m.app.disk.erase (obstaclePath r)
      ("u|-|" ++ encSnap d) :: runModel c { m with app := { m.app with disk := d } } rest
    | .append rec answer =>
      if !answer then
        let (res, st) := appendOp cfg (fun _ => false) false rec m.app
        (renderRes res ++ "|-|" ++ encSnap st.disk) :: runModel c { m with app := st } rest
      else
        let n := m.attempts
        let start := rotationStart cfg rec m.app
        let fault := faultOf c n start.disk
        let ff := firstFault fault (nSteps r)
        let allBs := (List.range (nSteps r)).map (fun j => crashAfter r cfg.file j start.disk)
        let crashK : Option Nat := match c.crash with
          | some (cn, k) => if cn = n && (match ff with | some f => k ≤ f | none => k ≤ nSteps r) then some k else none
          | none => none
        let crashMid : Bool := ff.isNone && hasMid r && c.crash = some (n, midPt)
        if crashMid then
          -- the process dies between the compressing copy and the removal of the source
          let image := midFinal r cfg.file start.disk
          let st := restartOp cfg image
          ("crash|" ++ encBoundaries allBs ++ "|" ++ encSnap image) :: startObs st ::
            runModel c { m with app := st, attempts := n + 1 } rest
        else
        match crashK with
        | some k =>
          let nb := if k < nSteps r then k + 1 else nSteps r
          let bs := (List.range nb).map (fun j => crashAfter r cfg.file j start.disk)
          let image := crashAfter r cfg.file k start.disk
          let st := restartOp cfg image
          ("crash|" ++ encBoundaries bs ++ "|" ++ encSnap image) :: startObs st ::
            runModel c { m with app := st, attempts := n + 1 } rest
        | none =>
          if ff.isNone && (m.prot || (hasMid r && c.faults.contains (n, midPt))) then
            -- every shift succeeds; the final step writes slot `base` and then cannot remove the
            -- log file (protected directory), or is told to fail at that point (hook)
            let (res, st) := appendOpPartial finalCfg cfg rec m.app
            (renderRes res ++ "|" ++ encBoundaries allBs ++ "|" ++ encSnap st.disk) ::
              runModel c { m with app := st, attempts := n + 1 } rest
          else
          let nb := match ff with
            | some f => f + 1
            | none => nSteps r
          let bs := (List.range nb).map (fun j => crashAfter r cfg.file j start.disk)
          let (res, st) := appendOp cfg fault true rec m.app
          (renderRes res ++ "|" ++ encBoundaries bs ++ "|" ++ encSnap st.disk) ::
            runModel c { m with app := st, attempts := n + 1 } rest

/-! ### background rotation -/

/-- `Path::with_extension("")` of the active path: the temp names are `<stem>.<unix seconds>`,
shown as `<stem>.@<rank>` -/
def stemOf (file : Path) : Path :=
  match extensionOf file with
  | some e => file.take (file.length - (e.length + 1))
  | none => file

def tempPrefix (file : Path) : Path := stemOf file ++ ".@".toList

/-- internal name of the temp file of the rotation being modelled -/
def tmpPath (file : Path) : Path := file ++ ['\x01']

structure BgM where
  app : AppState
  attempts : Nat
  /-- contents left under temp names by failed or interrupted rotation threads, oldest first -/
  stranded : List Bytes

def bytesLt : Bytes → Bytes → Bool
  | [], [] => false
  | [], _ :: _ => true
  | _ :: _, [] => false
  | a :: as, b :: bs => if a < b then true else if b < a then false else bytesLt as bs

def insertBytes (x : Bytes) : List Bytes → List Bytes
  | [] => [x]
  | y :: ys => if bytesLt x y then x :: y :: ys else y :: insertBytes x ys

/-- the temp names carry numbers that do not reflect the age of the files (a freed number is reused
within the same second): they are shown ranked by content -/
def encSnapBg (file : Path) (d : Disk) (stranded : List Bytes) : String :=
  let stranded := stranded.foldl (fun acc x => insertBytes x acc) []
  let temps := (List.range stranded.length).zip stranded |>.map
    (fun (i, y) => (tempPrefix file ++ (toString i).toList, y))
  encSnap ⟨d.files ++ temps⟩

/-- pull a left-over temp file out of the disk into the stranded list -/
def settle (file : Path) (d : Disk) (stranded : List Bytes) : Disk × List Bytes :=
  match d.get? (tmpPath file) with
  | some y => (d.erase (tmpPath file), stranded ++ [y])
  | none => (d, stranded)

/-- the model's run under `background_rotation`: phase 1 renames the file to the temp name and
`roll` returns Ok; phase 2 is the foreground rotation from the temp name (it commutes with the
appends that follow, so it is applied at once); a failure of phase 2 is not reported to anybody and
leaves the temp file behind -/
def runModelBg (c : Case) : BgM → List Op → List String
  | _, [] => []
  | m, op :: rest =>
    let cfg := c.cfg
    let r := cfg.roller
    let tmp := tmpPath cfg.file
    match op with
    | .restart =>
      let st := restartOp cfg m.app.disk
      ("rs:ok|-|" ++ encSnapBg cfg.file st.disk m.stranded) :: runModelBg c { m with app := st } rest
    | .quiesce => ("q|-|" ++ encSnapBg cfg.file m.app.disk m.stranded) :: runModelBg c m rest
    | .protect | .unprotect | .crossMount => runModelBg c m rest
    | .obstacle =>
      let top := r.nameOf (r.base + r.count - 1)
      if m.app.disk.has top || m.app.disk.has (obstaclePath r) then
        ("o:skip|-|" ++ encSnapBg cfg.file m.app.disk m.stranded) :: runModelBg c m rest
      else
        let d := m.app.disk.set (obstaclePath r) [120]
        ("o:placed|-|" ++ encSnapBg cfg.file d m.stranded) :: runModelBg c { m with app := { m.app with disk := d } } rest
    | .unobstacle =>
      let d := m.app.disk.erase (obstaclePath r)
      ("u|-|" ++ encSnapBg cfg.file d m.stranded) :: runModelBg c { m with app := { m.app with disk := d } } rest
    | .append rec answer =>
      -- `SizeTrigger` (post-process): `len_estimate() > limit` after the record is written; the
      -- estimate is the size of the file (it is re-read from the metadata at every reopen)
      let answer := match c.size with
        | some l => decide ((((rotationStart cfg rec m.app).disk.get? cfg.file).getD []).length > l)
        | none => answer
      if !answer then
        let (res, st) := appendOp cfg (fun _ => false) false rec m.app
        (renderRes res ++ "|-|-") :: runModelBg c { m with app := st } rest
      else
        let n := m.attempts
        let start := rotationStart cfg rec m.app
        let d1 := moveFile cfg.file tmp start.disk
        -- the real obstacle (non-empty directory at the top archive name) makes the first step fail
        -- inside the rotation thread: the error is only printed, the temp file stays
        let fault : Nat → Bool := faultOf c n d1
        let ff := firstFault fault (nSteps r)
        let crashK : Option Nat := match c.crash with
          | some (cn, k) => if cn = n && k < nSteps r && (match ff with | some f => k ≤ f | none => true) then some k else none
          | none => none
        match crashK with
        | some k =>
          let (image, str) := settle cfg.file (crashAfter r tmp k d1) m.stranded
          let st := restartOp cfg image
          ("crash|-|" ++ encSnapBg cfg.file image str) :: ("rs:ok|-|" ++ encSnapBg cfg.file st.disk str) ::
            runModelBg c { app := st, attempts := n + 1, stranded := str } rest
        | none =>
          let (d2, str) := settle cfg.file (phase2Disk r tmp fault d1) m.stranded
          let st1 : AppState := { start with disk := d2, writerOpen := false }
          let st2 := if cfg.pre then writeRec cfg rec (getWriter cfg st1) else st1
          "ok|-|-" :: runModelBg c { app := st2, attempts := n + 1, stranded := str } rest

def decOpObs (s : String) : Option OpObs :=
  match splitOnChar '|' s with
  | [res, bs, fin] =>
    let bs? := if bs = "-" then some [] else mapM? decSnap (splitOnChar ';' bs)
    match bs?, (if fin = "-" then some Disk.empty else decSnap fin) with
    | some bs, some fin => some { res, boundaries := bs, final := fin }
    | _, _ => none
  | _ => none

/-- pair the observed elements with the ops (a crash element is followed by an implicit restart) -/
def pairOps : List Op → List OpObs → Option (List (Op × OpObs))
  | [], [] => some []
  | op :: ops, o :: os =>
    if o.res = "crash" then
      match os with
      | o2 :: os' => (pairOps ops os').map (fun t => (op, o) :: (Op.restart, o2) :: t)
      | [] => none
    else (pairOps ops os).map (fun t => (op, o) :: t)
  | _, _ => none

def tagsOf (c : Case) (model : List String) : List String :=
  let nAttempts := (c.ops.filter (fun o => match o with | .append _ true => true | _ => false)).length
  [if c.cfg.mode = .append then "append-mode" else "truncate-mode",
   if c.cfg.pre then "pre" else "post",
   "c" ++ toString c.cfg.roller.count] ++
  (if c.faults.isEmpty then [] else ["fault"]) ++
  (if c.faults.any (fun f => f.2 + 1 < c.cfg.roller.count) then ["fault-in-shift"] else []) ++
  (if c.faults.any (fun f => f.2 + 1 = c.cfg.roller.count) then ["fault-in-final"] else []) ++
  (if model.any (fun s => s.startsWith "crash|") then ["crash"] else []) ++
  (if c.ops.contains .obstacle then ["obstacle"] else []) ++
  (if c.ops.contains .restart then ["restart"] else []) ++
  (if model.any (fun s => s.startsWith "err|") then ["err"] else []) ++
  (if c.cfg.roller.comp = .gzip then ["gz"] else []) ++
  (if c.cfg.roller.comp = .zstd then ["zst"] else []) ++
  (if c.ops.contains .protect then ["protected"] else []) ++
  (if c.ops.contains .crossMount then ["cross-mount"] else []) ++
  (if c.faults.any (fun f => f.2 = midPt) && hasMid c.cfg.roller then ["fault-inside-compress"] else []) ++
  (if (c.crash.map (·.2)) = some midPt && hasMid c.cfg.roller then ["crash-inside-compress"] else []) ++
  (if c.cfg.roller.count > 4 then ["window-above-4"] else []) ++
  (if c.ops.any (fun o => match o with | .append b _ => b.length > 1000 | _ => false) then ["long-record"] else []) ++
  (if c.cfg.mode = .truncate && model.any (fun s => s.startsWith "err|") then ["truncate-after-failed-roll"] else []) ++
  (if nAttempts = 0 then ["trivial"] else [])

def handleBg (c : Case) (implObs : String) : Answer :=
  let st0 := restartOp c.cfg c.init
  let modelL := ("rs:ok|-|" ++ encSnapBg c.cfg.file st0.disk []) ::
    runModelBg c { app := st0, attempts := 0, stranded := [] } c.ops
  let model := encList "/" modelL
  let tags := "bg" :: (if !c.faults.isEmpty || c.crash.isSome || c.ops.contains .obstacle then ["bg-fault-or-crash"] else []) ++
    (if c.size.isSome then ["bg-stream"] else []) ++ tagsOf c modelL
  match mapM? decOpObs (decList '/' implObs) with
  | none => { model, spec := "FAIL:unreadable observation;sig=C08/observation", tags }
  | some os =>
    match pairOps (Op.restart :: c.ops) os with
    | none => { model, spec := "FAIL:observation length;sig=C08/observation", tags }
    | some pairs =>
      let spec := match checkBgHistory c.cfg (tempPrefix c.cfg.file) c.size { written := [], closed := [], active := [] } pairs with
        | none => "ok"
        | some (clause, sig) => "FAIL:" ++ clause ++ ";sig=" ++ sig
      { model, spec, tags }

def decCaseBg (fields : List String) : Option Case :=
  match fields with
  | [a, b, c, d, e, f, g, h, i, j, "@bg"] =>
    match decCase [a, b, c, d, e, f, g, h, i, j] with
    | some cs => if cs.ops.contains .protect || cs.ops.contains .unprotect || cs.ops.contains .crossMount then none else some { cs with bg := true }
    | none => none
  | _ => decCase fields

def handle : Handler := fun cas obs =>
  match decCaseBg cas, obs with
  | some c, [implObs] =>
    -- the scene of a `p` (protected directory, needs root and a scratch directory uid 65534 can reach) or
    -- `x` (second mount) op could not be set up in this environment: the case says nothing about the crate
    if (implObs.splitOn ":unavailable").length > 1 then
      { model := implObs, spec := "ok", tags := ["scene-unavailable", "trivial"] }
    else
    if c.bg then handleBg c implObs else
    let st0 := restartOp c.cfg c.init
    let modelL := startObs st0 :: runModel c { app := st0, attempts := 0 } c.ops
    let model := encList "/" modelL
    let tags := tagsOf c modelL
    match mapM? decOpObs (decList '/' implObs) with
    | none => { model, spec := "FAIL:unreadable observation;sig=C08/observation", tags }
    | some os =>
      match pairOps (Op.restart :: c.ops) os with
      | none => { model, spec := "FAIL:observation length;sig=C08/observation", tags }
      | some pairs =>
        let ctx : SpecCtx := {
          cfg := c.cfg,
          injected := fun n => c.faults.any (fun f => f.1 = n &&
            (f.2 < nSteps c.cfg.roller || (f.2 = midPt && hasMid c.cfg.roller))),
          obstaclePath := obstaclePath c.cfg.roller,
          crashMid := fun n => hasMid c.cfg.roller && c.crash = some (n, midPt) }
        -- the appender is built on the initial tree: the first element is that start-up
        let spec := match checkHistory ctx { prev := c.init, attempts := 0, afterFailedRoll := false } pairs with
          | none => "ok"
          | some (clause, sig) => "FAIL:" ++ clause ++ ";sig=" ++ sig
        { model, spec, tags }
  | none, _ => badCase "case"
  | _, _ => badCase "arity"

end Driver.C08
