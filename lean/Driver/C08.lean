import Driver.Common
namespace Driver.C08
open Driver

def handle : Handler := fun _ _ => badCase "unimplemented"

end Driver.C08
