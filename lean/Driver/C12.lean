import Driver.Common
import Log4rsModel.Json.Spec
/-
C12 driver.
  case : level(1..5)  message  target  module_path?  file?  line?  thread-name?  mdc
         (mdc = insertion sequence `k;v,k;v,…`, later insertions of a key overwrite)
  obs  : `time=<str> tid=<nat> order=<keys in log_mdc::iter order> indep=ok line=<str>`
         (one blank-separated field; `time`, `tid`, `order` are environment facts the harness
          observed and hands back so that the model is fed the same)
-/
namespace Driver.C12
open Log4rs.Proto Log4rs.Json Driver

def decPair (s : String) : Option (List Char × List Char) :=
  match splitOnChar ';' s with
  | [k, v] => match decStr k, decStr v with
    | some k, some v => some (k, v)
    | _, _ => none
  | _ => none

/-- `HashMap::insert` semantics over the insertion sequence: one entry per key, last value wins -/
def mdcMap (ins : List (List Char × List Char)) : List (List Char × List Char) :=
  ins.foldl (fun acc kv => if acc.any (·.1 == kv.1) then acc.map (fun e => if e.1 == kv.1 then kv else e) else acc ++ [kv]) []

def kvOf (obs : String) : List (String × String) :=
  (splitOnChar ' ' obs).filterMap fun f =>
    match splitOnChar '=' f with
    | [k, v] => some (k, v)
    | _ => none

def needsEscape (c : Char) : Bool := c = '"' || c = '\\' || c.toNat < 0x20

def strTags (s : List Char) : List String :=
  (if s.any (· = '"') then ["quote"] else [])
  ++ (if s.any (· = '\\') then ["backslash"] else [])
  ++ (if s.any (fun c => c = '\n' || c = '\r') then ["newline"] else [])
  ++ (if s.any (fun c => c = '\x08' || c = '\x0c' || c = '\t') then ["ctl-short"] else [])
  ++ (if s.any (fun c => c.toNat < 0x20 && !(c = '\n' || c = '\r' || c = '\x08' || c = '\x0c' || c = '\t')) then ["ctl-u00"] else [])
  ++ (if s.any (· = '\x7f') then ["del"] else [])
  ++ (if s.any (fun c => c.toNat = 0x2028 || c.toNat = 0x2029) then ["ls-ps"] else [])
  ++ (if s.any (fun c => 0x80 ≤ c.toNat && c.toNat < 0x10000) then ["bmp-nonascii"] else [])
  ++ (if s.any (fun c => 0x10000 ≤ c.toNat) then ["astral"] else [])

def dedup (xs : List String) : List String := xs.foldl (fun acc x => if acc.contains x then acc else acc ++ [x]) []

def tagsOf (thread : Option (List Char)) (r : Record) (mdc : List (List Char × List Char)) : List String :=
  let strs : List (String × List Char) :=
    [("msg", r.message), ("target", r.target)]
    ++ (match r.modulePath with | some s => [("module", s)] | none => [])
    ++ (match r.file with | some s => [("file", s)] | none => [])
    ++ (match thread with | some s => [("thread", s)] | none => [])
    ++ mdc.map (fun kv => ("mdckey", kv.1)) ++ mdc.map (fun kv => ("mdcval", kv.2))
  let special := dedup (strs.flatMap fun p => strTags p.2)
  let where_ := dedup (strs.filterMap fun p => if (strTags p.2).isEmpty then none else some ("special-in-" ++ p.1))
  let shape :=
    [ "level-" ++ String.ofList r.level.name,
      "opt-" ++ (if r.modulePath.isSome then "M" else "m") ++ (if r.file.isSome then "F" else "f")
        ++ (if r.line.isSome then "L" else "l"),
      (if thread.isSome then "thread-named" else "thread-null"),
      (if mdc.isEmpty then "mdc-0" else if mdc.length = 1 then "mdc-1" else "mdc-many") ]
    ++ (if strs.any (fun p => p.2.isEmpty) then ["empty-string"] else [])
  let trivial := special.isEmpty && mdc.isEmpty
  shape ++ special ++ where_ ++ (if trivial then ["trivial"] else [])

def handle : Handler := fun cas obs =>
  match cas with
  | [lv, msg, target, mp, file, line, thread, mdc] =>
    match (decNat lv).bind Level.ofNat?, decStr msg, decStr target, decOpt decStr mp, decOpt decStr file,
          decOpt decNat line, decOpt decStr thread, mapM? decPair (decList ',' mdc) with
    | some level, some message, some target, some modulePath, some file, some line, some thread, some ins =>
      let r : Record := { level, message, modulePath, file, line, target }
      let map := mdcMap ins
      let tags := tagsOf thread r map
      let obsStr := " ".intercalate obs
      let kv := kvOf obsStr
      match kv.lookup "time", (kv.lookup "tid").bind decNat, kv.lookup "order", kv.lookup "line" with
      | some timeS, some tid, some orderS, some lineS =>
        match decStr timeS, mapM? decStr (decList ',' orderS), decStr lineS with
        | some time, some order, some implLine =>
          -- the observed iteration order must be a permutation of the map's keys
          let isPerm := order.length = map.length && noDupKeys order && order.all (fun k => map.any (·.1 == k))
          let mdcEnv := order.filterMap fun k => (map.lookup k).map (k, ·)
          let env : Env := { time, thread, threadId := tid, mdc := mdcEnv }
          let model := "time=" ++ timeS ++ " tid=" ++ toString tid ++ " order="
            ++ (if isPerm then orderS else "NOT-A-PERMUTATION-OF-THE-MDC-KEYS") ++ " indep=ok line="
            ++ encStr (jsonLine env r)
          let spec :=
            if !isPerm then "FAIL:mdc keys iterated are not the keys inserted;sig=C12/mdc-keys"
            else match specLine env r implLine with
              | .ok => "ok"
              | .fail clause => "FAIL:" ++ clause ++ ";sig=C12/" ++ clause
          { model, spec, tags }
        | _, _, _ => badCase "observation"
      | _, _, _, _ =>
        -- PANIC / ERR / non-UTF-8 output: there is no line to read back
        let env : Env := { time := [], thread, threadId := 0, mdc := map }
        { model := "time=_ tid=0 order=" ++ encList "," (map.map fun kv => encStr kv.1) ++ " indep=ok line="
            ++ encStr (jsonLine env r),
          spec := "FAIL:no line emitted (" ++ obsStr.take 40 ++ ");sig=C12/no-line", tags }
    | _, _, _, _, _, _, _, _ => badCase "fields"
  | _ => badCase "arity"

end Driver.C12
