import Driver.Common
namespace Driver.C12
open Driver

def handle : Handler := fun _ _ => badCase "unimplemented"

end Driver.C12
