import Driver.Common
import Log4rsModel.Json.Spec
/-
C12 driver.
  case : level(1..5)  message  target  module_path?  file?  line?  thread-name?  mdc
         (mdc = insertion sequence `k;v,k;v,…`, later insertions of a key overwrite)
  obs  : `time=<str> tid=<nat> order=<keys in log_mdc::iter order> indep=ok line=<str>`
         (one blank-separated field; `time`, `tid`, `order` are environment facts the harness
          observed and hands back so that the model is fed the same)

  message: `<str>` (one `{}` argument) | `args:p1,…` (0–4 `{}` arguments) | `lit:a` (literal frame around one
         argument) | `const:~` (literal only) | `chars:s` (one `write_str` per character) | `pad:a,b` (`{:>6}|{:<4}|`)
         — the model is given the pieces the `Display` hands over.
  The MDC order fed to the model is the order of the entries in the implementation's own line when that
  line can be read and its keys are the thread's keys (so an implementation that iterated the map in any
  other order agrees with the model); `order=` (what `log_mdc::iter` yielded) is used otherwise.

Several threads, one encoder:
  case : `multi`  main|succ|conc  entry|entry|…   entry = thread?;level;message;target;module_path?;file?;line?;mdc
  obs  : `multi` then per entry `tid;time;order;kind;indep;payload`

History cases (several encodes on ONE thread with ONE encoder):
  case : `seq`  thread-name?  step|step|…
         step = level;message;target;module_path?;file?;line?;mdc;writer;display
         mdc  = `~` or `k:v,k:v…` (the MDC is cleared and refilled before the step)
         writer  = `ok` | `a<k>` | `m<j>` | `d<j>` | `e<j>` (fail after k bytes: absolute, j bytes into
                   the message text, j bytes into the MDC object, j bytes before the end of the line)
         display = `-` | n (the message's `Display` writes n characters, then returns `fmt::Error`)
  obs  : `seq:<tid>` then per step one blank-separated field
         `time;k;order;kind;indep;iso;payload` — `k` the resolved byte limit (`-` if none), `kind`
         ok|err|panic, `iso` whether the line equals (as JSON, time and thread_id dropped) what a fresh
         thread and encoder produce for the same record, payload `t<chars>` (ok) or `b<hex bytes>`.
-/
namespace Driver.C12
open Log4rs.Proto Log4rs.Json Driver

def decPair (s : String) : Option (List Char × List Char) :=
  match splitOnChar ';' s with
  | [k, v] => match decStr k, decStr v with
    | some k, some v => some (k, v)
    | _, _ => none
  | _ => none

/-- `HashMap::insert` semantics over the insertion sequence: one entry per key, last value wins -/
def mdcMap (ins : List (List Char × List Char)) : List (List Char × List Char) :=
  ins.foldl (fun acc kv => if acc.any (·.1 == kv.1) then acc.map (fun e => if e.1 == kv.1 then kv else e) else acc ++ [kv]) []

/-! ### message shapes -/

def litHead : List Char := "request body: ".toList
def litTail : List Char := " (end)".toList
def constText : List Char := "static \"literal\" \\ message\n".toList

def fill (w : Nat) (s : List Char) : List (List Char) := List.replicate (w - s.length) [' ']

/-- shape tag and the `write_str` pieces of a message field -/
def decMessage (s : String) : Option (String × List (List Char)) :=
  match splitOnChar ':' s with
  | [one] => (decStr one).map fun t => ("plain", [t])
  | [tag, rest] =>
    match mapM? decStr (decList ',' rest) with
    | none => none
    | some parts =>
      match tag, parts with
      | "args", ps => if ps.length ≤ 4 then some ("args", ps) else none
      | "lit", [a] => some ("lit", [litHead, a, litTail])
      | "const", [] => some ("const", [constText])
      | "chars", [t] => some ("chars", t.map fun c => [c])
      | "pad", [a, b] => some ("pad", fill 6 a ++ [a, ['|'], b] ++ fill 4 b ++ [['|']])
      | _, _ => none
  | _ => none

def utf8Len (s : List Char) : Nat := (Log4rs.utf8 s).length

def shapeTags (shape : String) (pieces : List (List Char)) : List String :=
  let n := pieces.length
  let rec longAfterShort : Bool → List (List Char) → Bool
    | _, [] => false
    | seen, p :: ps => (seen && utf8Len p ≥ 128) || longAfterShort (seen || (!p.isEmpty && utf8Len p < 128)) ps
  [ if n = 0 then "pieces-0" else if n = 1 then "pieces-1" else if n = 2 then "pieces-2" else "pieces-many" ]
  ++ (match shape with
      | "lit" => ["literal-pieces"] | "const" => ["const-literal"] | "chars" => ["char-by-char"]
      | "pad" => ["padded"] | "args" => ["several-arguments"] | _ => [])
  ++ (if longAfterShort false pieces then ["long-piece-after-short"] else [])

/-- the order of the MDC entries in the implementation's own line, when it can be read and its keys
    are exactly the map's keys; the harness' `log_mdc::iter` order otherwise -/
def lineOrder (map : List (List Char × List Char)) (harnessOrder : List (List Char))
    (implLine : Option (List Char)) : List (List Char) :=
  match implLine.bind readLineMembers with
  | some ms =>
    match ms.lookup kMdc with
    | some (.map es) =>
      let ks := es.map (·.1)
      if ks.length = map.length && noDupKeys ks && ks.all (fun k => map.any (·.1 == k)) then ks else harnessOrder
    | _ => harnessOrder
  | none => harnessOrder

def kvOf (obs : String) : List (String × String) :=
  (splitOnChar ' ' obs).filterMap fun f =>
    match splitOnChar '=' f with
    | [k, v] => some (k, v)
    | _ => none

def needsEscape (c : Char) : Bool := c = '"' || c = '\\' || c.toNat < 0x20

def strTags (s : List Char) : List String :=
  (if s.any (· = '"') then ["quote"] else [])
  ++ (if s.any (· = '\\') then ["backslash"] else [])
  ++ (if s.any (fun c => c = '\n' || c = '\r') then ["newline"] else [])
  ++ (if s.any (fun c => c = '\x08' || c = '\x0c' || c = '\t') then ["ctl-short"] else [])
  ++ (if s.any (fun c => c.toNat < 0x20 && !(c = '\n' || c = '\r' || c = '\x08' || c = '\x0c' || c = '\t')) then ["ctl-u00"] else [])
  ++ (if s.any (· = '\x7f') then ["del"] else [])
  ++ (if s.any (fun c => c.toNat = 0x2028 || c.toNat = 0x2029) then ["ls-ps"] else [])
  ++ (if s.any (fun c => 0x80 ≤ c.toNat && c.toNat < 0x10000) then ["bmp-nonascii"] else [])
  ++ (if s.any (fun c => 0x10000 ≤ c.toNat) then ["astral"] else [])

def dedup (xs : List String) : List String := xs.foldl (fun acc x => if acc.contains x then acc else acc ++ [x]) []

def tagsOf (thread : Option (List Char)) (r : Record) (mdc : List (List Char × List Char)) : List String :=
  let strs : List (String × List Char) :=
    [("msg", r.message), ("target", r.target)]
    ++ (match r.modulePath with | some s => [("module", s)] | none => [])
    ++ (match r.file with | some s => [("file", s)] | none => [])
    ++ (match thread with | some s => [("thread", s)] | none => [])
    ++ mdc.map (fun kv => ("mdckey", kv.1)) ++ mdc.map (fun kv => ("mdcval", kv.2))
  let special := dedup (strs.flatMap fun p => strTags p.2)
  let where_ := dedup (strs.filterMap fun p => if (strTags p.2).isEmpty then none else some ("special-in-" ++ p.1))
  let shape :=
    [ "level-" ++ String.ofList r.level.name,
      "opt-" ++ (if r.modulePath.isSome then "M" else "m") ++ (if r.file.isSome then "F" else "f")
        ++ (if r.line.isSome then "L" else "l"),
      (if thread.isSome then "thread-named" else "thread-null"),
      (if mdc.isEmpty then "mdc-0" else if mdc.length = 1 then "mdc-1" else "mdc-many") ]
    ++ (if strs.any (fun p => p.2.isEmpty) then ["empty-string"] else [])
  let trivial := special.isEmpty && mdc.isEmpty
  let long := dedup (strs.filterMap fun p => if p.2.length ≥ 200 then some ("long-" ++ p.1) else none)
  shape ++ special ++ where_ ++ long ++ (if trivial then ["trivial"] else [])

/-! ### histories -/

structure StepCase where
  shape : String
  record : Record
  ins : List (List Char × List Char)
  writerTag : String
  display : Option Nat

def decPairColon (s : String) : Option (List Char × List Char) :=
  match splitOnChar ':' s with
  | [k, v] => match decStr k, decStr v with
    | some k, some v => some (k, v)
    | _, _ => none
  | _ => none

def writerTagOk (w : String) : Bool :=
  w = "ok" || (match w.toList with
    | c :: ds => (c = 'a' || c = 'm' || c = 'd' || c = 'e') && !ds.isEmpty && ds.all Char.isDigit
    | [] => false)

def decStep (s : String) : Option StepCase :=
  match splitOnChar ';' s with
  | [lv, msg, target, mp, file, line, mdc, w, disp] =>
    match (decNat lv).bind Level.ofNat?, decMessage msg, decStr target, decOpt decStr mp, decOpt decStr file,
          decOpt decNat line, mapM? decPairColon (decList ',' mdc), decOpt decNat disp with
    | some level, some (shape, pieces), some target, some modulePath, some file, some line, some ins, some display =>
      if writerTagOk w then
        some { shape, record := { level, pieces, modulePath, file, line, target }, ins, writerTag := w, display }
      else none
    | _, _, _, _, _, _, _, _ => none
  | _ => none

structure StepObs where
  timeS : String
  time : List Char
  k : Option Nat
  orderS : String
  order : List (List Char)
  kind : String
  indep : String
  iso : String
  text : Option (List Char)
  bytes : Option (List Nat)

def decStepObs (s : String) : Option StepObs :=
  match splitOnChar ';' s with
  | [timeS, kS, orderS, kind, indep, iso, payload] =>
    match decStr timeS, decOpt decNat kS, mapM? decStr (decList ',' orderS) with
    | some time, some k, some order =>
      match payload.toList with
      | 't' :: rest => (decStr (String.ofList rest)).map fun t =>
          { timeS, time, k, orderS, order, kind, indep, iso, text := some t, bytes := none }
      | 'b' :: rest => (decBytes (String.ofList rest)).map fun b =>
          { timeS, time, k, orderS, order, kind, indep, iso, text := none, bytes := some b }
      | _ => none
    | _, _, _ => none
  | _ => none

structure StepAnswer where
  model : String
  okStep : Bool
  /-- `none` = the step satisfies the specification -/
  fail : Option (String × String)
  tags : List String

def seqStep (thread : Option (List Char)) (tid : Nat) (idx : Nat) (c : StepCase) (o : StepObs) : StepAnswer :=
  let map := mdcMap c.ins
  let isPerm := o.order.length = map.length && noDupKeys o.order && o.order.all (fun k => map.any (·.1 == k))
  let order := lineOrder map o.order (if o.kind = "ok" then o.text else none)
  let mdcEnv := order.filterMap fun k => (map.lookup k).map (k, ·)
  let env : Env := { time := o.time, thread, threadId := tid, mdc := mdcEnv }
  let writer : WriterBehaviour := match o.k with | some k => .failAfter k | none => .acceptAll
  let step : Step := { env, record := c.record, writer, displayFails := c.display }
  let res := (encodeStep {} step).2
  let kindS := match res.kind with
    | .ok => "ok"
    | .ioErr => "err"
    | .displayFailed => if o.kind = "err" || o.kind = "panic" then o.kind else "err-or-panic"
  let okStep := res.kind = .ok
  let model := o.timeS ++ ";" ++ encOpt toString o.k ++ ";" ++ (if isPerm then o.orderS else "NOT-A-PERMUTATION")
    ++ ";" ++ kindS ++ ";" ++ (if okStep then "ok" else "-") ++ ";" ++ (if okStep then "same" else "-") ++ ";"
    ++ (if okStep then "t" ++ encStr (jsonLine env c.record) else "b" ++ encBytes res.received)
  let pre := "step" ++ toString idx ++ " "
  let fail : Option (String × String) :=
    if !isPerm then some (pre ++ "mdc keys iterated are not the keys inserted", "C12/mdc-keys")
    else if okStep then
      match o.text with
      | none => some (pre ++ "the writer accepted everything but no complete UTF-8 line came out (" ++ o.kind ++ ")", "C12/no-line")
      | some t =>
        if o.kind ≠ "ok" then some (pre ++ "encode did not return Ok although the writer accepted everything", "C12/no-line")
        else match specLine env c.record t with
          | .fail clause =>
            if o.iso = "diff" then
              some (pre ++ clause ++ ": the line differs from what a fresh thread and encoder emit for the same record",
                    "C12/state-leaks-between-records")
            else some (pre ++ clause, "C12/" ++ clause)
          | .ok =>
            if o.iso = "diff" then
              some (pre ++ "the line differs from what a fresh thread and encoder emit for the same record",
                    "C12/state-leaks-between-records")
            else if o.indep ≠ "ok" then
              some (pre ++ "serde_json::Value reads the line differently: " ++ o.indep, "C12/independent-parser-disagrees")
            else none
    else
      let got : List Nat := match o.bytes, o.text with
        | some b, _ => b
        | none, some t => Log4rs.utf8 t
        | none, none => []
      if specCutStep step got then none
      else some (pre ++ "the bytes of the unfinished encode are not a prefix of the record's line cut at the writer's limit",
                 "C12/cut-step-not-a-prefix")
  let posTag : List String :=
    if c.writerTag = "ok" then [] else
    match c.writerTag.toList with
    | 'a' :: ds => if ds = ['0'] then ["fail-at-0"] else ["fail-abs"]
    | 'm' :: _ => ["fail-in-message"]
    | 'd' :: _ => ["fail-in-mdc"]
    | 'e' :: ds => if ds = ['1'] then ["fail-at-newline"] else ["fail-near-end"]
    | _ => []
  let tags := posTag
    ++ (if c.display.isSome then ["display-fails"] else [])
    ++ (if !okStep && res.kind = .ioErr then ["step-io-err"] else [])
    ++ (if c.writerTag ≠ "ok" && okStep then ["limit-not-reached"] else [])
    ++ (if c.record.message.length ≥ 256 then ["long-message"] else if c.record.message.length ≤ 2 then ["short-message"] else [])
    ++ (if c.record.message.length > 8192 then ["message-over-8k"] else [])
    ++ (if c.record.target.length ≥ 64 then ["long-target"] else [])
    ++ (if c.record.message.any needsEscape then ["escapes-in-message"] else [])
    ++ (if map.isEmpty then [] else ["mdc-nonempty"])
    ++ shapeTags c.shape c.record.pieces
  { model, okStep, fail, tags }

def adjacent : List α → List (α × α)
  | a :: b :: r => (a, b) :: adjacent (b :: r)
  | _ => []

def zip3 : List α → List β → List γ → List (α × β × γ)
  | a :: as, b :: bs, c :: cs => (a, b, c) :: zip3 as bs cs
  | _, _, _ => []

def handleSeq (threadS stepsS : String) (obs : List String) : Answer :=
  match decOpt decStr threadS, mapM? decStep (splitOnChar '|' stepsS) with
  | some thread, some steps =>
    let obsFields := (splitOnChar ' ' (" ".intercalate obs)).filter (· ≠ "")
    match obsFields with
    | head :: rest =>
      match splitOnChar ':' head with
      | ["seq", tidS] =>
        match decNat tidS, mapM? decStepObs rest with
        | some tid, some stepObs =>
          if stepObs.length ≠ steps.length then badCase "step count"
          else
            let answers := (zip3 (List.range steps.length) steps stepObs).map fun (i, c, o) => seqStep thread tid i c o
            let model := " ".intercalate (("seq:" ++ toString tid) :: answers.map (·.model))
            let fails := answers.filterMap (·.fail)
            let spec := match fails.find? (·.2 = "C12/state-leaks-between-records"), fails.head? with
              | some (msg, sig), _ => "FAIL:" ++ msg ++ ";sig=" ++ sig
              | none, some (msg, sig) => "FAIL:" ++ msg ++ ";sig=" ++ sig
              | none, none => "ok"
            let okFlags : List Bool := answers.map (·.okStep)
            let ps := adjacent okFlags
            let mdcChanged := (adjacent (steps.map (·.ins))).any fun p => p.1 != p.2
            let shape :=
              ["seq", "seq-len-" ++ toString steps.length]
              ++ (if okFlags.head? = some false then ["failure-first"] else [])
              ++ (if ps.any (fun p => !p.1 && p.2) then ["failure-then-success"] else [])
              ++ (if ps.any (fun p => !p.1 && !p.2) then ["two-failures-in-a-row"] else [])
              ++ (if okFlags.all (· = true) then ["no-failure"] else [])
              ++ (if mdcChanged then ["mdc-changed-between-steps"] else [])
              ++ (if thread.isSome then ["thread-named"] else ["thread-null"])
            { model, spec, tags := dedup (shape ++ answers.flatMap (·.tags)) }
        | _, _ => badCase "observation"
      | _ =>
        -- the harness could not run the history at all
        { model := "seq:0", spec := "FAIL:no history observed (" ++ head.take 40 ++ ");sig=C12/no-line", tags := ["seq"] }
    | [] => badCase "observation"
  | _, _ => badCase "fields"

/-! ### several threads, one encoder -/

structure EntryCase where
  thread : Option (List Char)
  step : StepCase

def decEntry (s : String) : Option EntryCase :=
  match splitOnChar ';' s with
  | [t, lv, msg, target, mp, file, line, mdc] =>
    match decOpt decStr t, decStep (";".intercalate [lv, msg, target, mp, file, line, mdc, "ok", "-"]) with
    | some thread, some step => some { thread, step }
    | _, _ => none
  | _ => none

structure EntryObs where
  tid : Nat
  obs : StepObs

def decEntryObs (s : String) : Option EntryObs :=
  match splitOnChar ';' s with
  | [tidS, timeS, orderS, kind, indep, payload] =>
    match decNat tidS, decStepObs (";".intercalate [timeS, "-", orderS, kind, indep, "same", payload]) with
    | some tid, some obs => some { tid, obs }
    | _, _ => none
  | _ => none

def multiEntry (idx : Nat) (c : EntryCase) (eo : EntryObs) : StepAnswer :=
  let o := eo.obs
  let map := mdcMap c.step.ins
  let isPerm := o.order.length = map.length && noDupKeys o.order && o.order.all (fun k => map.any (·.1 == k))
  let order := lineOrder map o.order (if o.kind = "ok" then o.text else none)
  let mdcEnv := order.filterMap fun k => (map.lookup k).map (k, ·)
  let env : Env := { time := o.time, thread := c.thread, threadId := eo.tid, mdc := mdcEnv }
  let model := toString eo.tid ++ ";" ++ o.timeS ++ ";" ++ (if isPerm then o.orderS else "NOT-A-PERMUTATION")
    ++ ";ok;ok;t" ++ encStr (jsonLine env c.step.record)
  let pre := "entry" ++ toString idx ++ " "
  let fail : Option (String × String) :=
    if !isPerm then some (pre ++ "mdc keys iterated are not the keys inserted", "C12/mdc-keys")
    else match o.text with
      | none => some (pre ++ "no complete UTF-8 line came out (" ++ o.kind ++ ")", "C12/no-line")
      | some t =>
        if o.kind ≠ "ok" then some (pre ++ "encode did not return Ok", "C12/no-line")
        else match specLine env c.step.record t with
          | .fail clause => some (pre ++ clause, "C12/" ++ clause)
          | .ok =>
            if o.indep ≠ "ok" then
              some (pre ++ "serde_json::Value reads the line differently: " ++ o.indep, "C12/independent-parser-disagrees")
            else none
  { model, okStep := true, fail, tags := shapeTags c.step.shape c.step.record.pieces }

def handleMulti (mode entriesS : String) (obs : List String) : Answer :=
  match mapM? decEntry (splitOnChar '|' entriesS) with
  | some entries =>
    if !(mode = "main" || mode = "succ" || mode = "conc") then badCase "mode" else
    let obsFields := (splitOnChar ' ' (" ".intercalate obs)).filter (· ≠ "")
    match obsFields with
    | "multi" :: rest =>
      match mapM? decEntryObs rest with
      | some eobs =>
        if eobs.length ≠ entries.length then badCase "entry count"
        else
          let answers := (zip3 (List.range entries.length) entries eobs).map fun (i, c, o) => multiEntry i c o
          let model := " ".intercalate ("multi" :: answers.map (·.model))
          let spec := match (answers.filterMap (·.fail)).head? with
            | some (msg, sig) => "FAIL:" ++ msg ++ ";sig=" ++ sig
            | none => "ok"
          let tids := eobs.map (·.tid)
          let names := entries.map (·.thread)
          let reused := (adjacent (tids.zip names)).any fun p => p.1.1 == p.2.1 && p.1.2 != p.2.2
          let shape :=
            ["multi", "multi-" ++ mode, "threads-" ++ (if entries.length ≥ 4 then "4+" else toString entries.length)]
            ++ (if mode = "succ" && reused then ["thread-id-reused-under-another-name"] else [])
            ++ (if mode = "succ" && !reused then ["thread-id-not-reused"] else [])
            ++ (if mode = "conc" && noDupKeys (tids.map fun t => (toString t).toList) then ["live-thread-ids-distinct"] else [])
            ++ (if names.any (·.isNone) then ["thread-null"] else [])
            ++ (if (adjacent (entries.map (·.step.ins))).any (fun p => p.1 != p.2) then ["mdc-differs-between-threads"] else [])
          { model, spec, tags := dedup (shape ++ answers.flatMap (·.tags)) }
      | none => badCase "observation"
    | head :: _ =>
      { model := "multi", spec := "FAIL:nothing observed (" ++ head.take 40 ++ ");sig=C12/no-line", tags := ["multi"] }
    | [] => badCase "observation"
  | none => badCase "fields"

def handle : Handler := fun cas obs =>
  match cas with
  | ["seq", threadS, stepsS] => handleSeq threadS stepsS obs
  | ["multi", mode, entriesS] => handleMulti mode entriesS obs
  | [lv, msg, target, mp, file, line, thread, mdc] =>
    match (decNat lv).bind Level.ofNat?, decMessage msg, decStr target, decOpt decStr mp, decOpt decStr file,
          decOpt decNat line, decOpt decStr thread, mapM? decPair (decList ',' mdc) with
    | some level, some (shape, pieces), some target, some modulePath, some file, some line, some thread, some ins =>
      let r : Record := { level, pieces, modulePath, file, line, target }
      let map := mdcMap ins
      let tags := tagsOf thread r map ++ shapeTags shape pieces
      let obsStr := " ".intercalate obs
      let kv := kvOf obsStr
      match kv.lookup "time", (kv.lookup "tid").bind decNat, kv.lookup "order", kv.lookup "line" with
      | some timeS, some tid, some orderS, some lineS =>
        match decStr timeS, mapM? decStr (decList ',' orderS), decStr lineS with
        | some time, some harnessOrder, some implLine =>
          -- what `log_mdc::iter` yielded must be a permutation of the map's keys
          let isPerm := harnessOrder.length = map.length && noDupKeys harnessOrder
            && harnessOrder.all (fun k => map.any (·.1 == k))
          let order := lineOrder map harnessOrder (some implLine)
          let mdcEnv := order.filterMap fun k => (map.lookup k).map (k, ·)
          let env : Env := { time, thread, threadId := tid, mdc := mdcEnv }
          let model := "time=" ++ timeS ++ " tid=" ++ toString tid ++ " order="
            ++ (if isPerm then orderS else "NOT-A-PERMUTATION-OF-THE-MDC-KEYS") ++ " indep=ok line="
            ++ encStr (jsonLine env r)
          let indep := (kv.lookup "indep").getD "missing"
          let spec :=
            if !isPerm then "FAIL:mdc keys iterated are not the keys inserted;sig=C12/mdc-keys"
            else match specLine env r implLine with
              | .fail clause => "FAIL:" ++ clause ++ ";sig=C12/" ++ clause
              | .ok =>
                if indep ≠ "ok" then
                  "FAIL:serde_json::Value reads the line differently: " ++ indep ++ ";sig=C12/independent-parser-disagrees"
                else "ok"
          { model, spec, tags }
        | _, _, _ => badCase "observation"
      | _, _, _, _ =>
        -- PANIC / ERR / non-UTF-8 output: there is no line to read back
        let env : Env := { time := [], thread, threadId := 0, mdc := map }
        { model := "time=_ tid=0 order=" ++ encList "," (map.map fun kv => encStr kv.1) ++ " indep=ok line="
            ++ encStr (jsonLine env r),
          spec := "FAIL:no line emitted (" ++ obsStr.take 40 ++ ");sig=C12/no-line", tags }
    | _, _, _, _, _, _, _, _ => badCase "fields"
  | _ => badCase "arity"

end Driver.C12
