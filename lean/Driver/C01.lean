import Driver.Common
import Driver.Sys
import Log4rsModel.Routing.Spec
/-
C01 case:   appenders(,)  rootLevel  rootRefs(,)  loggers(, of name;level;additive;refs(|))  probes(, of target;level)
            optional 6th field failing(,): appenders whose `append` returns Err after recording the call (`-` = none)
            optional fields 7-10: the same configuration declared in another order (loggers / appender table shuffled)
observation: per probe (,) the sequence (;) of appender names called, `~` for none; `PANIC` if `Logger::new` panicked;
             with the 6th field: per probe  calls!errors  (errors = appender names handed to the error handler, in order);
             with fields 7-10: observation of the first declaration # observation of the second
verdict: the statement fixes which appender is called how often, not the order of the calls: multisets are compared;
         a differing order with equal multisets is reported as the tag `call-order-differs-from-chain-order`
         (the model observation, compared by ./check, keeps the sequence)
-/
namespace Driver.C01
open Log4rs.Proto Log4rs.Routing Log4rs.Routing.Tree Driver

def decNames (sep : Char) (s : String) : Option (List Name) := mapM? decStr (decList sep s)

def decLogger (s : String) : Option LoggerCfg :=
  match splitOnChar ';' s with
  | [n, l, a, r] =>
    match decStr n, decNat l, decBool a, decNames '|' r with
    | some name, some level, some additive, some appenders => some { name, level, additive, appenders }
    | _, _, _, _ => none
  | _ => none

def decConfig (apps rootLevel rootRefs loggers : String) : Option Config :=
  match decNames ',' apps, decNat rootLevel, decNames ',' rootRefs, mapM? decLogger (decList ',' loggers) with
  | some appenders, some rootLevel, some rootAppenders, some loggers =>
    some { appenders, rootLevel, rootAppenders, loggers }
  | _, _, _, _ => none

def decProbe (s : String) : Option (Name × Nat) :=
  match splitOnChar ';' s with
  | [t, l] => match decStr t, decNat l with
    | some t, some l => some (t, l)
    | _, _ => none
  | _ => none

def renderNames (ns : List Name) : String := encList ";" (ns.map encStr)

def renderDeliveries (ds : List (List Name)) : String := encList "," (ds.map renderNames)

/-- is some proper non-empty component prefix of a logger name not configured (an implied node)? -/
def hasImplied (cfg : Config) : Bool :=
  cfg.loggers.any fun l =>
    let p := comps l.name
    (List.range p.length).any fun i =>
      0 < i && (lookupLogger cfg.loggers (p.take i)).isNone

def hasNested (cfg : Config) : Bool :=
  cfg.loggers.any fun l => (parent cfg l).isSome

def hasTextualSibling (cfg : Config) : Bool :=
  cfg.loggers.any fun a => cfg.loggers.any fun b =>
    a.name ≠ b.name && Log4rs.Str.isPrefix a.name b.name && !(comps a.name).isPrefixOf (comps b.name)

def sortMatters (cfg : Config) : Bool :=
  let ks := cfg.loggers.map (fun l => byteLen l.name)
  (ks.zip (ks.drop 1)).any fun (a, b) => b < a

def nonAscii (cfg : Config) : Bool :=
  cfg.loggers.any fun l => byteLen l.name ≠ l.name.length

def configTags (cfg : Config) : List String :=
  (if cfg.loggers.isEmpty then ["trivial"] else []) ++
  (if hasImplied cfg then ["implied-intermediate"] else []) ++
  (if hasNested cfg then ["nested"] else []) ++
  (if cfg.loggers.any (fun l => !l.additive && (parent cfg l).isSome) then ["non-additive-cut"] else []) ++
  (if cfg.loggers.any (fun l => !l.additive) then ["non-additive"] else []) ++
  (if hasTextualSibling cfg then ["textual-sibling"] else []) ++
  (if sortMatters cfg then ["declared-unsorted"] else []) ++
  (if nonAscii cfg then ["non-ascii"] else []) ++
  (if cfg.loggers.any (fun l => (comps l.name).head? = some []) then ["leading-colons"] else []) ++
  (if cfg.loggers.length ≥ 4 then ["many-loggers"] else [])

/-- the loggers walked for a target (C01_visited_shape) -/
def walk (cfg : Config) (t : Name) : List (Option LoggerCfg) :=
  visited cfg (comps t).length (effective cfg t)

def hasDup (xs : List Name) : Bool := xs.length ≠ xs.eraseDups.length

/-- classes of single probes; a tag is set when some probe of the case is in the class -/
def probeTags (cfg : Config) (probes : List (Name × Nat)) : List String :=
  let some_ (f : Name × Nat → Bool) (tag : String) : List String := if probes.any f then [tag] else []
  let admitted := fun (p : Name × Nat) => specEnabled cfg p.1 p.2
  let effLen := fun (p : Name × Nat) => match effective cfg p.1 with
    | some l => (comps l.name).length | none => 0
  some_ (fun p => (effective cfg p.1).isNone && admitted p) "to-root-delivered" ++
  some_ (fun p => match effective cfg p.1 with | some l => comps l.name = comps p.1 | none => false) "exact-match" ++
  some_ (fun p => match effective cfg p.1 with | some l => comps l.name ≠ comps p.1 | none => false) "partial-match" ++
  some_ (fun p => !admitted p) "gated" ++
  some_ (fun p => admitted p && specLevel cfg p.1 = p.2) "threshold-boundary" ++
  some_ (fun p => specLevel cfg p.1 = 0) "off-threshold" ++
  some_ (fun p => specLevel cfg p.1 ≥ 5 && p.2 = 5) "trace-admitted" ++
  some_ (fun p => admitted p && (match effective cfg p.1 with | some l => l.appenders.isEmpty | none => false))
    "empty-attachments" ++
  some_ (fun p => admitted p && (specDeliver cfg p.1 p.2).isEmpty) "admitted-but-no-appender" ++
  some_ (fun p => admitted p && (walk cfg p.1).length ≥ 3) "walk-3+" ++
  some_ (fun p => admitted p && ((walk cfg p.1).any fun v => hasDup (attached cfg v))) "dup-within-logger" ++
  some_ (fun p => admitted p && !((walk cfg p.1).any fun v => hasDup (attached cfg v)) &&
      hasDup (specDeliver cfg p.1 p.2)) "dup-across-chain" ++
  some_ (fun p => admitted p && (match (walk cfg p.1).getLast? with | some (some _) => true | _ => false))
    "walk-cut-by-non-additive" ++
  some_ (fun p =>
      let c := comps p.1
      (List.range (c.length + 1)).any fun k => effLen p < k &&
        cfg.loggers.any fun l => (c.take k).isPrefixOf (comps l.name)) "implied-node-hit" ++
  some_ (fun p => match effective cfg p.1 with | some l => (comps l.name).any (·.isEmpty) | none => false)
    "empty-component-matched" ++
  some_ (fun p => p.1.any (· = ':') && (comps p.1).any (fun c => c.any (· = ':')) && (effective cfg p.1).isSome)
    "stray-colon-target-matched" ++
  some_ (fun p => p.1.any (fun c => c.toNat ≥ 0x10000)) "astral-target" ++
  some_ (fun p => p.1.any (fun c => c = ' ' || c = '\t')) "whitespace-target" ++
  some_ (fun p => (comps p.1).length ≥ 9) "deep-target" ++
  some_ (fun p => p.1.length ≥ 200) "long-target"

def signature (cfg : Config) : String :=
  "C01/" ++ (if hasImplied cfg then "implied" else if hasNested cfg then "nested" else "flat")

/-- with failing appenders a probe's observation is `calls!errors` -/
def renderProbeF (r : List Name × List Name) : String := renderNames r.1 ++ "!" ++ renderNames r.2

def sortStrs (xs : List String) : List String := xs.mergeSort (fun a b => !(b < a))

/-- what the statement fixes about one probe: which appender was called how often (and, with failing
appenders, which reported how often) — the order of the calls is not part of the statement -/
def canonProbe (s : String) : String :=
  "!".intercalate ((splitOnChar '!' s).map fun half => ";".intercalate (sortStrs (decList ';' half)))

def canonObs (s : String) : String := ",".intercalate ((decList ',' s).map canonProbe)

structure Side where
  model : String
  ok : Bool
  why : String
  orderDiffers : Bool

/-- model observation for one configuration, and the verdict of the statement (read on `specCfg`) on `implObs` -/
def side (cfg specCfg : Config) (failing : Option (List Name)) (probes : List (Name × Nat)) (implObs : String) : Side :=
  let fails : Name → Bool := fun a => (failing.getD []).contains a
  let model : String :=
    -- `deliver cfg t lvl` / `deliverF cfg fails t lvl` for every probe, building the tree once
    match build cfg, failing with
    | some tree, none =>
      match mapM? (fun p => logNode cfg.appenders (find tree (comps p.1)) p.2) probes with
      | some ds => renderDeliveries ds
      | none => "PANIC"
    | some tree, some _ =>
      match mapM? (fun p => logNodeF cfg.appenders fails (find tree (comps p.1)) p.2) probes with
      | some rs => encList "," (rs.map renderProbeF)
      | none => "PANIC"
    | none, _ => "PANIC"
  let spec :=
    match failing with
    | none => renderDeliveries (probes.map fun p => specDeliver specCfg p.1 p.2)
    | some _ => encList "," (probes.map fun p =>
        renderProbeF (specDeliver specCfg p.1 p.2, specFailures specCfg fails p.1 p.2))
  if canonObs implObs = canonObs spec then
    { model, ok := true, why := "", orderDiffers := implObs ≠ spec }
  else
    let implParts := (decList ',' implObs).map canonProbe
    let specParts := (decList ',' spec).map canonProbe
    let idx := ((implParts.zip specParts).takeWhile (fun (a, b) => a = b)).length
    let e := specParts.getD idx "?"
    let g := implParts.getD idx "?"
    let starved := failing.isSome && (splitOnChar '!' e).head? ≠ (splitOnChar '!' g).head?
    { model, ok := false, orderDiffers := false,
      why := "probe " ++ toString idx ++ " expected (as multiset) " ++ e ++ " got " ++ g ++ ";sig=" ++
        (if starved then "C01/failing-appender-starves-others" else signature specCfg) }

def failTags (cfg : Config) (failing : Option (List Name)) (probes : List (Name × Nat)) : List String :=
  match failing with
  | none => []
  | some fs =>
    let fails : Name → Bool := fun a => fs.contains a
    (if probes.any (fun p => (specFailures cfg fails p.1 p.2).length > 0 &&
        ((specDeliver cfg p.1 p.2).dropWhile (fun a => !fails a)).length > 1)
      then ["failing-appender-not-last"] else []) ++
    (if fs.isEmpty then [] else ["failing-appender"])

def handleWith (failing : Option (List Name)) (apps rootLevel rootRefs loggers probes implObs : String)
    (twin : Option (String × String × String × String)) : Answer :=
  match decConfig apps rootLevel rootRefs loggers, mapM? decProbe (decList ',' probes) with
  | some cfg, some probes =>
    let tags := configTags cfg ++ probeTags cfg probes ++ failTags cfg failing probes
    match twin with
    | none =>
      let a := side cfg cfg failing probes implObs
      let verdict :=
        if !validB cfg then "FAIL:generator produced an invalid configuration;sig=C01/invalid-config"
        else if a.ok then "ok" else "FAIL:" ++ a.why
      { model := a.model, spec := verdict,
        tags := tags ++ (if a.orderDiffers then ["call-order-differs-from-chain-order"] else []) }
    | some (a', l', r', ls') =>
      -- the same configuration declared in another order: both observations are judged by the statement read
      -- on the FIRST declaration (the outcome must not depend on the order)
      match decConfig a' l' r' ls', splitOnChar '#' implObs with
      | some cfg', [obsA, obsB] =>
        let a := side cfg cfg failing probes obsA
        let b := side cfg' cfg failing probes obsB
        let isTwin := cfg.loggers.isPerm cfg'.loggers && cfg.appenders.isPerm cfg'.appenders &&
          cfg.rootLevel = cfg'.rootLevel && cfg.rootAppenders = cfg'.rootAppenders
        let verdict :=
          if !validB cfg then "FAIL:generator produced an invalid configuration;sig=C01/invalid-config"
          else if !isTwin then "FAIL:generator: twin is not a reordering;sig=C01/invalid-twin"
          else if !a.ok then "FAIL:" ++ a.why
          else if !b.ok then "FAIL:reordered declaration: " ++ b.why ++ "-order-dependent"
          else "ok"
        { model := a.model ++ "#" ++ b.model, spec := verdict,
          tags := tags ++ ["twin", if obsA = obsB then "twin-equal" else "twin-differs"] ++
            (if sortMatters cfg' then ["declared-unsorted"] else []) ++
            (if a.orderDiffers || b.orderDiffers then ["call-order-differs-from-chain-order"] else []) }
      | _, _ => badCase "twin"
  | _, _ => badCase "decode"

def handle : Handler := fun cas obs =>
  match cas, obs with
  -- the System slice (Driver/Sys.lean): the literal `sys` cannot be a hex-encoded appender list
  | "sys" :: rest, obs => Driver.Sys.handle rest obs
  | "sys2" :: rest, obs => Driver.Sys.handle2 rest obs
  | [apps, rootLevel, rootRefs, loggers, probes], [implObs] =>
    handleWith none apps rootLevel rootRefs loggers probes implObs none
  | [apps, rootLevel, rootRefs, loggers, probes, failing], [implObs] =>
    match decNames ',' failing with
    | some fs => handleWith (some fs) apps rootLevel rootRefs loggers probes implObs none
    | none => badCase "failing"
  | [apps, rootLevel, rootRefs, loggers, probes, failing, a', l', r', ls'], [implObs] =>
    if failing = "-" then handleWith none apps rootLevel rootRefs loggers probes implObs (some (a', l', r', ls'))
    else match decNames ',' failing with
      | some fs => handleWith (some fs) apps rootLevel rootRefs loggers probes implObs (some (a', l', r', ls'))
      | none => badCase "failing"
  | _, _ => badCase "arity"

end Driver.C01
