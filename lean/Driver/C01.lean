import Driver.Common
namespace Driver.C01
open Driver

def handle : Handler := fun _ _ => badCase "unimplemented"

end Driver.C01
