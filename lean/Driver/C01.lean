import Driver.Common
import Log4rsModel.Routing.Spec
/-
C01 case:   appenders(,)  rootLevel  rootRefs(,)  loggers(, of name;level;additive;refs(|))  probes(, of target;level)
            optional 6th field failing(,): appenders whose `append` returns Err after recording the call
observation: per probe (,) the sequence (;) of appender names called, `~` for none; `PANIC` if `Logger::new` panicked;
             with the 6th field: per probe  calls!errors  (errors = appender names handed to the error handler, in order)
-/
namespace Driver.C01
open Log4rs.Proto Log4rs.Routing Log4rs.Routing.Tree Driver

def decNames (sep : Char) (s : String) : Option (List Name) := mapM? decStr (decList sep s)

def decLogger (s : String) : Option LoggerCfg :=
  match splitOnChar ';' s with
  | [n, l, a, r] =>
    match decStr n, decNat l, decBool a, decNames '|' r with
    | some name, some level, some additive, some appenders => some { name, level, additive, appenders }
    | _, _, _, _ => none
  | _ => none

def decConfig (apps rootLevel rootRefs loggers : String) : Option Config :=
  match decNames ',' apps, decNat rootLevel, decNames ',' rootRefs, mapM? decLogger (decList ',' loggers) with
  | some appenders, some rootLevel, some rootAppenders, some loggers =>
    some { appenders, rootLevel, rootAppenders, loggers }
  | _, _, _, _ => none

def decProbe (s : String) : Option (Name × Nat) :=
  match splitOnChar ';' s with
  | [t, l] => match decStr t, decNat l with
    | some t, some l => some (t, l)
    | _, _ => none
  | _ => none

def renderNames (ns : List Name) : String := encList ";" (ns.map encStr)

def renderDeliveries (ds : List (List Name)) : String := encList "," (ds.map renderNames)

/-- is some proper non-empty component prefix of a logger name not configured (an implied node)? -/
def hasImplied (cfg : Config) : Bool :=
  cfg.loggers.any fun l =>
    let p := comps l.name
    (List.range p.length).any fun i =>
      0 < i && (lookupLogger cfg.loggers (p.take i)).isNone

def hasNested (cfg : Config) : Bool :=
  cfg.loggers.any fun l => (parent cfg l).isSome

def hasTextualSibling (cfg : Config) : Bool :=
  cfg.loggers.any fun a => cfg.loggers.any fun b =>
    a.name ≠ b.name && Log4rs.Str.isPrefix a.name b.name && !(comps a.name).isPrefixOf (comps b.name)

def sortMatters (cfg : Config) : Bool :=
  let ks := cfg.loggers.map (fun l => byteLen l.name)
  (ks.zip (ks.drop 1)).any fun (a, b) => b < a

def nonAscii (cfg : Config) : Bool :=
  cfg.loggers.any fun l => byteLen l.name ≠ l.name.length

def configTags (cfg : Config) : List String :=
  (if cfg.loggers.isEmpty then ["trivial"] else []) ++
  (if hasImplied cfg then ["implied-intermediate"] else []) ++
  (if hasNested cfg then ["nested"] else []) ++
  (if cfg.loggers.any (fun l => !l.additive && (parent cfg l).isSome) then ["non-additive-cut"] else []) ++
  (if cfg.loggers.any (fun l => !l.additive) then ["non-additive"] else []) ++
  (if hasTextualSibling cfg then ["textual-sibling"] else []) ++
  (if sortMatters cfg then ["declared-unsorted"] else []) ++
  (if nonAscii cfg then ["non-ascii"] else []) ++
  (if cfg.loggers.any (fun l => (comps l.name).head? = some []) then ["leading-colons"] else []) ++
  (if cfg.loggers.length ≥ 4 then ["many-loggers"] else [])

def probeTags (cfg : Config) (probes : List (Name × Nat)) : List String :=
  (if probes.any (fun p => (effective cfg p.1).isNone) then ["to-root"] else []) ++
  (if probes.any (fun p => match effective cfg p.1 with
      | some l => comps l.name ≠ comps p.1 | none => false) then ["partial-match"] else []) ++
  (if probes.any (fun p => !specEnabled cfg p.1 p.2) then ["gated"] else []) ++
  (if probes.any (fun p => (specDeliver cfg p.1 p.2).length ≥ 3) then ["long-chain"] else []) ++
  (if probes.any (fun p => p.1.any (· = ':') && (comps p.1).any (fun c => c.any (· = ':') || c.isEmpty)) then ["stray-colons"] else [])

def signature (cfg : Config) : String :=
  "C01/" ++ (if hasImplied cfg then "implied" else if hasNested cfg then "nested" else "flat")

/-- with failing appenders a probe's observation is `calls!errors` -/
def renderProbeF (r : List Name × List Name) : String := renderNames r.1 ++ "!" ++ renderNames r.2

def handleWith (failing : Option (List Name)) (apps rootLevel rootRefs loggers probes implObs : String) : Answer :=
    match decConfig apps rootLevel rootRefs loggers, mapM? decProbe (decList ',' probes) with
    | some cfg, some probes =>
      let fails : Name → Bool := fun a => (failing.getD []).contains a
      let model : String :=
        -- `deliver cfg t lvl` / `deliverF cfg fails t lvl` for every probe, building the tree once
        match build cfg, failing with
        | some tree, none =>
          renderDeliveries (probes.map fun p => logNode cfg.appenders (find tree (comps p.1)) p.2)
        | some tree, some _ =>
          encList "," (probes.map fun p => renderProbeF (logNodeF cfg.appenders fails (find tree (comps p.1)) p.2))
        | none, _ => "PANIC"
      let spec :=
        match failing with
        | none => renderDeliveries (probes.map fun p => specDeliver cfg p.1 p.2)
        | some _ => encList "," (probes.map fun p =>
            renderProbeF (specDeliver cfg p.1 p.2, specFailures cfg fails p.1 p.2))
      let verdict :=
        if !validB cfg then "FAIL:generator produced an invalid configuration;sig=C01/invalid-config"
        else if implObs = spec then "ok"
        else
          let implParts := decList ',' implObs
          let specParts := decList ',' spec
          let idx := ((implParts.zip specParts).takeWhile (fun (a, b) => a = b)).length
          let e := specParts.getD idx "?"
          let g := implParts.getD idx "?"
          let starved := failing.isSome && (splitOnChar '!' e).head? ≠ (splitOnChar '!' g).head?
          "FAIL:probe " ++ toString idx ++ " expected " ++ e ++ " got " ++ g ++ ";sig=" ++
            (if starved then "C01/failing-appender-starves-others" else signature cfg)
      let ftags := match failing with
        | none => []
        | some fs =>
          (if probes.any (fun p => (specFailures cfg fails p.1 p.2).length > 0 &&
              ((specDeliver cfg p.1 p.2).dropWhile (fun a => !fails a)).length > 1)
            then ["failing-appender-not-last"] else []) ++
          (if fs.isEmpty then [] else ["failing-appender"])
      { model, spec := verdict, tags := configTags cfg ++ probeTags cfg probes ++ ftags }
    | _, _ => badCase "decode"

def handle : Handler := fun cas obs =>
  match cas, obs with
  | [apps, rootLevel, rootRefs, loggers, probes], [implObs] =>
    handleWith none apps rootLevel rootRefs loggers probes implObs
  | [apps, rootLevel, rootRefs, loggers, probes, failing], [implObs] =>
    match decNames ',' failing with
    | some fs => handleWith (some fs) apps rootLevel rootRefs loggers probes implObs
    | none => badCase "failing"
  | _, _ => badCase "arity"

end Driver.C01
