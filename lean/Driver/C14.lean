import Driver.Common
namespace Driver.C14
open Driver

def handle : Handler := fun _ _ => badCase "unimplemented"

end Driver.C14
