import Driver.Common
import Log4rsModel.ConfigDoc.Spec
/-
C14 driver.  Case fields (after the id):
  1 refresh_rate   `-` | text
  2 root           `-` | `<level|->/<names|->`
  3 loggers        `;`-list of `name/level/<additive 0|1|->/<names|->`
  4 appenders      `|`-list of `name/K/filters/path/flag/enc/target/pk/trig/roll`
  5 probes         `,`-list of `target:level`
  6 key-order seed
  7 injection class (`-` none)   8 injection path (`,`-list of `k<key>` | `#<index>`)   9 payload
The document is `shuffle seed (inject (render cfg))`; YAML is interpreted with `seqStructs = false`,
JSON and TOML with `true`; TOML cannot carry `null`, so null-valued entries are absent there.
-/
namespace Driver.C14
open Log4rs Log4rs.Proto Log4rs.Literals Log4rs.ConfigDoc Log4rs.Routing Driver

def decNames (s : String) : Option (List Key) := mapM? decStr (decList ',' s)

def decOptNames (s : String) : Option (Option (List Key)) := decOpt decNames s

def decRoot (s : String) : Option (Option RootL) :=
  if s = "-" then some none else
  match splitOnChar '/' s with
  | [l, a] =>
    match decOpt decStr l, decOptNames a with
    | some level, some appenders => some (some { level, appenders })
    | _, _ => none
  | _ => none

def decLogger (s : String) : Option LoggerL :=
  match splitOnChar '/' s with
  | [n, l, add, a] =>
    match decStr n, decStr l, decOpt decBool add, decOptNames a with
    | some name, some level, some additive, some appenders => some { name, level, additive, appenders }
    | _, _, _, _ => none
  | _ => none

def decScalar (s : String) : Option Scalar :=
  match s.toList with
  | 'i' :: r => (decInt (String.ofList r)).map .int
  | 's' :: r => (decStr (String.ofList r)).map .str
  | _ => none

def decTrig (s : String) : Option TrigL :=
  match splitOnChar ':' s with
  | ["s", sc] => (decScalar sc).map .size
  | ["t", sc, m, d] =>
    match decScalar sc, decOpt decBool m, decOpt decNat d with
    | some i, some m, some d => some (.time i m d)
    | _, _, _ => none
  | ["o", m] => (decOpt decNat m).map .onstartup
  | _ => none

def decRoll (s : String) : Option RollL :=
  match splitOnChar ':' s with
  | ["d"] => some .delete
  | ["w", b, n] =>
    match decOpt decNat b, decNat n with
    | some b, some n => some (.window b n)
    | _, _ => none
  | _ => none

def decEnc (s : String) : Option (Option EncL) :=
  if s = "-" then some none else
  match s.toList with
  | [a, b, c] =>
    if (a = '0' ∨ a = '1') ∧ (b = '0' ∨ b = '1') ∧ ('0' ≤ c ∧ c ≤ '3') then
      some (some { kindExplicit := a = '1', json := b = '1',
                   pattern := if c = '0' then none else some (c.toNat - '1'.toNat) })
    else none
  | _ => none

def decApp (s : String) : Option AppL :=
  match splitOnChar '/' s with
  | [n, k, f, p, fl, e, t, pk, tr, ro] =>
    match decStr n, decNat k, decOpt (fun x => mapM? decStr (decList ',' x)) f, decStr p,
      decOpt decBool fl, decEnc e, decOpt decBool t, decBool pk, decTrig tr, decRoll ro with
    | some name, some kind, some filters, some path, some flag, some enc, some target, some policyKind,
      some trig, some roll =>
      if kind ≤ 2 then some { name, kind, filters, path, flag, enc, target, policyKind, trig, roll }
      else none
    | _, _, _, _, _, _, _, _, _, _ => none
  | _ => none

def decProbe (s : String) : Option (Key × Nat) :=
  match splitOnChar ':' s with
  | [t, l] =>
    match decStr t, decNat l with
    | some t, some l => if 1 ≤ l ∧ l ≤ 5 then some (t, l) else none
    | _, _ => none
  | _ => none

def decStep (s : String) : Option Step :=
  match s.toList with
  | 'k' :: r => (decStr (String.ofList r)).map .key
  | '#' :: r => (decNat (String.ofList r)).map .idx
  | _ => none

/-- `none` = undecodable, `some none` = delete the entry -/
def decPayload (s : String) : Option (Option Value) :=
  match s.toList with
  | ['X'] => some none
  | ['N'] => some (some .null)
  | ['B', '0'] => some (some (.bool false))
  | ['B', '1'] => some (some (.bool true))
  | ['F'] => some (some .float)
  | ['M'] => some (some (.map []))
  | ['Q', 'i'] => some (some (.seq [.int 1]))
  | ['Q', 'r'] => some (some (.seq [.str (c!"info"), .seq []]))
  | ['Q', 'e'] => some (some (.seq []))
  | ['Q', 'd'] => some (some (.seq [.null, .map [(c!"level", .str (c!"warn"))]]))
  | ['Q', 'l'] => some (some (.seq [.str (c!"info")]))
  | ['Q', 'f'] => some (some (.seq [.map [(c!"kind", .str (c!"threshold")), (c!"level", .str (c!"info"))]]))
  | 'I' :: r => (decInt (String.ofList r)).map (fun n => some (.int n))
  | 'S' :: r => (decStr (String.ofList r)).map (fun s => some (.str s))
  | _ => none

def fmtObs (prog : String) (fmt : Format) (doc : Value) (probes : List (Key × Nat)) : String :=
  renderLossy probes prog (loadFile realEnv fmt doc) ++ " " ++ renderStrict (loadFileStrict realEnv fmt doc)

/-- add a second entry with the key at the end of the path (class `dupkey`) -/
def addDup : List Step → Value → Value → Value
  | [.key k], x, .map kvs => .map (kvs ++ [(k, x)])
  | .key k :: rest, x, .map kvs =>
    .map (kvs.map (fun kv => if kv.1 = k then (kv.1, addDup rest x kv.2) else kv))
  | _, _, v => v

def applyInjection (doc : Value) (i : Injection) : Value :=
  if i.cls = "-" ∨ i.cls = "ext" then doc
  else if i.cls = "dupkey" then (match i.payload with | some x => addDup i.path x doc | none => doc)
  else modifyAt i.path (fun _ => i.payload) doc

def lastKey : List Step → Key
  | [] => []
  | [.key k] => k
  | [.idx _] => []
  | _ :: r => lastKey r

/-- the parts of an appender entry that `AppenderConfig` / `FilterConfig` type while the DOCUMENT
is parsed: the entry itself, its `kind`, its `filters` list, a filter entry, a filter's `kind` -/
def isEnvelope (path : List Step) : Bool :=
  match path with
  | [.key top, .key _] => top = c!"appenders"
  | [.key top, .key _, .key f] => top = c!"appenders" && (f = c!"kind" || f = c!"filters")
  | [.key top, .key _, .key f, .idx _] => top = c!"appenders" && f = c!"filters"
  | [.key top, .key _, .key f, .idx _, .key k] => top = c!"appenders" && f = c!"filters" && k = c!"kind"
  | _ => false

def sigOne (cls : String) (path : List Step) (payload : Option Value) (impl : String) : String :=
  if (impl.splitOn "PANIC").length > 1 then
    if lastKey path = c!"refresh_rate" then "C14/refresh-rate-duration-overflow-panics"
    else if lastKey path = c!"interval" then
      match payload with
      | some (.int 0) => "C14/time-trigger-interval-zero-modulate"
      | _ => "C14/time-trigger-interval-out-of-range"
    else "C14/panic-" ++ cls
  else if cls = "seqs" then "C14/seq-for-struct-accepted"
  else if isEnvelope path ∧ cls ≠ "unk" ∧ (impl.splitOn "lossy=err").length > 1 then
    "C14/appender-envelope-error-rejects-document"
  else if (impl.splitOn "DISAGREE").length > 1 then "C14/formats-disagree-" ++ cls
  else "C14/" ++ cls

/-- class of inputs of a specification failure (for `known_findings.json`): that of the single
injection; with several injections the classes joined (a `seqs` member dominates) -/
def signature (injs : List Injection) (impl : String) : String :=
  match injs with
  | [] => sigOne "-" [] none impl
  | [i] => sigOne i.cls i.path i.payload impl
  | _ =>
    match injs.find? (fun i => i.cls = "seqs") with
    | some i => sigOne i.cls i.path i.payload impl
    | none => "C14/multi-" ++ "+".intercalate (injs.map (·.cls))

/-- which part of the observation differs from the (first) prescribed one -/
def firstDiff (impl want : String) : String :=
  let a := impl.splitOn " "
  let b := want.splitOn " "
  match (a.zip b).find? (fun p => p.1 ≠ p.2) with
  | some p => (p.1.splitOn "=").headD "?"
  | none => if a.length = b.length then "-" else "length"

def cfgTags (cfg : LogicalConfig) : List String :=
  (if cfg.root.isNone then ["root-omitted"] else [])
  ++ (if cfg.refresh.isSome then ["refresh"] else [])
  ++ (if cfg.appenders.any (·.kind = 0) then ["console"] else [])
  ++ (if cfg.appenders.any (·.kind = 1) then ["file"] else [])
  ++ (if cfg.appenders.any (·.kind = 2) then ["rolling"] else [])
  ++ (if cfg.appenders.any (fun a => (a.filters.getD []).length > 0) then ["filters"] else [])
  ++ (if cfg.appenders.any (fun a => match a.enc with | some e => e.json | none => false) then ["json-encoder"] else [])
  ++ (if cfg.appenders.any (fun a => a.enc.isNone) then ["encoder-omitted"] else [])
  ++ (if cfg.appenders.any (fun a => a.kind = 2 ∧ !a.policyKind) then ["policy-kind-default"] else [])
  ++ (if cfg.loggers.any (·.additive.isNone) then ["additive-default"] else [])
  ++ (if cfg.loggers.any (fun l => l.additive = some false) then ["non-additive"] else [])
  ++ (if cfg.loggers.any (fun l => !checkLoggerName l.name) then ["bad-logger-name"] else [])

def trigTag (a : AppL) : List String :=
  if a.kind ≠ 2 then [] else
  [match a.trig with | .size _ => "trig-size" | .time _ _ _ => "trig-time" | .onstartup _ => "trig-onstartup",
   match a.roll with | .delete => "roll-delete" | .window _ _ => "roll-window"]

def granTag : Gran → String
  | .none => "gran-none"
  | .doc => "gran-doc"
  | .appender _ => "gran-appender"
  | .filter _ _ => "gran-filter"

def handle : Handler := fun cas obs =>
  match cas, obs with
  | [rr, root, loggers, apps, probes, seed, cls, path, payload], [implObs] =>
    let clss := splitOnChar '+' cls
    let paths := if clss.length ≤ 1 then [path] else splitOnChar '|' path
    let payloads := if clss.length ≤ 1 then [payload] else splitOnChar '|' payload
    match decOpt decStr rr, decRoot root, mapM? decLogger (decList ';' loggers),
      mapM? decApp (decList '|' apps), mapM? decProbe (decList ',' probes), decNat seed,
      mapM? (fun p => mapM? decStep (decList ',' p)) paths, mapM? decPayload payloads with
    | some refresh, some root, some loggers, some appenders, some probes, some seed, some paths,
      some payloads =>
      if clss.length ≠ paths.length ∨ clss.length ≠ payloads.length then badCase "injection arity" else
      let cfg : LogicalConfig := { refresh, root, loggers, appenders }
      let injs : List Injection :=
        ((clss.zip paths).zip payloads).filterMap (fun ((c, p), v) =>
          if c = "-" then none else some { cls := c, path := p, payload := v })
      let base := render cfg
      let doc := shuffle seed (injs.foldl applyInjection base)
      match injs.find? (fun i => i.cls = "ext") with
      | some i =>
        let fname := match i.payload with | some (.str s) => s | _ => []
        let model := renderExt fname (loadFile realEnv .yaml doc)
        let want := renderExt fname (.ok (buildLossyNames (meaning cfg)))
        let extTag := match formatOfPath fname with
          | .ok _ => "ext-known"
          | .error .unknown => "ext-none"
          | .error .unsupported => "ext-unsupported"
        { model, spec := if implObs = want then "ok" else "FAIL:ext;sig=C14/ext",
          tags := ["inj-ext", extTag] }
      | none =>
      let prog := progOf injs
      let model := renderFormats (fmtObs prog .yaml doc probes) (fmtObs prog .json doc probes)
        (fmtObs prog .toml doc probes)
      let acc := acceptable cfg injs (hasBigInt doc) probes
      let grans := injs.map (fun i => granOf i.cls i.path)
      let r := meaning cfg
      let hasDangling := !(buildLossyNames r).buildErrors.isEmpty
      let tags := (if injs.isEmpty then ["valid"] else injs.map (fun i => "inj-" ++ i.cls))
        ++ (if injs.length ≥ 2 then ["multi-injection"] else [])
        ++ (grans.map granTag).eraseDups
        ++ (if hasDangling then ["dangling-or-badname"] else [])
        ++ (if !r.errors.isEmpty then ["unbuildable-appender"] else [])
        ++ (if hasBigInt doc then ["toml-cannot-write"] else [])
        ++ cfgTags cfg ++ (cfg.appenders.flatMap trigTag).eraseDups
        ++ (if cfg.appenders.any (fun a => a.kind = 0 ∧ a.flag ≠ some true) then ["console-writes"] else [])
        ++ (if injs.isEmpty ∧ cfg.appenders.isEmpty ∧ cfg.loggers.isEmpty then ["trivial"] else [])
      { model,
        spec := if acc.contains implObs then "ok"
          else "FAIL:" ++ firstDiff implObs (acc.headD "") ++ " differs from the prescribed observation;sig="
            ++ signature injs implObs,
        tags }
    | _, _, _, _, _, _, _, _ => badCase "decode"
  | _, _ => badCase "arity"

end Driver.C14
