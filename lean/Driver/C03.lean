import Driver.Common
import Log4rsModel.Routing.Filters
import Log4rsModel.Routing.Spec
import Log4rsModel.Routing.LogRecord
/-
C03 driver.
case (fields 5–8 optional, positional):
  1 rootLevel   2 recordLevel
  3 attached  = `,`-list of appender numbers: the ROOT logger's attachment list (repeats allowed)
  4 appenders = `,`-list of  chain;result
        chain  = `|`-list of  A N R (scripted answers)  T<k> (real threshold filter, consultation
                 recorded)  t<k> (the bare real `ThresholdFilter` object: consultation not observable)
                 B (configuration paths only: an entry that does not deserialize), or the single
                 token `!` (configuration paths only: `filters:` is not a sequence)
        result = ok | fail | p<bits> (call k returns Err iff bit k is 1; later calls Ok) | panic
  5 path      = builder | builder-many (`AppenderBuilder::filters(iter)`) | config-yaml | config-json | config-toml
  6 history   = c<k> | d<k> : created with a configured (`new_with_err_handler`) / the default
                (`Logger::new`) handler, then k × `Handle::set_config` with an equal configuration
  7 loggers   = `,`-list of  name;level;additive;att|att|…   (named loggers; att = appender numbers)
  8 target    = the record's target (default `some::target`)
observation (one field): the calls in order, `,`-separated:
  f<app>.<label>  a<app>  h<app> (configured handler)  d<app> (default handler: stderr line)
  `!` last = `Log::log` unwound (panic);  ` errs=<n>` appended on path config-json (errors reported by
  `appenders_lossy`)
-/
namespace Driver.C03
open Log4rs.Proto Log4rs.Routing Log4rs Driver

/-- a chain entry: a filter with its observability, or an entry that does not deserialize -/
inductive Entry where
  | filter (f : Filter) (observable : Bool)
  | bad

def decEntry (s : String) : Option Entry :=
  match s with
  | "A" => some (.filter (.fixed .accept) true)
  | "N" => some (.filter (.fixed .neutral) true)
  | "R" => some (.filter (.fixed .reject) true)
  | "B" => some .bad
  | _ =>
    if s.startsWith "T" then ((s.drop 1).toString.toNat?).map fun k => .filter (.threshold k) true
    else if s.startsWith "t" then ((s.drop 1).toString.toNat?).map fun k => .filter (.threshold k) false
    else none

structure Results where
  results : List CallResult
  rest : CallResult

def decResults (s : String) : Option Results :=
  if s = "ok" then some ⟨[], .ok⟩
  else if s = "fail" then some ⟨[], .err⟩
  else if s = "panic" then some ⟨[], .panic⟩
  else match s.toList with
    | 'p' :: bits =>
      (mapM? (fun c => if c = '1' then some CallResult.err else if c = '0' then some CallResult.ok else none) bits).map
        fun rs => ⟨rs, .ok⟩
    | _ => none

/-- a declared appender: `entries = none` ⇔ `filters:` is not a sequence -/
structure Decl where
  entries : Option (List Entry)
  res : Results

def decDecl (s : String) : Option Decl :=
  match splitOnChar ';' s with
  | [ch, res] =>
    match decResults res with
    | none => none
    | some r =>
      if ch = "!" then some ⟨none, r⟩
      else (mapM? decEntry (decList '|' ch)).map fun es => ⟨some es, r⟩
  | _ => none

inductive Path where
  | builder | builderMany | configYaml | configJson | configToml
  deriving DecidableEq

def decPath : Option String → Option Path
  | none => some .builder
  | some "builder" => some .builder
  | some "builder-many" => some .builderMany
  | some "config-yaml" => some .configYaml
  | some "config-json" => some .configJson
  | some "config-toml" => some .configToml
  | _ => none

def Path.isConfig : Path → Bool
  | .builder | .builderMany => false
  | _ => true

def Path.tag : Path → String
  | .builder => "path-builder" | .builderMany => "path-builder-many" | .configYaml => "path-config-yaml"
  | .configJson => "path-config-json" | .configToml => "path-config-toml"

structure Hist where
  configured : Bool
  reconfs : Nat

def decHist : Option String → Option Hist
  | none => some ⟨true, 0⟩
  | some s =>
    match s.toList with
    | 'c' :: k => (String.ofList k).toNat?.map fun n => ⟨true, n⟩
    | 'd' :: k => (String.ofList k).toNat?.map fun n => ⟨false, n⟩
    | _ => none

structure LoggerIn where
  name : Name
  level : Nat
  additive : Bool
  att : List Nat

def decLogger (s : String) : Option LoggerIn :=
  match splitOnChar ';' s with
  | [n, lv, ad, att] =>
    match decStr n, decNat lv, decBool ad, mapM? decNat (decList '|' att) with
    | some n, some lv, some ad, some att => some ⟨n, lv, ad, att⟩
    | _, _, _, _ => none
  | _ => none

/-- the name the harness gives appender number `i` -/
def appName (i : Nat) : Name := (toString i).toList

def appOfName (n : Name) : Option Nat := (String.ofList n).toNat?

def entryFilter? : Entry → Option (Filter × Bool)
  | .filter f o => some (f, o)
  | .bad => none

/-- The appender a declaration yields on a construction path, as the model says
(Routing/Filters.lean): builder paths push the declared filters (`builderVec`), configuration paths
run `configAppender` over the entries. `none` = the appender does not exist. Also the number of
errors `appenders_lossy` reports. -/
def modelAppender (p : Path) (d : Decl) : Option (AppenderG Nat) × Nat :=
  let result : Nat → CallResult := fun k => d.res.results.getD k d.res.rest
  match p with
  | .builder =>
    let fs := (d.entries.getD []).filterMap fun e => (entryFilter? e).map fun x => x.1.respond
    (some { chain := declare (builderVec (fs.map BuilderCall.filter)), result }, 0)
  | .builderMany =>
    let fs := (d.entries.getD []).filterMap fun e => (entryFilter? e).map fun x => x.1.respond
    -- first filter alone, the others in one `.filters(iter)` call
    let calls := match fs with
      | [] => [BuilderCall.filters []]
      | f :: rest => [BuilderCall.filter f, BuilderCall.filters rest]
    (some { chain := declare (builderVec calls), result }, 0)
  | _ =>
    let v : FiltersValue Nat := match d.entries with
      | none => .notSeq
      | some [] => .absent
      | some es => .seq (es.map fun e => match e with
          | .filter f _ => FilterEntry.ok f.respond
          | .bad => FilterEntry.bad)
    configAppender v result

/-- the declared appender as the SPECIFICATION sees it: its valid filters in document order, each
labelled with its document position; absent if `filters:` is not a sequence -/
def specAppender (d : Decl) : Option (AppenderG Nat) :=
  let result : Nat → CallResult := fun k => d.res.results.getD k d.res.rest
  d.entries.map fun es =>
    { chain := es.zipIdx.filterMap fun p => (entryFilter? p.1).map fun x => (p.2, x.1.respond), result }

/-- labels whose consultation the harness cannot see (bare threshold objects) -/
def hiddenLabels (d : Decl) : List Nat :=
  (d.entries.getD []).zipIdx.filterMap fun p => match p.1 with
    | .filter _ false => some p.2
    | _ => none

def observable (decls : List Decl) (tr : List Event) : List Event :=
  tr.filter fun e => match e with
    | .filter a l => !((decls[a]?.map hiddenLabels).getD []).contains l
    | _ => true

def renderEvent : Event → String
  | .filter a i => "f" ++ toString a ++ "." ++ toString i
  | .append a => "a" ++ toString a
  | .handler a => "h" ++ toString a
  | .stderr a => "d" ++ toString a

def renderTrace (tr : List Event) : String := encList "," (tr.map renderEvent)

def renderResult (decls : List Decl) : LogResult → String
  | .returned tr => renderTrace (observable decls tr)
  | .panicked tr => let t := (observable decls tr).map renderEvent; ",".intercalate (t ++ ["!"])

def decEvent (s : String) : Option Event :=
  match s.toList with
  | 'f' :: rest =>
    match splitOnChar '.' (String.ofList rest) with
    | [a, i] => match a.toNat?, i.toNat? with
      | some a, some i => some (.filter a i)
      | _, _ => none
    | _ => none
  | 'a' :: rest => (String.ofList rest).toNat?.map Event.append
  | 'h' :: rest => (String.ofList rest).toNat?.map Event.handler
  | 'd' :: rest => (String.ofList rest).toNat?.map Event.stderr
  | _ => none

def isHandling : Event → Bool
  | .handler _ | .stderr _ => true
  | _ => false

def isAppend : Event → Bool
  | .append _ => true
  | _ => false

/-- move the events of the compacted table (present appenders only) back to the harness numbers -/
def renumber (ids : List Nat) : Event → Event
  | .filter a l => .filter (ids.getD a a) l
  | .append a => .append (ids.getD a a)
  | .handler a => .handler (ids.getD a a)
  | .stderr a => .stderr (ids.getD a a)

def LogResult.mapEvents (f : Event → Event) : LogResult → LogResult
  | .returned tr => .returned (tr.map f)
  | .panicked tr => .panicked (tr.map f)

/-- no handler call before the error it reports: walking the trace, the handler/stderr calls for
appender `i` never outnumber the `append` calls of `i` made so far that return `Err` -/
def handledAfterError (resultOf : Nat → Nat → CallResult) (tr : List Event) : Bool :=
  let rec go (tr : List Event) (calls errs handled : List Nat) : Bool :=
    match tr with
    | [] => true
    | .append i :: rest =>
      let k := calls.count i
      go rest (i :: calls) (if resultOf i k = .err then i :: errs else errs) handled
    | .handler i :: rest => handled.count i < errs.count i && go rest calls errs (i :: handled)
    | .stderr i :: rest => handled.count i < errs.count i && go rest calls errs (i :: handled)
    | _ :: rest => go rest calls errs handled
  go tr [] [] []

/-- The statement, evaluated on the calls the real code made. Per appender `i`: the sequence of its
own filter consultations and `append` calls is the one its own chain prescribes (once per
attachment along the logger chain of the target), the configured handler — the default one when
none was configured — got exactly as many of its errors as its calls returned, no other handler got
any, and no error was handled before the call that returned it. The statement does not fix how the
calls of different appenders interleave; that is left to the correspondence check. -/
def specVerdict (n : Nat) (admitted : Bool) (configured : Bool) (resultOf : Nat → Nat → CallResult)
    (want impl : List Event) : Option String :=
  if impl.any (fun e => e.app ≥ n) then some "call-to-unknown-appender"
  else if !admitted && !impl.isEmpty then some "not-admitted-record-delivered"
  else
    let bad (f : Nat → Bool) := (List.range n).any f
    let own (i : Nat) (tr : List Event) := (project i tr).filter (fun e => !isHandling e)
    let cnt (p : Event → Bool) (i : Nat) (tr : List Event) := ((project i tr).filter p).length
    let isH : Event → Bool := fun e => match e with | .handler _ => true | _ => false
    let isD : Event → Bool := fun e => match e with | .stderr _ => true | _ => false
    if bad (fun i => cnt isAppend i impl != cnt isAppend i want) then some "deliveries-differ"
    else if bad (fun i => own i impl != own i want) then some "filter-consultations-differ"
    else if configured && bad (fun i => cnt isD i impl != 0) then some "error-not-to-configured-handler"
    else if !configured && bad (fun i => cnt isH i impl != 0) then some "error-to-a-handler-nobody-configured"
    else if bad (fun i => cnt isHandling i impl != cnt isHandling i want) then some "handler-calls-differ"
    else if !handledAfterError resultOf impl then some "error-handled-before-it-was-returned"
    else none

def insertAll {α} (x : α) : List α → List (List α)
  | [] => [[x]]
  | y :: ys => (x :: y :: ys) :: (insertAll x ys).map (y :: ·)

def perms {α} : List α → List (List α)
  | [] => [[]]
  | x :: xs => (perms xs).flatMap (insertAll x)

/-- Classifier for the signature only: is what appender `i` received explained by consulting its
declared filters in some OTHER order? (Chains of up to 6 filters; longer ones are not classified.) -/
def explainedByReorder (decls : List Decl) (specTable : List (Option (AppenderG Nat))) (rl : Nat)
    (want impl : List Event) : Bool :=
  (List.range specTable.length).any fun i =>
    match specTable[i]? with
    | some (some a) =>
      let own (tr : List Event) := (project i tr).filter (fun e => !isHandling e)
      let times := ((own want).filter isAppend).length.max 1
      let block (order : List (LFilter Nat)) : List Event :=
        let r := runChainL rl order
        observable decls (r.1.map (Event.filter i) ++ (if r.2 then [Event.append i] else []))
      let rep (b : List Event) (k : Nat) := (List.replicate k b).flatten
      a.chain.length ≤ 6 && own impl != own want &&
        (perms a.chain).any fun o => (List.range 4).any fun k => own impl == rep (block o) (k + 1) && times ≤ 4
    | _ => false

def tagsOf (decls : List Decl) (path : Path) (hist : Hist) (loggers : List LoggerIn) (attIds : List Nat)
    (admitted : Bool) (lvl : Nat) (specTable : List (Option (AppenderG Nat))) (effIsRoot : Bool) : List String :=
  let apps : List (AppenderG Nat) := attIds.filterMap fun i => (specTable[i]?).join
  let chainFns (a : AppenderG Nat) := fns a.chain
  let dec := apps.map fun a => firstDecisive lvl (chainFns a)
  let thr (d : Decl) := (d.entries.getD []).filter fun e => match e with | .filter (.threshold _) _ => true | _ => false
  let attDecls := attIds.filterMap (decls[·]?)
  let t := [path.tag]
    ++ (if !admitted then ["not-admitted"] else [])
    ++ (if dec.any (· = some .accept) then ["accept"] else [])
    ++ (if dec.any (· = some .reject) then ["reject"] else [])
    ++ (if apps.any (fun a => !a.chain.isEmpty && firstDecisive lvl (chainFns a) = none) then ["all-neutral"] else [])
    ++ (if apps.any (fun a => specConsulted lvl (chainFns a) < a.chain.length) then ["short-circuit"] else [])
    ++ (if attDecls.any (fun d => !(thr d).isEmpty) then ["threshold"] else [])
    ++ (if attDecls.any (fun d => (thr d).length ≥ 2) then ["multi-threshold"] else [])
    ++ (if attDecls.any (fun d => !(hiddenLabels d).isEmpty) then ["bare-threshold"] else [])
    ++ (if attDecls.any (fun d => match d.entries.getD [] with
          | .filter (.threshold x) _ :: .filter (.threshold y) _ :: _ => x != y
          | _ => false) then ["leading-thresholds-differ"] else [])
    ++ (if decls.any (fun d => (d.entries.getD []).any fun e => match e with | .bad => true | _ => false) && path.isConfig
        then ["bad-entry"] else [])
    ++ (if decls.any (fun d => d.entries.isNone) && path.isConfig then ["filters-not-a-sequence"] else [])
    ++ (if !attIds.Nodup then ["attached-twice"] else [])
    ++ (if apps.any (fun a => a.chain.length > 5) then ["long-chain"] else [])
    ++ (if attDecls.any (fun d => !d.res.results.isEmpty) then ["per-call-result"] else [])
    ++ (if admitted && (attIds.zipIdx.any fun p => match specTable[p.1]? with
          | some (some a) => specDelivered lvl (chainFns a) && a.result ((attIds.take p.2).count p.1) = .err
          | _ => false) then ["error-handled"] else [])
    ++ (if attDecls.any (fun d => d.res.rest = .panic) then ["panic-out-of-statement"] else [])
    ++ (if !loggers.isEmpty then ["named-loggers"] else [])
    ++ (if !effIsRoot then ["effective-named-logger"] else [])
    ++ (if !effIsRoot && loggers.any (fun l => l.additive) && !attIds.Nodup then ["same-appender-twice-along-chain"] else [])
    ++ (if !effIsRoot && apps.any (fun a => !a.chain.isEmpty) then ["filters-on-non-root-node"] else [])
    ++ (if hist.reconfs > 0 then ["reconf"] else [])
    ++ (if hist.reconfs > 0 && hist.configured then ["reconf-configured-handler"] else [])
    ++ (if !hist.configured then ["default-handler"] else [])
  if attIds.isEmpty || (apps.all (fun a => a.chain.isEmpty) && attDecls.all (fun d => d.res.results.isEmpty && d.res.rest = .ok)
      && loggers.isEmpty && hist.reconfs = 0) then "trivial" :: t else t

def handle : Handler := fun cas obs =>
  match cas, obs with
  | rootLv :: rl :: att :: apps :: rest, [implObs] =>
    match decNat rootLv, decNat rl, mapM? decNat (decList ',' att), mapM? decDecl (decList ',' apps),
          (if rest.length ≤ 4 then decPath rest[0]? else none), decHist rest[1]?,
          mapM? decLogger (decList ',' (rest[2]?.getD "~")),
          (match rest[3]? with | none => some "some::target".toList | some t => decStr t) with
    | some rootLv, some rl, some att, some decls, some path, some hist, some loggers, some target =>
      let n := decls.length
      if att.any (· ≥ n) || loggers.any (fun l => l.att.any (· ≥ n)) then badCase "attachment out of range" else
      if !path.isConfig && decls.any (fun d => d.entries.isNone || (d.entries.getD []).any fun e => match e with | .bad => true | _ => false)
      then badCase "bad entries need a configuration path" else
      -- what exists after loading: appenders whose `filters:` is not a sequence are gone, and
      -- `build_lossy` strips the references to them (C13)
      let built := decls.map (modelAppender path)
      let presentIds := (List.range n).filter fun i => ((built[i]?.map (·.1)).join).isSome
      let tablePresent : List (AppenderG Nat) := built.filterMap (·.1)
      let errs := (built.map (·.2)).foldl (· + ·) 0
      let strip (l : List Nat) := l.filter (presentIds.contains ·)
      let cfg : Config := {
        appenders := presentIds.map appName, rootLevel := rootLv,
        rootAppenders := (strip att).map appName,
        loggers := loggers.map fun l => { name := l.name, level := l.level, additive := l.additive,
                                          appenders := (strip l.att).map appName } }
      -- specification: effective logger and its chain by names, no tree, no indices
      let specLv := Tree.specLevel cfg target
      let admitted := admits specLv rl
      let chainNames := Tree.chain cfg (Tree.comps target).length (Tree.effective cfg target)
      let attIds := chainNames.filterMap appOfName
      let specTable : List (Option (AppenderG Nat)) := decls.map specAppender
      let specTableG : List (AppenderG Nat) := specTable.map fun o => o.getD { chain := [], result := fun _ => .ok }
      let h : HandlerId := if hist.configured then .configured else .default
      let wantRaw := (specTraceG specTableG specLv attIds id rl).map (viaHandler h)
      let wantEvents := observable decls wantRaw
      let want := renderTrace wantEvents
      let reachesPanic := admitted && attIds.any fun i => match specTable[i]? with
        | some (some a) => specDelivered rl (fns a.chain) && (List.range (attIds.count i)).any (fun k => a.result k = .panic)
        | _ => false
      -- model: tree of `SharedLogger::new`, `find`, fan-out, handler of the snapshot after the history
      let model : String :=
        match snapshotOf cfg tablePresent h target with
        | none => "PANIC"
        | some s0 =>
          -- every `set_config` installs an equal configuration: same table, same node for the target
          let s := s0.reconfigureWith handlerKeptAcrossSetConfig
            (List.replicate hist.reconfs (tablePresent, s0.nodeLevel, s0.attached))
          renderResult decls (LogResult.mapEvents (renumber presentIds) (s.log id rl))
      let model := if path = .configJson then model ++ " errs=" ++ toString errs else model
      let implCore := match splitOnChar ' ' implObs with
        | c :: _ => c
        | [] => implObs
      let resultOf (i k : Nat) : CallResult := match specTable[i]? with
        | some (some a) => a.result k
        | _ => .ok
      { model,
        spec :=
          if implObs = "CONFIG-ERROR" then "FAIL:config-not-loaded;sig=C03/config-path-not-loaded"
          else if reachesPanic then "ok"      -- a panicking appender is outside the statement
          else if implCore = "PANIC" || implCore.endsWith "!" then "FAIL:panic;sig=C03/panic" else
          match mapM? decEvent (decList ',' implCore) with
          | none => "FAIL:unreadable-observation;sig=C03/unreadable-observation"
          | some impl =>
            match specVerdict n admitted hist.configured resultOf wantEvents impl with
            | none => "ok"
            | some clause =>
              let sig :=
                if clause = "error-not-to-configured-handler" && hist.reconfs > 0 then "err-handler-lost-on-set-config"
                else if path.isConfig && (clause = "deliveries-differ" || clause = "filter-consultations-differ")
                   && admitted && explainedByReorder decls specTable rl wantEvents impl
                then "config-path-reorders-filters" else clause
              "FAIL:" ++ clause ++ " expected " ++ want ++ ";sig=C03/" ++ sig,
        tags := tagsOf decls path hist loggers attIds admitted rl specTable (Tree.effective cfg target).isNone }
    | _, _, _, _, _, _, _, _ => badCase "fields"
  | _, _ => badCase "arity"

end Driver.C03
