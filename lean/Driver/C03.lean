import Driver.Common
import Log4rsModel.Routing.Filters
/-
C03 driver.
case   : nodeLevel TAB recordLevel TAB attached TAB appenders
           attached  = `,`-list of appender numbers (the root logger's attachment list, repeats allowed)
           appenders = `,`-list of  chain;result   chain = `|`-list of A N R T<k>, result = ok | fail
observation (one field): the calls in order, `,`-separated: f<app>.<idx>  a<app>  h<app>   (`~` = none)
-/
namespace Driver.C03
open Log4rs.Proto Log4rs.Routing Log4rs Driver

def decFilter (s : String) : Option Filter :=
  match s with
  | "A" => some (.fixed .accept)
  | "N" => some (.fixed .neutral)
  | "R" => some (.fixed .reject)
  | _ => if s.startsWith "T" then ((s.drop 1).toString.toNat?).map Filter.threshold else none

def decAppender (s : String) : Option AppenderM :=
  match splitOnChar ';' s with
  | [ch, res] =>
    match mapM? decFilter (decList '|' ch), (if res = "ok" then some false else if res = "fail" then some true else none) with
    | some ch, some f => some { chain := ch, fails := f }
    | _, _ => none
  | _ => none

def renderEvent : Event → String
  | .filter a i => "f" ++ toString a ++ "." ++ toString i
  | .append a => "a" ++ toString a
  | .handler a => "h" ++ toString a

def renderTrace (tr : List Event) : String := encList "," (tr.map renderEvent)

def renderOutcome : Outcome Unit (List Event) → String
  | .ok tr => renderTrace tr
  | _ => "PANIC"

def tagsOf (table : List AppenderM) (nodeLevel : Nat) (attached : List Nat) (lvl : Nat) : List String :=
  let apps := attached.filterMap (table[·]?)
  let dec := apps.map fun a => firstDecisive lvl a.chain
  let t := (if !admits nodeLevel lvl then ["not-admitted"] else [])
    ++ (if dec.any (· = some .accept) then ["accept"] else [])
    ++ (if dec.any (· = some .reject) then ["reject"] else [])
    ++ (if apps.any (fun a => !a.chain.isEmpty && firstDecisive lvl a.chain = none) then ["all-neutral"] else [])
    ++ (if apps.any (fun a => specConsulted lvl a.chain < a.chain.length) then ["short-circuit"] else [])
    ++ (if apps.any (fun a => a.chain.any (fun f => match f with | .threshold _ => true | _ => false)) then ["threshold"] else [])
    ++ (if attached.any (specErrs table lvl) then ["error-handled"] else [])
    ++ (if apps.any (fun a => a.fails && !specDelivered lvl a.chain) then ["failing-but-rejected"] else [])
    ++ (if (attached.filter (specErrs table lvl)).length ≥ 2 then ["multi-error"] else [])
    ++ (if !attached.Nodup then ["attached-twice"] else [])
    ++ (if apps.any (fun a => a.chain.length > 5) then ["long-chain"] else [])
  if attached.isEmpty || apps.all (fun a => a.chain.isEmpty && !a.fails) then "trivial" :: t else t

def decEvent (s : String) : Option Event :=
  match s.toList with
  | 'f' :: rest =>
    match splitOnChar '.' (String.ofList rest) with
    | [a, i] => match a.toNat?, i.toNat? with
      | some a, some i => some (.filter a i)
      | _, _ => none
    | _ => none
  | 'a' :: rest => (String.ofList rest).toNat?.map Event.append
  | 'h' :: rest => (String.ofList rest).toNat?.map Event.handler
  | _ => none

def isHandler : Event → Bool
  | .handler _ => true
  | _ => false

def isAppend : Event → Bool
  | .append _ => true
  | _ => false

/-- The statement, evaluated on the calls the real code made. Per appender `i`: the sequence of its
own filter consultations and `append` calls is the one its own chain prescribes (once per
attachment), and the handler got exactly as many of its errors as it returned. The statement does
not fix how the calls of different appenders interleave, nor when the handler runs; that is left to
the correspondence check. -/
def specVerdict (table : List AppenderM) (nl : Nat) (att : List Nat) (rl : Nat) (impl : List Event) :
    Option String :=
  let want := specTrace table nl att rl
  if impl.any (fun e => e.app ≥ table.length) then some "call-to-unknown-appender"
  else if !admits nl rl && !impl.isEmpty then some "not-admitted-record-delivered"
  else
    let bad (f : Nat → Bool) := (List.range table.length).any f
    let own (i : Nat) (tr : List Event) := (project i tr).filter (fun e => !isHandler e)
    let cnt (p : Event → Bool) (i : Nat) (tr : List Event) := ((project i tr).filter p).length
    if bad (fun i => cnt isAppend i impl != cnt isAppend i want) then some "deliveries-differ"
    else if bad (fun i => own i impl != own i want) then some "filter-consultations-differ"
    else if bad (fun i => cnt isHandler i impl != cnt isHandler i want) then some "handler-calls-differ"
    else none

def handle : Handler := fun cas obs =>
  match cas, obs with
  | [nl, rl, att, apps], [implObs] =>
    match decNat nl, decNat rl, mapM? decNat (decList ',' att), mapM? decAppender (decList ',' apps) with
    | some nl, some rl, some att, some table =>
      if att.any (· ≥ table.length) then badCase "attachment out of range" else
      let want := renderTrace (specTrace table nl att rl)
      { model := renderOutcome (fanout table nl att rl),
        spec :=
          if implObs = "PANIC" then "FAIL:panic;sig=C03/panic" else
          match mapM? decEvent (decList ',' implObs) with
          | none => "FAIL:unreadable-observation;sig=C03/unreadable-observation"
          | some impl =>
            match specVerdict table nl att rl impl with
            | none => "ok"
            | some clause => "FAIL:" ++ clause ++ " expected " ++ want ++ ";sig=C03/" ++ clause,
        tags := tagsOf table nl att rl }
    | _, _, _, _ => badCase "fields"
  | _, _ => badCase "arity"

end Driver.C03
