import Driver.Common
namespace Driver.C03
open Driver

def handle : Handler := fun _ _ => badCase "unimplemented"

end Driver.C03
