import Driver.Common
import Log4rsModel.Routing.Filters
/-
C03 driver.
case   : nodeLevel TAB recordLevel TAB attached TAB appenders [TAB path]
           attached  = `,`-list of appender numbers (the root logger's attachment list, repeats allowed)
           appenders = `,`-list of  chain;result   chain = `|`-list of A N R T<k> t<k>, result = ok | fail
           T<k> = real threshold filter whose consultation is recorded, t<k> = the bare real
           `ThresholdFilter` object (its consultation is not observable, so the `f` call of that
           position is left out of the model's and the specification's rendering alike)
           path = builder (default) | config-yaml | config-json : how the harness constructs the
           configuration; the model's chain is the declared one on every path
observation (one field): the calls in order, `,`-separated: f<app>.<idx>  a<app>  h<app>   (`~` = none)
-/
namespace Driver.C03
open Log4rs.Proto Log4rs.Routing Log4rs Driver

/-- a filter and whether its consultation is observable -/
def decFilter (s : String) : Option (Filter × Bool) :=
  match s with
  | "A" => some (.fixed .accept, true)
  | "N" => some (.fixed .neutral, true)
  | "R" => some (.fixed .reject, true)
  | _ =>
    if s.startsWith "T" then ((s.drop 1).toString.toNat?).map fun k => (Filter.threshold k, true)
    else if s.startsWith "t" then ((s.drop 1).toString.toNat?).map fun k => (Filter.threshold k, false)
    else none

/-- the appender and the observability mask of its chain -/
def decAppender (s : String) : Option (AppenderM × List Bool) :=
  match splitOnChar ';' s with
  | [ch, res] =>
    match mapM? decFilter (decList '|' ch), (if res = "ok" then some false else if res = "fail" then some true else none) with
    | some ch, some f => some ({ chain := ch.map (·.1), fails := f }, ch.map (·.2))
    | _, _ => none
  | _ => none

/-- drop the consultations of bare threshold filters, which the harness cannot see -/
def observable (mask : List (List Bool)) (tr : List Event) : List Event :=
  tr.filter fun e => match e with
    | .filter a i => ((mask.getD a []).getD i true)
    | _ => true

inductive Path where
  | builder | configYaml | configJson
  deriving DecidableEq

def decPath : Option String → Option Path
  | none => some .builder
  | some "builder" => some .builder
  | some "config-yaml" => some .configYaml
  | some "config-json" => some .configJson
  | _ => none

/-- the chain the model attaches on a construction path (Routing/Filters.lean) -/
def chainOn (p : Path) (declared : List Filter) : List Filter :=
  match p with
  | .builder => builderChain declared
  | _ => (configChain (declared.map FilterEntry.ok)).1

def renderEvent : Event → String
  | .filter a i => "f" ++ toString a ++ "." ++ toString i
  | .append a => "a" ++ toString a
  | .handler a => "h" ++ toString a

def renderTrace (tr : List Event) : String := encList "," (tr.map renderEvent)

def renderOutcome : Outcome Unit (List Event) → String
  | .ok tr => renderTrace tr
  | _ => "PANIC"

def tagsOf (table : List AppenderM) (nodeLevel : Nat) (attached : List Nat) (lvl : Nat) : List String :=
  let apps := attached.filterMap (table[·]?)
  let dec := apps.map fun a => firstDecisive lvl a.chain
  let t := (if !admits nodeLevel lvl then ["not-admitted"] else [])
    ++ (if dec.any (· = some .accept) then ["accept"] else [])
    ++ (if dec.any (· = some .reject) then ["reject"] else [])
    ++ (if apps.any (fun a => !a.chain.isEmpty && firstDecisive lvl a.chain = none) then ["all-neutral"] else [])
    ++ (if apps.any (fun a => specConsulted lvl a.chain < a.chain.length) then ["short-circuit"] else [])
    ++ (if apps.any (fun a => a.chain.any (fun f => match f with | .threshold _ => true | _ => false)) then ["threshold"] else [])
    ++ (if attached.any (specErrs table lvl) then ["error-handled"] else [])
    ++ (if apps.any (fun a => a.fails && !specDelivered lvl a.chain) then ["failing-but-rejected"] else [])
    ++ (if (attached.filter (specErrs table lvl)).length ≥ 2 then ["multi-error"] else [])
    ++ (if !attached.Nodup then ["attached-twice"] else [])
    ++ (if apps.any (fun a => a.chain.length > 5) then ["long-chain"] else [])
    ++ (if apps.any (fun a => (a.chain.filter (fun f => match f with | .threshold _ => true | _ => false)).length ≥ 2)
        then ["multi-threshold"] else [])
    ++ (if apps.any (fun a => match a.chain with
          | .threshold x :: .threshold y :: _ => x != y
          | _ => false) then ["leading-thresholds-differ"] else [])
    ++ (if apps.any (fun a =>
          let rs := a.chain.map (·.respond lvl)
          match rs.findIdx? (· = .accept), a.chain.findIdx? (fun f => f.respond lvl = .reject && match f with | .threshold _ => true | _ => false) with
          | some i, some j => i < j && (rs.take i).all (· = .neutral)
          | _, _ => false) then ["accept-before-rejecting-threshold"] else [])
  if attached.isEmpty || apps.all (fun a => a.chain.isEmpty && !a.fails) then "trivial" :: t else t

def decEvent (s : String) : Option Event :=
  match s.toList with
  | 'f' :: rest =>
    match splitOnChar '.' (String.ofList rest) with
    | [a, i] => match a.toNat?, i.toNat? with
      | some a, some i => some (.filter a i)
      | _, _ => none
    | _ => none
  | 'a' :: rest => (String.ofList rest).toNat?.map Event.append
  | 'h' :: rest => (String.ofList rest).toNat?.map Event.handler
  | _ => none

def isHandler : Event → Bool
  | .handler _ => true
  | _ => false

def isAppend : Event → Bool
  | .append _ => true
  | _ => false

/-- The statement, evaluated on the calls the real code made. Per appender `i`: the sequence of its
own filter consultations and `append` calls is the one its own chain prescribes (once per
attachment), and the handler got exactly as many of its errors as it returned. The statement does
not fix how the calls of different appenders interleave, nor when the handler runs; that is left to
the correspondence check. -/
def specVerdict (table : List AppenderM) (nl : Nat) (_att : List Nat) (rl : Nat) (want impl : List Event) :
    Option String :=
  if impl.any (fun e => e.app ≥ table.length) then some "call-to-unknown-appender"
  else if !admits nl rl && !impl.isEmpty then some "not-admitted-record-delivered"
  else
    let bad (f : Nat → Bool) := (List.range table.length).any f
    let own (i : Nat) (tr : List Event) := (project i tr).filter (fun e => !isHandler e)
    let cnt (p : Event → Bool) (i : Nat) (tr : List Event) := ((project i tr).filter p).length
    if bad (fun i => cnt isAppend i impl != cnt isAppend i want) then some "deliveries-differ"
    else if bad (fun i => own i impl != own i want) then some "filter-consultations-differ"
    else if bad (fun i => cnt isHandler i impl != cnt isHandler i want) then some "handler-calls-differ"
    else none

def insertAll {α} (x : α) : List α → List (List α)
  | [] => [[x]]
  | y :: ys => (x :: y :: ys) :: (insertAll x ys).map (y :: ·)

def perms {α} : List α → List (List α)
  | [] => [[]]
  | x :: xs => (perms xs).flatMap (insertAll x)

/-- the chain interpreter on filters that keep the position they were declared at as a label -/
def runLabeled (lvl : Nat) : List (Nat × Filter) → List Nat × Bool
  | [] => ([], true)
  | (i, f) :: rest =>
    match f.respond lvl with
    | .accept => ([i], true)
    | .reject => ([i], false)
    | .neutral => let r := runLabeled lvl rest; (i :: r.1, r.2)

/-- Classifier for the signature only: is what appender `i` received explained by consulting its
declared filters in some OTHER order? (Chains of up to 6 filters; longer ones are not classified.) -/
def explainedByReorder (declared : List AppenderM) (mask : List (List Bool)) (att : List Nat) (rl : Nat)
    (impl : List Event) : Bool :=
  (List.range declared.length).any fun i =>
    match declared[i]? with
    | none => false
    | some a =>
      let own (tr : List Event) := (project i tr).filter (fun e => !isHandler e)
      let block (order : List (Nat × Filter)) : List Event :=
        let r := runLabeled rl order
        observable mask (r.1.map (Event.filter i) ++ (if r.2 then [Event.append i] else []))
      let times (b : List Event) := (List.replicate (att.count i) b).flatten
      let labelled := a.chain.zipIdx.map fun p => (p.2, p.1)
      a.chain.length ≤ 6 && own impl != times (block labelled) &&
        (perms labelled).any fun o => own impl == times (block o)

def handle : Handler := fun cas obs =>
  match cas, obs with
  | nl :: rl :: att :: apps :: rest, [implObs] =>
    match decNat nl, decNat rl, mapM? decNat (decList ',' att), mapM? decAppender (decList ',' apps),
          (if rest.length ≤ 1 then decPath rest.head? else none) with
    | some nl, some rl, some att, some decoded, some path =>
      let mask := decoded.map (·.2)
      let declared := decoded.map (·.1)
      if att.any (· ≥ declared.length) then badCase "attachment out of range" else
      -- model: the chain as the construction path attaches it; spec: the declared chain
      let table := declared.map fun a => { a with chain := chainOn path a.chain }
      let wantEvents := observable mask (specTrace declared nl att rl)
      let want := renderTrace wantEvents
      let viaConfig := path ≠ .builder
      { model := match fanout table nl att rl with
          | .ok tr => renderTrace (observable mask tr)
          | _ => "PANIC",
        spec :=
          if implObs = "PANIC" then "FAIL:panic;sig=C03/panic"
          else if implObs = "CONFIG-ERROR" then "FAIL:config-not-loaded;sig=C03/config-path-not-loaded" else
          match mapM? decEvent (decList ',' implObs) with
          | none => "FAIL:unreadable-observation;sig=C03/unreadable-observation"
          | some impl =>
            match specVerdict declared nl att rl wantEvents impl with
            | none => "ok"
            | some clause =>
              let sig :=
                if viaConfig && (clause = "deliveries-differ" || clause = "filter-consultations-differ")
                   && admits nl rl && explainedByReorder declared mask att rl impl
                then "config-path-reorders-filters" else clause
              "FAIL:" ++ clause ++ " expected " ++ want ++ ";sig=C03/" ++ sig,
        tags := (match path with
          | .builder => "path-builder" | .configYaml => "path-config-yaml" | .configJson => "path-config-json")
          :: (if mask.any (·.any (!·)) then ["bare-threshold"] else [])
          ++ tagsOf declared nl att rl }
    | _, _, _, _, _ => badCase "fields"
  | _, _ => badCase "arity"

end Driver.C03
