import Driver.Common
import Log4rsModel.Console.SpecFormatted
import Log4rsModel.Base.Level
/-
C18 driver. Three kinds of cases (fields after the property id):
  style    <text> <background> <intense>                 `-` | 0..7 ; `-` | 0 | 1
           observation: hex bytes written by `AnsiWriter::set_style`, or PANIC
  hl       <ansi|simple> <level 1..5> <tokens>           message `msg`
  hlf      <ansi|simple> <level 1..5> <message> <tokens> message = protocol string
           tokens, `,`-joined:  H  or  H/<fill>/<l|r>/<min>/<max>   open `{h(` … with these parameters
                                G/<fill>/<l|r>/<min>/<max>          open `{(`  (plain group)
                                E                                   close the innermost group
                                T<hex of UTF-8>  literal text,  L  `{l}`,  M  `{m}`
           <fill> = hex scalar value or `-` (space); <min>/<max> = decimal or `-`
           observation: hex bytes of `PatternEncoder::encode` into the writer, or PANIC / ERR
  console  <NO_COLOR> <CLICOLOR> <CLICOLOR_FORCE> <tty stdout?> <tty stderr?> <stdout|stderr> <tty_only>
           env values `-` (unset) | 0 | 1
           = the plan with the one appender <o|e><tty_only>a
  planp    like plan, plus <message> <tokens>: every appender uses that pattern (hlf token syntax,
           ordered parameters, no ESC) instead of the fixed one
  fsize    <limit> <o|e>  the target stream is a file that fails after <limit> bytes; observation rc= file=
  plan     <NO_COLOR> <CLICOLOR> <CLICOLOR_FORCE> <tty stdout?> <tty stderr?> <items>
           items, `,`-joined, in build order: <o|e><0|1><a|b|c>   target stdout/stderr, tty_only,
           builder call order a = .target().tty_only(), b = .tty_only().target(), c = config deserializer
           observation: `rc=<exit code> out=<hex> err=<hex>` of a child process that builds the
           ConsoleAppenders of the plan in order (pattern `{h({l} {m})}{n}`) and then lets each
           append one record per level
-/
namespace Driver.C18
open Log4rs Log4rs.Proto Log4rs.Console Log4rs.Console.Spec Driver

def decColor (s : String) : Option (Option Nat) :=
  if s = "-" then some none else
  match s.toNat? with
  | some n => if n < 8 then some (some n) else none
  | none => none

/-- `-` unset, `0`, `1`; outside the property's quantifier: `e` (the empty string), `00`, `f`
(`false`) — other Unicode strings, all `.one` for the code — and `x` (the byte 0xff, not Unicode) -/
def decEnvVal (s : String) : Option EnvVal :=
  if s = "-" then some .unset else if s = "0" then some .zero
  else if s = "1" || s = "e" || s = "00" || s = "f" then some .one
  else if s = "x" then some .nonUnicode else none

def decTarget (s : String) : Option Target :=
  if s = "stdout" then some .stdout else if s = "stderr" then some .stderr else none

def asciiBytes (s : String) : (List Nat) := s.toList.map Char.toNat

def levelBytes : Nat → (List Nat)
  | 1 => asciiBytes "ERROR" | 2 => asciiBytes "WARN" | 3 => asciiBytes "INFO"
  | 4 => asciiBytes "DEBUG" | 5 => asciiBytes "TRACE" | _ => []

def decParams (parts : List String) : Option Log4rs.Pattern.Params :=
  match parts with
  | [fill, al, mn, mx] =>
    let fill? : Option Char :=
      if fill = "-" then some ' ' else
      match hexNat? fill with
      | some n => if h : n.isValidChar then some (Char.ofNatAux n h) else none
      | none => none
    let right? : Option Bool := if al = "r" then some true else if al = "l" then some false else none
    match fill?, right?, decOpt decNat mn, decOpt decNat mx with
    | some f, some r, some mn, some mx => some { fill := f, right := r, minW := mn, maxW := mx }
    | _, _, _, _ => none
  | _ => none

inductive OpenKind where
  | highlight | group | debug | release
  deriving DecidableEq

/-- `H`, `H/…`, `G/…`, `D/…` (`{D(`), `R/…` (`{R(`) → (kind, parameters) -/
def decOpen (tok : String) : Option (OpenKind × Log4rs.Pattern.Params) :=
  match splitOnChar '/' tok with
  | ["H"] => some (.highlight, {})
  | "H" :: rest => (decParams rest).map fun p => (.highlight, p)
  | "G" :: rest => (decParams rest).map fun p => (.group, p)
  | "D" :: rest => (decParams rest).map fun p => (.debug, p)
  | "R" :: rest => (decParams rest).map fun p => (.release, p)
  | _ => none

/-- the harness (and with it log4rs) is built with `debug-assertions = true` (harness/Cargo.toml,
[profile.release]): `{D(..)}` is a plain group, `{R(..)}` an empty one -/
def debugBuild : Bool := true

/-- what `{nosuch}` compiles to: `Chunk::Error`, written as this text -/
def unknownFormatterText : List Char := "{ERROR: unknown formatter `nosuch`}".toList

/-- token list → chunk list; returns the unconsumed tokens (an `E` is left for the caller) -/
def parseChunks (level : Nat) (msg : List Char) : Nat → List String → Option (FChunks × List String)
  | 0, _ => none
  | _, [] => some (.nil, [])
  | fuel + 1, tok :: rest =>
    if tok = "E" then some (.nil, tok :: rest)
    else if tok = "L" then
      match parseChunks level msg fuel rest with
      | some (r, rest') => some (.text (levelName level).toList r, rest')
      | none => none
    else if tok = "M" then
      match parseChunks level msg fuel rest with
      | some (r, rest') => some (.text msg r, rest')
      | none => none
    else if tok = "U" then
      match parseChunks level msg fuel rest with
      | some (r, rest') => some (.text unknownFormatterText r, rest')
      | none => none
    else if tok.startsWith "T" then
      match (decBytes (tok.drop 1).toString).bind decodeUtf8, parseChunks level msg fuel rest with
      | some cs, some (r, rest') => some (.text cs r, rest')
      | _, _ => none
    else
      match decOpen tok with
      | none => none
      | some (k, p) =>
        match parseChunks level msg fuel rest with
        | some (inner, "E" :: rest') =>
          match parseChunks level msg fuel rest' with
          | some (r, rest'') =>
            some (match k with
              | .highlight => .highlight p inner r
              | .group => .group p inner r
              | .debug => .group p (if debugBuild then inner else .nil) r
              | .release => .group p (if debugBuild then .nil else inner) r, rest'')
          | none => none
        | _ => none

def decChunks (level : Nat) (msg : List Char) (s : String) : Option FChunks :=
  let toks := decList ',' s
  match parseChunks level msg (2 * toks.length + 2) toks with
  | some (cs, []) => some cs
  | _ => none

/-- nesting depth of highlight groups -/
def depth : FChunks → Nat
  | .nil => 0
  | .text _ rest => depth rest
  | .highlight _ inner rest => max (depth inner + 1) (depth rest)
  | .group _ inner rest => max (depth inner) (depth rest)

/-- nesting depth of all groups -/
def groupDepth : FChunks → Nat
  | .nil => 0
  | .text _ rest => groupDepth rest
  | .highlight _ inner rest => max (groupDepth inner + 1) (groupDepth rest)
  | .group _ inner rest => max (groupDepth inner + 1) (groupDepth rest)

structure FmtFacts where
  cut : Bool := false          -- some max width actually swallowed characters
  cutAll : Bool := false       -- … a group with content was cut to zero characters
  maxZero : Bool := false
  right : Bool := false
  minGtMax : Bool := false
  padded : Bool := false
  onHighlight : Bool := false  -- a highlight group itself carries a width
  aroundHighlight : Bool := false  -- a width-carrying group contains a highlight group

def FmtFacts.or (a b : FmtFacts) : FmtFacts :=
  { cut := a.cut || b.cut, cutAll := a.cutAll || b.cutAll, maxZero := a.maxZero || b.maxZero,
    right := a.right || b.right, minGtMax := a.minGtMax || b.minGtMax, padded := a.padded || b.padded,
    onHighlight := a.onHighlight || b.onHighlight, aroundHighlight := a.aroundHighlight || b.aroundHighlight }

def nodeFacts (level : Nat) (isH : Bool) (p : Log4rs.Pattern.Params) (inner : FChunks) : FmtFacts :=
  let n := (Log4rs.Pattern.Out.text (opsOf level inner)).length
  let has := p.minW.isSome || p.maxW.isSome
  { cut := match p.maxW with | some M => decide (M < max n (p.minW.getD 0)) | none => false
    cutAll := match p.maxW with | some M => M == 0 && decide (0 < n) | none => false
    maxZero := p.maxW == some 0
    right := p.right && p.minW.isSome
    minGtMax := match p.minW, p.maxW with | some m, some M => decide (M < m) | _, _ => false
    padded := match p.minW with | some m => decide (n < m) | none => false
    onHighlight := isH && has
    aroundHighlight := has && decide (0 < depth inner) }

def factsOf (level : Nat) : FChunks → FmtFacts
  | .nil => {}
  | .text _ rest => factsOf level rest
  | .highlight p inner rest => ((nodeFacts level true p inner).or (factsOf level inner)).or (factsOf level rest)
  | .group p inner rest => ((nodeFacts level false p inner).or (factsOf level inner)).or (factsOf level rest)

def renderOutcome : Outcome Unit (List Nat) → String
  | .ok bs => encBytes bs
  | .err _ => "ERR"
  | .panic _ => "PANIC"

def decObsBytes (s : String) : Option (Option (List Nat)) :=
  if s = "PANIC" then some none else (decBytes s).map some

/-- the pattern of the child process, `{h({l} {m})}{n}` with the message `msg` -/
def childPattern (level : Nat) : Chunks :=
  .highlight (.text (levelBytes level ++ asciiBytes " msg") .nil) (.text [10] .nil)

def childLevels : List Nat := [1, 2, 3, 4, 5]

def stripPrefix? (p s : String) : Option String :=
  if s.startsWith p then some (s.drop p.length).toString else none

def decConsoleObs (s : String) : Option (Nat × (List Nat) × (List Nat)) :=
  match splitOnChar ' ' s with
  | [a, b, c] =>
    match stripPrefix? "rc=" a, stripPrefix? "out=" b, stripPrefix? "err=" c with
    | some rc, some o, some e =>
      match rc.toNat?, decBytes o, decBytes e with
      | some rc, some o, some e => some (rc, o, e)
      | _, _, _ => none
    | _, _, _ => none
  | _ => none

def handleStyle (t b i implObs : String) : Answer :=
  match decColor t, decColor b, decOpt decBool i, decObsBytes implObs with
  | some t, some b, some i, some obs =>
    let s : Style := { text := t, background := b, intense := i }
    let n := (if t.isSome then 1 else 0) + (if b.isSome then 1 else 0) + (if i.isSome then 1 else 0)
    { model := renderOutcome (setStyle s)
      spec := (styleVerdict s obs).render
      tags := ["style", "attrs-" ++ toString n] ++ (if overflowClass s then ["f1-overflow-class"] else []) }
  | _, _, _, _ => badCase "style"

def handleHl (w lvl : String) (msg : List Char) (toks implObs : String) : Answer :=
  let kind? : Option WriterKind := if w = "ansi" then some .tty else if w = "simple" then some .raw else none
  match kind?, decNat lvl with
  | some kind, some level =>
    if level < 1 ∨ 5 < level then badCase "level" else
    match decChunks level msg toks with
    | none => badCase "tokens"
    | some f =>
      let spec :=
        if implObs = "PANIC" then Verdict.fail "the encoder panicked" "C18/hl-panic"
        else if implObs = "ERR" then Verdict.fail "the encoder failed" "C18/hl-error"
        else match decBytes implObs with
          | none => Verdict.fail "unreadable observation" "C18/hl-observation"
          | some bs =>
            formattedVerdict kind.isTty level f bs
      let d := depth f
      let ff := factsOf level f
      let flag (b : Bool) (t : String) : List String := if b then [t] else []
      { model := renderOutcome (encodeFormatted kind level f)
        spec := spec.render
        tags := ["hl", w, "level-" ++ toString level, "depth-" ++ toString (min d 4)]
          ++ flag (d = 0) "trivial" ++ flag (d ≥ 2) "nested"
          ++ flag (!f.unformatted) "fmt" ++ flag ff.onHighlight "fmt-on-highlight"
          ++ flag ff.aroundHighlight "fmt-around-highlight" ++ flag ff.cut "cut"
          ++ flag ff.cutAll "cut-to-zero" ++ flag ff.maxZero "maxw-0" ++ flag ff.right "right-align"
          ++ flag ff.padded "padded" ++ flag ff.minGtMax "min-gt-max"
          ++ flag (!f.unformatted) ("group-depth-" ++ toString (min (groupDepth f) 4))
          ++ flag (fOrdered f) "token-exact" ++ flag (!fEscFree f) "esc-in-content"
          ++ flag (!fOrdered f && !fEscFree f) "unspecified" }
  | _, _ => badCase "hl"

def decItem (s : String) : Option PlanItem :=
  match s.toList with
  | [t, b, o] =>
    let t? : Option Target := if t = 'o' then some .stdout else if t = 'e' then some .stderr else none
    let b? : Option Bool := if b = '1' then some true else if b = '0' then some false else none
    let o? : Option CallOrder :=
      if o = 'a' then some .targetThenTtyOnly else if o = 'b' then some .ttyOnlyThenTarget
      else if o = 'c' then some .viaConfig else if o = 'd' then some .viaConfigOmitDefaults else none
    match t?, b?, o? with
    | some t, some b, some o => some { target := t, ttyOnly := b, order := o }
    | _, _, _ => none
  | _ => none

/-- `pat` = none: the fixed child pattern `{h({l} {m})}{n}`; some (msg, tokens): that pattern -/
def handlePlan (nc cc cf to te items implObs : String) (single : Bool)
    (pat : Option (List Char × String) := none) : Answer :=
  let otherStrings := [nc, cc, cf].any fun v => v = "e" || v = "00" || v = "f"
  match decEnvVal nc, decEnvVal cc, decEnvVal cf, decBool to, decBool te, mapM? decItem (decList ',' items) with
  | some nc, some cc, some cf, some to, some te, some items =>
    let g : Global := { env := { noColor := nc, clicolor := cc, clicolorForce := cf }, ttyOut := to, ttyErr := te }
    let fpat? : Option (Nat → FChunks) := match pat with
      | none => some fun _ => .nil
      | some (msg, toks) =>
        if childLevels.all (fun l => match decChunks l msg toks with
            | some f => fOrdered f && fEscFree f | none => false)
        then some fun l => (decChunks l msg toks).getD .nil else none
    match fpat? with
    | none => badCase "planp needs a decodable, ordered, ESC-free pattern"
    | some fpat =>
    let run := match pat with
      | none => runPlan g items childPattern childLevels
      | some _ => runPlanFormatted g items fpat childLevels
    let want : Want := match pat with
      | none => chunksWant childPattern
      | some _ => formattedWant fpat
    let model := match run with
      | .ok st => "rc=0 out=" ++ encBytes st.out ++ " err=" ++ encBytes st.err
      | _ => "rc=3 out=_ err=_"
    let spec := match decConsoleObs implObs with
      | none => Verdict.fail "unreadable observation" "C18/console-observation"
      | some (rc, o, e) => planVerdict g items childLevels want rc o e
    let flag (b : Bool) (t : String) : List String := if b then [t] else []
    let itemTags (it : PlanItem) : List String :=
      let tty := g.isatty it.target
      [if tty then "target-tty" else "target-pipe",
       if it.target = .stdout then "stdout" else "stderr",
       if it.ttyOnly then "tty-only" else "unrestricted",
       if shouldWrite tty it.ttyOnly then "must-write" else "must-be-silent",
       if colourEnabled g.env tty then "colour" else "no-colour",
       match it.order with
       | .targetThenTtyOnly => "order-target-first" | .ttyOnlyThenTarget => "order-tty-only-first"
       | .viaConfig => "order-via-config" | .viaConfigOmitDefaults => "order-via-config-defaults"]
      ++ flag (itemF2Region g it) "f2-tty-only-colour-forced"
    { model
      spec := spec.render
      tags := ([if single then "console" else if pat.isSome then "planp" else "plan", "mode-" ++ (colorMode g.env).name,
                "appenders-" ++ toString (min items.length 3)]
        ++ flag (to != te) "streams-differ"
        ++ flag (items.any (·.target == .stdout) && items.any (·.target == .stderr)) "both-targets"
        ++ flag (leakRegion g items) "leak-region"
        ++ flag (to != te && items.any (·.ttyOnly)) "wrong-stream-region"
        ++ flag (!g.env.inQuantifier) "env-outside-quantifier"
        ++ flag otherStrings "env-other-strings"
        ++ items.flatMap itemTags).eraseDups }
  | _, _, _, _, _, _ => badCase "plan"

def handleConsole (nc cc cf to te tg tonly implObs : String) : Answer :=
  match decTarget tg, decBool tonly with
  | some tg, some tonly =>
    handlePlan nc cc cf to te ((if tg = .stdout then "o" else "e") ++ (if tonly then "1" else "0") ++ "a") implObs true
  | _, _ => badCase "console"

/-- `fsize <limit> <o|e>`: one unrestricted appender with colour forced (CLICOLOR_FORCE=1) whose
target is a file that accepts `limit` bytes (RLIMIT_FSIZE) and then fails every write.
observation: `rc=<exit code> file=<hex>` -/
def handleFsize (limit tg implObs : String) : Answer :=
  match decNat limit, (if tg = "o" then some Target.stdout else if tg = "e" then some Target.stderr else none) with
  | some limit, some _ =>
    let full : List Nat := childLevels.flatMap fun l => render (chunksWant childPattern true l)
    let modelFull := match childLevels.foldr (fun l acc => match encodeChunks .tty l (childPattern l), acc with
        | .ok a, some b => some (a ++ b) | _, _ => none) (some []) with
      | some bs => bs | none => []
    let d := deliver limit modelFull
    let model := "rc=" ++ (match d.1 with | .ok _ => "0" | _ => "4") ++ " file=" ++ encBytes d.2
    let spec := match splitOnChar ' ' implObs with
      | [a, b] =>
        match stripPrefix? "rc=" a, stripPrefix? "file=" b with
        | some rc, some f =>
          match rc.toNat?, decBytes f with
          | some rc, some f => failedStreamVerdict limit full rc f
          | _, _ => Verdict.fail "unreadable observation" "C18/fsize-observation"
        | _, _ => Verdict.fail "unreadable observation" "C18/fsize-observation"
      | _ => Verdict.fail "unreadable observation" "C18/fsize-observation"
    let cutInGroup := match scan d.2 with
      | some toks => !wellNested (sgrToks toks)
      | none => true
    { model, spec := spec.render,
      tags := ["fsize", if limit ≥ full.length then "fits" else "stream-fails"]
        ++ (if limit < full.length && cutInGroup then ["reset-lost-to-failure"] else []) }
  | _, _ => badCase "fsize"

def handle : Handler := fun cas obs =>
  match cas, obs with
  | ["style", t, b, i], [o] => handleStyle t b i o
  | ["hl", w, lvl, toks], [o] => handleHl w lvl "msg".toList toks o
  | ["hlf", w, lvl, msg, toks], [o] =>
    match decStr msg with
    | some m => handleHl w lvl m toks o
    | none => badCase "message"
  | ["console", nc, cc, cf, to, te, tg, tonly], [o] => handleConsole nc cc cf to te tg tonly o
  | ["plan", nc, cc, cf, to, te, items], [o] => handlePlan nc cc cf to te items o false
  | ["planp", nc, cc, cf, to, te, items, msg, toks], [o] =>
    match decStr msg with
    | some m => handlePlan nc cc cf to te items o false (some (m, toks))
    | none => badCase "message"
  | ["fsize", limit, tg], [o] => handleFsize limit tg o
  | _, _ => badCase "arity"

end Driver.C18
