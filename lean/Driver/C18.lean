import Driver.Common
import Log4rsModel.Console.Spec
/-
C18 driver. Three kinds of cases (fields after the property id):
  style    <text> <background> <intense>                 `-` | 0..7 ; `-` | 0 | 1
           observation: hex bytes written by `AnsiWriter::set_style`, or PANIC
  hl       <ansi|simple> <level 1..5> <tokens>           tokens: `,`-joined  H (open group) E (close)
           T<hex> (literal text) L (the level name)
           observation: hex bytes of `PatternEncoder::encode` into the writer, or PANIC / ERR
  console  <NO_COLOR> <CLICOLOR> <CLICOLOR_FORCE> <tty stdout?> <tty stderr?> <stdout|stderr> <tty_only>
           env values `-` (unset) | 0 | 1
           observation: `rc=<exit code> out=<hex> err=<hex>` of a child process that builds a
           ConsoleAppender with the pattern `{h({l} {m})}{n}` and appends one record per level
-/
namespace Driver.C18
open Log4rs Log4rs.Proto Log4rs.Console Log4rs.Console.Spec Driver

def decColor (s : String) : Option (Option Nat) :=
  if s = "-" then some none else
  match s.toNat? with
  | some n => if n < 8 then some (some n) else none
  | none => none

def decEnvVal (s : String) : Option EnvVal :=
  if s = "-" then some .unset else if s = "0" then some .zero else if s = "1" then some .one else none

def decTarget (s : String) : Option Target :=
  if s = "stdout" then some .stdout else if s = "stderr" then some .stderr else none

def asciiBytes (s : String) : Bytes := s.toList.map Char.toNat

def levelBytes : Nat → Bytes
  | 1 => asciiBytes "ERROR" | 2 => asciiBytes "WARN" | 3 => asciiBytes "INFO"
  | 4 => asciiBytes "DEBUG" | 5 => asciiBytes "TRACE" | _ => []

/-- token list → chunk list; returns the unconsumed tokens (an `E` is left for the caller) -/
def parseChunks (level : Nat) : Nat → List String → Option (Chunks × List String)
  | 0, _ => none
  | _, [] => some (.nil, [])
  | fuel + 1, tok :: rest =>
    if tok = "E" then some (.nil, tok :: rest)
    else if tok = "H" then
      match parseChunks level fuel rest with
      | some (inner, "E" :: rest') =>
        match parseChunks level fuel rest' with
        | some (r, rest'') => some (.highlight inner r, rest'')
        | none => none
      | _ => none
    else if tok = "L" then
      match parseChunks level fuel rest with
      | some (r, rest') => some (.text (levelBytes level) r, rest')
      | none => none
    else if tok.startsWith "T" then
      match decBytes (tok.drop 1).toString, parseChunks level fuel rest with
      | some bs, some (r, rest') => some (.text bs r, rest')
      | _, _ => none
    else none

def decChunks (level : Nat) (s : String) : Option Chunks :=
  let toks := decList ',' s
  match parseChunks level (2 * toks.length + 2) toks with
  | some (cs, []) => some cs
  | _ => none

def depth : Chunks → Nat
  | .nil => 0
  | .text _ rest => depth rest
  | .highlight inner rest => max (depth inner + 1) (depth rest)

def renderOutcome : Outcome Unit Bytes → String
  | .ok bs => encBytes bs
  | .err _ => "ERR"
  | .panic _ => "PANIC"

def decObsBytes (s : String) : Option (Option Bytes) :=
  if s = "PANIC" then some none else (decBytes s).map some

/-- the pattern of the child process, `{h({l} {m})}{n}` with the message `msg` -/
def childPattern (level : Nat) : Chunks :=
  .highlight (.text (levelBytes level ++ asciiBytes " msg") .nil) (.text [10] .nil)

def childLevels : List Nat := [1, 2, 3, 4, 5]

def stripPrefix? (p s : String) : Option String :=
  if s.startsWith p then some (s.drop p.length).toString else none

def decConsoleObs (s : String) : Option (Nat × Bytes × Bytes) :=
  match splitOnChar ' ' s with
  | [a, b, c] =>
    match stripPrefix? "rc=" a, stripPrefix? "out=" b, stripPrefix? "err=" c with
    | some rc, some o, some e =>
      match rc.toNat?, decBytes o, decBytes e with
      | some rc, some o, some e => some (rc, o, e)
      | _, _, _ => none
    | _, _, _ => none
  | _ => none

def handleStyle (t b i implObs : String) : Answer :=
  match decColor t, decColor b, decOpt decBool i, decObsBytes implObs with
  | some t, some b, some i, some obs =>
    let s : Style := { text := t, background := b, intense := i }
    let n := (if t.isSome then 1 else 0) + (if b.isSome then 1 else 0) + (if i.isSome then 1 else 0)
    { model := renderOutcome (setStyle s)
      spec := (styleVerdict s obs).render
      tags := ["style", "attrs-" ++ toString n] ++ (if overflowClass s then ["f1-overflow-class"] else []) }
  | _, _, _, _ => badCase "style"

def handleHl (w lvl toks implObs : String) : Answer :=
  let kind? : Option WriterKind := if w = "ansi" then some .tty else if w = "simple" then some .raw else none
  match kind?, decNat lvl with
  | some kind, some level =>
    if level < 1 ∨ 5 < level then badCase "level" else
    match decChunks level toks with
    | none => badCase "tokens"
    | some cs =>
      let spec :=
        if implObs = "PANIC" then Verdict.fail "the encoder panicked" "C18/hl-panic"
        else if implObs = "ERR" then Verdict.fail "the encoder failed" "C18/hl-error"
        else match decBytes implObs with
          | none => Verdict.fail "unreadable observation" "C18/hl-observation"
          | some bs => streamVerdict kind.isTty [level] (fun _ => cs) bs "C18/hl-"
      let d := depth cs
      { model := renderOutcome (encodeChunks kind level cs)
        spec := spec.render
        tags := ["hl", w, "level-" ++ toString level, "depth-" ++ toString (min d 4)]
          ++ (if d = 0 then ["trivial"] else [])
          ++ (if d ≥ 2 then ["nested"] else []) }
  | _, _ => badCase "hl"

def handleConsole (nc cc cf to te tg tonly implObs : String) : Answer :=
  match decEnvVal nc, decEnvVal cc, decEnvVal cf, decBool to, decBool te, decTarget tg, decBool tonly with
  | some nc, some cc, some cf, some to, some te, some tg, some tonly =>
    let s : Setup := { env := { noColor := nc, clicolor := cc, clicolorForce := cf },
                       ttyOut := to, ttyErr := te, target := tg, ttyOnly := tonly }
    let model := match appendAll s childPattern childLevels with
      | .ok st => "rc=0 out=" ++ encBytes st.out ++ " err=" ++ encBytes st.err
      | _ => "rc=3 out=_ err=_"
    let spec := match decConsoleObs implObs with
      | none => Verdict.fail "unreadable observation" "C18/console-observation"
      | some (rc, o, e) => consoleVerdict s childLevels childPattern rc o e
    let tty := s.targetIsatty
    { model
      spec := spec.render
      tags := ["console", "mode-" ++ (colorMode s.env).name,
               if tty then "target-tty" else "target-pipe",
               if tg = .stdout then "stdout" else "stderr",
               if tonly then "tty-only" else "unrestricted",
               if shouldWrite tty tonly then "must-write" else "must-be-silent",
               if colourEnabled s.env tty then "colour" else "no-colour"]
        ++ (if f2Region s then ["f2-tty-only-colour-forced"] else []) }
  | _, _, _, _, _, _, _ => badCase "console"

def handle : Handler := fun cas obs =>
  match cas, obs with
  | ["style", t, b, i], [o] => handleStyle t b i o
  | ["hl", w, lvl, toks], [o] => handleHl w lvl toks o
  | ["console", nc, cc, cf, to, te, tg, tonly], [o] => handleConsole nc cc cf to te tg tonly o
  | _, _ => badCase "arity"

end Driver.C18
