import Driver.Common
namespace Driver.C18
open Driver

def handle : Handler := fun _ _ => badCase "unimplemented"

end Driver.C18
