import Log4rsModel.Base.Proto
/- Shared plumbing of the line-protocol driver. A request line is
     <id> TAB <case fields…> TAB => TAB <implementation observation fields…>
   and the answer is
     <model observation> TAB <spec verdict on the implementation's observation> TAB <tags>
   where the verdict is `ok` or `FAIL:<clause>[;sig=<signature>]`. -/
namespace Driver
open Log4rs.Proto

structure Answer where
  model : String
  spec : String := "ok"
  tags : List String := []

def Answer.render (a : Answer) : String :=
  a.model ++ "\t" ++ a.spec ++ "\t" ++ (if a.tags.isEmpty then "-" else ",".intercalate a.tags)

def badCase (why : String) : Answer := { model := "bad-case:" ++ why, spec := "bad-case", tags := [] }

/-- split the fields at the `=>` marker -/
def splitObs (fields : List String) : List String × List String :=
  let pre := fields.takeWhile (· ≠ "=>")
  let post := (fields.dropWhile (· ≠ "=>")).drop 1
  (pre, post)

abbrev Handler := List String → List String → Answer

end Driver
