import Driver.Common
import Log4rsModel.Literals.Spec
namespace Driver.C20
open Log4rs.Proto Log4rs.Literals Driver

def decScalar (form payload : String) : Option Scalar :=
  match form with
  | "int" => (decInt payload).map Scalar.int
  | "str" => (decStr payload).map Scalar.str
  | "other" => some Scalar.other
  | _ => none

def renderSize : Option Nat → String
  | some v => "ok:" ++ toString v
  | none => "err"

def renderInterval : Option (TUnit × Int) → String
  | some (u, n) => "ok:" ++ u.name ++ ":" ++ toString n
  | none => "err"

def tagsOf (sc : Scalar) (accepted : Bool) : List String :=
  let form := match sc with
    | .int n => if n < 0 then "int-neg" else if n.toNat > I64_MAX then "int-big" else "int"
    | .str s =>
      let ds := s.takeWhile Log4rs.Str.isAsciiDigit
      let rest := s.dropWhile Log4rs.Str.isAsciiDigit
      if ds.isEmpty then "str-nodigit" else if rest.isEmpty then "str-bare"
      else if rest.any Log4rs.Str.isWhitespace then "str-unit-ws" else "str-unit"
    | .other => "other"
  [form, if accepted then "accept" else "reject"]

/-- signature of a spec failure, used by the known-findings classifier -/
def signature (kind : String) (sc : Scalar) : String :=
  match kind, sc with
  | "interval", .int n => if n.toNat > I64_MAX ∧ 0 ≤ n then "C20/interval-int-above-i64max" else "C20/interval-int"
  | k, .int _ => "C20/" ++ k ++ "-int"
  | k, .str _ => "C20/" ++ k ++ "-str"
  | k, .other => "C20/" ++ k ++ "-other"

def handle : Handler := fun cas obs =>
  match cas, obs with
  | [kind, form, payload], [implObs] =>
    match decScalar form payload with
    | none => badCase "scalar"
    | some sc =>
      if kind = "size" then
        let model := renderSize (exceptToOption (parseSize sc))
        let spec := renderSize (specSize sc)
        { model, spec := if implObs = spec then "ok" else "FAIL:size expected " ++ spec ++ ";sig=" ++ signature kind sc,
          tags := "size" :: tagsOf sc (specSize sc).isSome }
      else if kind = "interval" then
        let model := renderInterval (exceptToOption (parseInterval sc))
        let spec := renderInterval (specInterval sc)
        { model, spec := if implObs = spec then "ok" else "FAIL:interval expected " ++ spec ++ ";sig=" ++ signature kind sc,
          tags := "interval" :: tagsOf sc (specInterval sc).isSome }
      else badCase "kind"
  | _, _ => badCase "arity"

end Driver.C20
