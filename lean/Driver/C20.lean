import Driver.Common
import Log4rsModel.Literals.Spec
import Log4rsModel.Literals.DurationSpec
/-
C20 driver. Case forms: see harness/src/c20.rs. For every case it answers
  * the model's observation (`parseSize` / `parseInterval` / `parseRefresh` on the scalar the case denotes);
  * the Spec verdict on the implementation's observation. For the forms that carry the generator's
    INTENT (`int`, `lit`, `spans`, `other`, and the resolved scalar of `plain` when it is an integer)
    the expected observation is computed from the intent by arithmetic only — no text is parsed and
    no table of the model is used (`sizeWords`/`timeWords`/`refreshUnits` below are the statement's
    lists, the exponent of a size unit is its position); for raw strings (`str`, and `plain`
    resolving to a string) it is the executable `specSize`/`specInterval`/`expectRefresh`.
-/
namespace Driver.C20
open Log4rs.Proto Log4rs.Literals Log4rs.Literals.Dur Log4rs Driver

/-- the statement's unit words; the power of 1024 of entry `i` is `(i+1)/2` -/
def sizeWords : List String := ["b", "kb", "kib", "mb", "mib", "gb", "gib", "tb", "tib"]
/-- singular, plural; entry `i` names unit `i/2` -/
def timeWords : List String :=
  ["second", "seconds", "minute", "minutes", "hour", "hours", "day", "days", "week", "weeks", "month", "months",
   "year", "years"]
def timeNames : List String := ["second", "minute", "hour", "day", "week", "month", "year"]
/-- humantime's suffixes: word, sub-second?, multiplier in the unit's own resolution -/
def refreshUnits : List (String × Bool × Nat) :=
  [ ("nanos", true, 1), ("nsec", true, 1), ("ns", true, 1),
    ("usec", true, 1000), ("us", true, 1000), ("µs", true, 1000),
    ("millis", true, 1000000), ("msec", true, 1000000), ("ms", true, 1000000),
    ("seconds", false, 1), ("second", false, 1), ("secs", false, 1), ("sec", false, 1), ("s", false, 1),
    ("minutes", false, 60), ("minute", false, 60), ("min", false, 60), ("mins", false, 60), ("m", false, 60),
    ("hours", false, 3600), ("hour", false, 3600), ("hr", false, 3600), ("hrs", false, 3600), ("h", false, 3600),
    ("days", false, 86400), ("day", false, 86400), ("d", false, 86400),
    ("weeks", false, 604800), ("week", false, 604800), ("wk", false, 604800), ("wks", false, 604800), ("w", false, 604800),
    ("months", false, 2630016), ("month", false, 2630016), ("M", false, 2630016),
    ("years", false, 31557600), ("year", false, 31557600), ("yr", false, 31557600), ("yrs", false, 31557600),
    ("y", false, 31557600) ]

def ROLL_MAX : Nat := 2048

def applyMask (w : List Char) (mask : Nat) : List Char :=
  (w.zipIdx).map (fun (c, i) => if (mask >>> i) % 2 = 1 then c.toUpper else c)

def zeros (z : Nat) : List Char := List.replicate z '0'

def allDigits (s : String) : Bool := !s.isEmpty && s.toList.all Log4rs.Str.isAsciiDigit

structure Lit where
  n : Nat
  text : List Char          -- the composed literal
  unitIdx : Option Nat
  mutated : Option String   -- the reject reason, if the intent is an invalid literal
  wsBetween : Bool

def decLit (kind : String) (f : List String) : Option Lit :=
  match f with
  | [n, z, ws, unit, mask, ws2, mu] =>
    if !allDigits n then none else
    match n.toNat?, z.toNat?, decStr ws, mask.toNat?, decStr ws2 with
    | some nv, some zv, some wsv, some maskv, some ws2v =>
      if !(wsv.all Log4rs.Str.isWhitespace && ws2v.all Log4rs.Str.isWhitespace) then none else
      let words := if kind = "size" then sizeWords else timeWords
      let unit? : Option (Option Nat) :=
        if unit = "-" then some none else
        match unit.toNat? with
        | some i => if i < words.length then some (some i) else none
        | none => none
      match unit? with
      | none => none
      | some ui =>
        let number := zeros zv ++ n.toList
        let word := match ui with
          | some i => applyMask (words.getD i "").toList maskv
          | none => []
        let plainText := number ++ wsv ++ word ++ ws2v
        let mk (t : List Char) (m : Option String) : Option Lit :=
          some { n := nv, text := t, unitIdx := ui, mutated := m, wsBetween := !wsv.isEmpty }
        if mu = "-" then
          -- a bare number followed by white space only is not a literal (reading decision, Spec.lean)
          mk plainText (if ui.isNone ∧ !(wsv.isEmpty ∧ ws2v.isEmpty) then some "ws-only-rest" else none)
        else if mu = "neg" then mk ('-' :: plainText) (some "negative")
        else if mu = "plus" then mk ('+' :: plainText) (some "sign")
        else if mu.startsWith "frac." then
          let d := (mu.drop 5).toString
          if allDigits d then mk (number ++ ['.'] ++ d.toList ++ wsv ++ word ++ ws2v) (some "fraction") else none
        else if mu.startsWith "lead." then
          match decStr (mu.drop 5).toString with
          | some l => if l.isEmpty then none else mk (l ++ plainText) (some "leading")
          | none => none
        else if mu.startsWith "gap." then
          match decStr (mu.drop 4).toString with
          | some g => if g.isEmpty then none else mk (number ++ wsv ++ g ++ word ++ ws2v) (some "gap")
          | none => none
        else if mu.startsWith "sfx." then
          match decStr (mu.drop 4).toString with
          | some x => if x.isEmpty then none else mk (number ++ wsv ++ word ++ x ++ ws2v) (some "suffix")
          | none => none
        else none
    | _, _, _, _, _ => none
  | _ => none

def renderSize : Option Nat → String
  | some v => "ok:" ++ toString v
  | none => "err"

def renderInterval : Option (TUnit × Int) → String
  | some (u, n) => "ok:" ++ u.name ++ ":" ++ toString n
  | none => "err"

def renderOutcome {α} (f : Option α → String) : Outcome Err α → String
  | .ok a => f (some a)
  | .err _ => f none
  | .panic _ => "PANIC"

def renderDur : R Dur → String
  | .ok d => "ok:" ++ toString d.secs ++ ":" ++ toString d.nanos
  | .err _ => "err"
  | .panic _ => "PANIC"

def decResolved (rform payload : String) : Option Visit :=
  match rform with
  | "u64" => match payload.toNat? with
    | some v => if h : v < 2 ^ 64 then some (.u64 v h) else none
    | none => none
  | "i64" => match payload.toInt? with
    | some v => if h : -(2 ^ 63 : Int) ≤ v ∧ v < 2 ^ 63 then some (.i64 v h) else none
    | none => none
  | "str" => (decStr payload).map Visit.str
  | "other" => some .other
  | _ => none

/-- the rolling run: a size limit of at most `ROLL_MAX` bytes is also exercised — the record that makes
the file exactly `limit` bytes long must not roll (0), one more byte must (1) -/
def withRoll (roll : Bool) (obs : String) (v : Option Nat) : String :=
  match v with
  | some n => if roll ∧ n ≤ ROLL_MAX then obs ++ " roll=01" else obs
  | none => obs

def edgeTags (value limit step : Nat) : List String :=
  if limit ≤ value + 2 * step ∧ value < limit then ["edge:below"]
  else if limit ≤ value ∧ value < limit + step then ["edge:at"]
  else if limit + step ≤ value ∧ value < limit + 3 * step then ["edge:above"]
  else []

structure Verdict where
  model : String
  expected : String          -- what the statement demands of the observation
  sig : String
  tags : List String

def finishV (kind : String) (implObs : String) (v : Verdict) : Answer :=
  { model := v.model,
    spec := if implObs = v.expected then "ok"
            else "FAIL:" ++ kind ++ " expected " ++ v.expected ++ ";sig=" ++ v.sig,
    tags := kind :: v.tags }

/-- tags of a raw string, by the shape of the text -/
def strTags (s : List Char) : List String :=
  let ds := s.takeWhile Log4rs.Str.isAsciiDigit
  let rest := s.dropWhile Log4rs.Str.isAsciiDigit
  if ds.isEmpty then ["str-nodigit"] else if rest.isEmpty then ["str-bare"]
  else if rest.all Log4rs.Str.isWhitespace then ["str-ws-only-rest"]
  else if rest.any Log4rs.Str.isWhitespace then ["str-unit-ws"] else ["str-unit"]

def acceptTag {α} (o : Option α) : String := if o.isSome then "accept" else "reject"

/-- size / interval on a scalar with the executable Spec -/
def onScalar (kind : String) (sc : Visit) (roll : Bool) (sigTail : String) (tags : List String) : Verdict :=
  if kind = "size" then
    let sp := specSize sc
    { model := withRoll roll (renderOutcome renderSize (visitSize sc)) (toOpt (visitSize sc)),
      expected := withRoll roll (renderSize sp) sp,
      sig := "C20/size-" ++ sigTail, tags := acceptTag sp :: tags }
  else
    let sp := specInterval sc
    { model := renderOutcome renderInterval (visitInterval sc), expected := renderInterval sp,
      sig := "C20/interval-" ++ sigTail, tags := acceptTag sp :: tags }

def trivialSmall (n : Nat) (tags : List String) : List String :=
  if n < 1000 then "trivial" :: tags else tags

def handleTrigger (kind : String) (rest : List String) (implObs : String) : Answer :=
  match rest with
  | ["int", tok] =>
    match tok.toInt? with
    | none => badCase "int"
    | some n =>
      let sc := (Scalar.int n).visit
      -- intent: a bare number means bytes / seconds; negative and out-of-range values are rejected
      let limit : Nat := if kind = "size" then 2 ^ 64 else 2 ^ 63
      let accepted := 0 ≤ n ∧ n.toNat < limit
      let expected :=
        if kind = "size" then
          withRoll true (if accepted then "ok:" ++ toString n.toNat else "err") (if accepted then some n.toNat else none)
        else if accepted then "ok:second:" ++ toString n.toNat else "err"
      let model (s : Visit) : String :=
        if kind = "size" then withRoll true (renderOutcome renderSize (visitSize s)) (toOpt (visitSize s))
        else renderOutcome renderInterval (visitInterval s)
      -- every TOML integer arrives through `visit_i64`: both routes must give the same answer
      let m := model sc
      let m := match (Scalar.int n).visitToml with
        | some t => if model t = m then m else "MODEL-LEGS-DISAGREE jy=" ++ m ++ " toml=" ++ model t
        | none => m
      let form := if n < 0 then (if n < -(2 ^ 63 : Int) then "int-below-i64" else "int-neg")
        else if n.toNat ≥ 2 ^ 64 then "int-above-u64" else if n.toNat ≥ 2 ^ 63 then "int-above-i64" else "int"
      let sg := if kind = "interval" ∧ 0 ≤ n ∧ n.toNat > I64_MAX ∧ n.toNat ≤ U64_MAX then "C20/interval-int-above-i64max"
        else "C20/" ++ kind ++ "-int"
      let tags := [form, if accepted then "accept" else "reject"] ++ edgeTags n.toNat limit 1 ++
          (if accepted ∧ n.toNat < 1000 ∧ n.toNat > 10 then ["trivial"] else [])
      finishV kind implObs (Verdict.mk m expected sg tags)
  | ["str", enc] =>
    match decStr enc with
    | none => badCase "str"
    | some s => finishV kind implObs (onScalar kind (.str s) true "str" (strTags s))
  | "lit" :: f =>
    match decLit kind f with
    | none => badCase "lit"
    | some l =>
      let sc := Visit.str l.text
      -- intent oracle: number x 1024^k below 2^64 / number below 2^63 with the named unit
      let (expected, acc, tags) : String × Bool × List String :=
        match l.mutated with
        | some why => ("err", false, ["reject:" ++ why])
        | none =>
          if kind = "size" then
            let k := match l.unitIdx with | some i => (i + 1) / 2 | none => 0
            let v := l.n * 1024 ^ k
            let ok := v < 2 ^ 64
            (withRoll true (if ok then "ok:" ++ toString v else "err") (if ok then some v else none), ok,
              (if ok then [] else ["reject:overflow"]) ++ edgeTags v (2 ^ 64) (1024 ^ k))
          else
            let name := match l.unitIdx with | some i => timeNames.getD (i / 2) "?" | none => "second"
            let ok := l.n < 2 ^ 63
            (if ok then "ok:" ++ name ++ ":" ++ toString l.n else "err", ok,
              (if ok then [] else ["reject:overflow"]) ++ edgeTags l.n (2 ^ 63) 1)
      let unitTag := match l.unitIdx with
        | some i => "unit:" ++ (if kind = "size" then sizeWords else timeWords).getD i "?"
        | none => "unit:none"
      let model :=
        if kind = "size" then withRoll true (renderOutcome renderSize (visitSize sc)) (toOpt (visitSize sc))
        else renderOutcome renderInterval (visitInterval sc)
      let allTags := ["lit", unitTag, if acc then "accept" else "reject", if l.wsBetween then "ws" else "no-ws"] ++ tags ++
          (if acc ∧ l.unitIdx.isNone ∧ l.n < 1000 then ["trivial"] else [])
      finishV kind implObs (Verdict.mk model expected ("C20/" ++ kind ++ "-lit") allTags)
  | ["other", what] =>
    if ["null", "float", "ifloat", "efloat", "bool", "seq", "map"].contains what then
      finishV kind implObs { (onScalar kind .other false "other" ["other", "reject:type"]) with expected := "err" }
    else badCase "other"
  | ["plain", fmt, text, rform, payload] =>
    if !["yaml", "json", "toml"].contains fmt then badCase "fmt" else
    match decStr text, decResolved rform payload with
    | some _, some sc =>
      finishV kind implObs (onScalar kind sc (fmt = "yaml") ("plain-" ++ rform) ["plain", "plain:" ++ fmt, "plain:" ++ rform])
    | _, _ => badCase "plain"
  | _ => badCase "form"

/-- refresh_rate: verdict from an expectation -/
def refreshVerdict (implObs : String) (e : Expect) (exactlyMax : Bool) : String :=
  let okStr (s n : Nat) := "ok:" ++ toString s ++ ":" ++ toString n
  if implObs = "PANIC" then
    "FAIL:refresh_rate panics instead of reporting an error;sig=" ++
      (if exactlyMax then "C20/refresh-sum-exactly-2^64-seconds-panics" else "C20/refresh-panic")
  else match e with
    | .unclaimed => if implObs = "err" ∨ implObs.startsWith "ok:" ∨ implObs = "none" then "ok" else "FAIL:refresh observation;sig=C20/refresh-observation"
    | .reject => if implObs = "err" then "ok" else "FAIL:refresh expected err;sig=C20/refresh-junk-or-overflow-accepted"
    | .accept s n => if implObs = okStr s n then "ok" else "FAIL:refresh expected " ++ okStr s n ++ ";sig=C20/refresh-value"
    | .either s n => if implObs = "err" ∨ implObs = okStr s n then "ok" else "FAIL:refresh expected err or " ++ okStr s n ++ ";sig=C20/refresh-value"

def expectTag : Expect → String
  | .accept _ _ => "accept" | .reject => "reject" | .either _ _ => "either" | .unclaimed => "unclaimed"

structure Span where
  n : Nat
  text : List Char
  sub : Bool
  mult : Nat

def decSpan (s : String) : Option Span :=
  match splitOnChar ';' s with
  | [n, z, ws, unit, sep] =>
    if !allDigits n then none else
    match n.toNat?, z.toNat?, decStr ws, unit.toNat?, decStr sep with
    | some nv, some zv, some wsv, some ui, some sepv =>
      if !(wsv.all Log4rs.Str.isWhitespace && sepv.all Log4rs.Str.isWhitespace) then none else
      match refreshUnits[ui]? with
      | some (w, sub, mult) => some { n := nv, text := zeros zv ++ n.toList ++ wsv ++ w.toList ++ sepv, sub, mult }
      | none => none
    | _, _, _, _, _ => none
  | _ => none

/-- the statement on spans given by intent (number, multiplier): arithmetic only -/
def expectIntent (spans : List Span) : Expect × Bool :=
  let nanosOf (p : Span) : Nat := if p.sub then p.n * p.mult else p.n * p.mult * 1000000000
  let tot := (spans.map nanosOf).sum
  let e : Expect :=
    if spans.any (fun p => decide (p.n ≥ 2 ^ 64) || decide (p.n * p.mult ≥ 2 ^ 64)) then .reject
    else if tot ≥ 2 ^ 64 * 1000000000 then .reject
    else if spans.all (fun p => !p.sub || decide (p.n * p.mult + 1000000000 ≤ 2 ^ 64)) then
      .accept (tot / 1000000000) (tot % 1000000000)
    else .either (tot / 1000000000) (tot % 1000000000)
  (e, tot = 2 ^ 64 * 1000000000)

/-- does some prefix of the text read as spans that sum to exactly 2^64 seconds? (names the input
class of the `Duration::new` panic for raw strings) -/
def prefixSumsToMax (s : List Char) : Bool :=
  (List.range (s.length + 1)).any (fun k =>
    let p := s.take k
    if p.any (· = '.') then false else
    match durRead (p.length + 1) p with
    | some spans => total spans = 2 ^ 64 * NPS
    | none => false)

def handleRefresh (rest : List String) (implObs : String) : Answer :=
  match rest with
  | ["spans", field] =>
    match mapM? decSpan (splitOnChar ',' field) with
    | none => badCase "spans"
    | some spans =>
      let text := spans.flatMap (·.text)
      let (e, mx) := expectIntent spans
      { model := renderDur (parseRefresh text), spec := refreshVerdict implObs e mx,
        tags := ["refresh", "spans", "spans:" ++ (if spans.length ≥ 3 then "3+" else toString spans.length), expectTag e] ++
          (if mx then ["sum=2^64s"] else []) ++ (if spans.any (·.sub) then ["sub-second"] else []) }
  | ["str", enc] =>
    match decStr enc with
    | none => badCase "str"
    | some s =>
      let e := expectRefresh s
      let mx := prefixSumsToMax s
      { model := renderDur (parseRefresh s),
        spec := refreshVerdict implObs e mx,
        tags := ["refresh", "str", expectTag e] ++ (if s.any (· = '.') then ["fraction"] else []) ++
          (if mx then ["sum=2^64s"] else []) }
  | ["int", tok] =>
    match tok.toInt? with
    | none => badCase "int"
    | some _ =>
      -- `de_duration` has `visit_str` only
      { model := "err", spec := refreshVerdict implObs .unclaimed false, tags := ["refresh", "int", "unclaimed"] }
  | ["other", what] =>
    if ["null", "float", "ifloat", "efloat", "bool", "seq", "map"].contains what then
      { model := if what = "null" then "none" else "err",
        spec := if what = "null" then (if implObs = "none" then "ok" else "FAIL:refresh null;sig=C20/refresh-null")
                else refreshVerdict implObs .reject false,
        tags := ["refresh", "other"] }
    else badCase "other"
  | ["plain", fmt, text, rform, payload] =>
    if !["yaml", "json", "toml"].contains fmt then badCase "fmt" else
    match decStr text, decResolved rform payload with
    | some _, some (Visit.str s) =>
      { model := renderDur (parseRefresh s), spec := refreshVerdict implObs (expectRefresh s) false,
        tags := ["refresh", "plain", "plain:str"] }
    | some _, some _ =>
      { model := "err", spec := refreshVerdict implObs .unclaimed false, tags := ["refresh", "plain", "unclaimed"] }
    | _, _ => badCase "plain"
  | _ => badCase "form"

def handle : Handler := fun cas obs =>
  match cas, obs with
  | kind :: rest, [implObs] =>
    if kind = "size" ∨ kind = "interval" then handleTrigger kind rest implObs
    else if kind = "refresh" then handleRefresh rest implObs
    else badCase "kind"
  | _, _ => badCase "arity"

end Driver.C20
