import Driver.Common
namespace Driver.C11
open Driver

def handle : Handler := fun _ _ => badCase "unimplemented"

end Driver.C11
