import Driver.Common
import Log4rsModel.Pattern.Encode
/-
C11 driver. Case: pattern, record fields, thread name, MDC. The implementation's observation
carries, after outcome and operation stream, the environment facts the model takes as inputs
(build profile, pid, tid, digit masking flag, and per date format of the pattern what chrono
answered). The model's observation echoes those facts so that equal behaviour gives equal lines.
-/
namespace Driver.C11
open Log4rs Log4rs.Proto Log4rs.Pattern Log4rs.Pattern.Parse Driver

/-- non-ASCII sample characters of the generators: (code point, alphabetic, alphanumeric); the
harness asserts at start-up that Rust classifies them this way (`c11.rs: SAMPLE_CHARS`) -/
def sampleTable : List (Nat × Bool × Bool) := [
  (0xe9, true, true), (0xdf, true, true), (0x3a9, true, true), (0x4e2d, true, true),
  (0xaa, true, true), (0x2177, true, true),
  (0x663, false, true), (0xb2, false, true), (0xbd, false, true),
  (0x1f600, false, false), (0x301, false, false), (0x200b, false, false), (0xa0, false, false),
  (0x2192, false, false), (0xff5b, false, false)]

def lookupSample (n : Nat) : Option (Bool × Bool) :=
  (sampleTable.find? (fun e => e.1 = n)).map (·.2)

def driverClass : CharClass where
  alpha c := if c.toNat < 128 then asciiAlpha c else ((lookupSample c.toNat).map (·.1)).getD false
  alnum c :=
    if c.toNat < 128 then asciiAlnum c
    else ((lookupSample c.toNat).map (·.2)).getD false

def classifiable (s : List Char) : Bool :=
  s.all (fun c => c.toNat < 128 || (lookupSample c.toNat).isSome)

structure DateFact where
  fmt : List Char
  utc : Bool
  /-- rendering succeeds -/
  ok : Bool
  /-- the Utc trial rendering (what the construction-time check asks) succeeds -/
  probeOk : Bool
  text : List Char

structure Facts where
  debug : Bool
  pid : Nat
  tid : Nat
  masked : Bool
  dates : List DateFact
  /-- `Local::now().offset()` of the exec process, seconds east of UTC (the harness sets a
  non-UTC zone; 0 means the zone was not applied) -/
  tzOffset : Int
  raw : String

def decDateFact (s : String) : Option DateFact :=
  match splitOnChar ';' s with
  | [f, u, o, i, t] => do
    let fmt ← decStr f
    let utc ← decBool u
    let ok ← decBool o
    let probeOk ← decBool i
    let text ← decStr t
    pure { fmt, utc, ok, probeOk, text }
  | _ => none

def decFacts (fs : List String) : Option Facts :=
  match fs with
  | [d, p, t, m, ds, tz] => do
    let debug ← decBool d
    let pid ← decNat p
    let tid ← decNat t
    let masked ← decBool m
    let dates ← mapM? decDateFact (decList ',' ds)
    let tzOffset ← decInt tz
    pure { debug, pid, tid, masked, dates, tzOffset, raw := " ".intercalate fs }
  | _ => none

structure Case where
  pattern : List Char
  record : Record
  thread : Option (List Char)
  mdc : List (List Char × List Char)

def decKV (s : String) : Option (List Char × List Char) :=
  match splitOnChar ';' s with
  | [k, v] => do pure ((← decStr k), (← decStr v))
  | _ => none

def decCase (fs : List String) : Option Case :=
  match fs with
  | [p, l, m, t, mo, fi, li, th, md] => do
    let pattern ← decStr p
    let level ← decNat l
    let message ← decStr m
    let target ← decStr t
    let module ← decOpt decStr mo
    let file ← decOpt decStr fi
    let line ← decOpt decNat li
    let thread ← decOpt decStr th
    let mdc ← mapM? decKV (decList ',' md)
    if level < 1 || level > 5 then none else
    pure { pattern, record := { level, message, target, module, file, line }, thread, mdc }
  | _ => none

def findDate (ds : List DateFact) (fmt : List Char) (utc : Bool) : Option DateFact :=
  ds.find? (fun d => d.fmt = fmt && d.utc = utc)

/-- chrono's verdict on a format (the model takes it to depend on the format only): the trial
rendering's answer -/
def renderVerdict (f : Facts) (fmt : List Char) : Bool :=
  ((f.dates.find? (fun d => d.fmt = fmt)).map (·.probeOk)).getD false

/-- is the modelling assumption met on this case's facts: every rendering (Utc and Local, at encode
time) answers like the trial rendering -/
def verdictsAgree (f : Facts) : Bool := f.dates.all (fun d => d.ok == d.probeOk)

def envOf (c : Case) (f : Facts) : Env where
  strftimeOk fmt := renderVerdict f fmt
  dateText fmt utc := ((findDate f.dates fmt utc).map (·.text)).getD []
  threadName := c.thread
  threadId := f.tid
  pid := f.pid
  mdc := c.mdc
  debugBuild := f.debug

/-- mirror of `c11.rs: widths_sane`: every maximal run of ASCII digits has a value below 4096 -/
def widthsSaneAux : List Char → List Char → Bool
  | [], run => Str.digitsVal run.reverse < 4096
  | c :: r, run =>
    if Str.isAsciiDigit c then widthsSaneAux r (c :: run)
    else Str.digitsVal run.reverse < 4096 && widthsSaneAux r []

def widthsSane (s : List Char) : Bool := widthsSaneAux s []

def maskDigits (masked : Bool) (s : List Char) : List Char :=
  if masked then s.map (fun c => if Str.isAsciiDigit c then '#' else c) else s

def renderStyle (s : Style) : String :=
  "S" ++ encOpt toString s.text ++ "/" ++ encOpt toString s.background ++ "/" ++ encOpt encBool s.intense

/-- the operation stream as the harness prints it: adjacent characters form one text item -/
def renderOpsAux (masked : Bool) : Out → List Char → List String → List String
  | [], run, acc =>
    (if run.isEmpty then acc else ("T" ++ encStr (maskDigits masked run.reverse)) :: acc).reverse
  | .ch c :: r, run, acc => renderOpsAux masked r (c :: run) acc
  | .style s :: r, run, acc =>
    let acc := if run.isEmpty then acc else ("T" ++ encStr (maskDigits masked run.reverse)) :: acc
    renderOpsAux masked r [] (renderStyle s :: acc)

def renderOps (masked : Bool) (o : Out) : String := encList "," (renderOpsAux masked o [] [])

/-- text of the implementation's operation stream (style items dropped) -/
def implText (ops : String) : Option (List Char) :=
  if ops = "-" then none else
  (mapM? (fun (it : String) =>
      if it.startsWith "T" then decStr (it.drop 1).toString
      else if it.startsWith "S" then some []
      else none) (decList ',' ops)).map List.flatten

def errSlug (e : List Char) : String :=
  let w := String.ofList (e.takeWhile (fun c => c ≠ '\'' && c ≠ '`'))
  "error:" ++ (w.trimAscii.toString.replace " " "-")

def firstError : List Chunk → Option (List Chunk × List Char)
  | [] => none
  | .error e :: _ => some ([], e)
  | c :: cs => (firstError cs).map (fun (pre, e) => (c :: pre, e))

mutual
def hasNestedError : Chunk → Bool
  | .group _ cs _ => hasErrorL cs
  | _ => false
def hasErrorL : List Chunk → Bool
  | [] => false
  | .error _ :: _ => true
  | c :: cs => hasNestedError c || hasErrorL cs
end

def hasSpec : Chunk → Bool
  | .leaf _ p => p.minW.isSome || p.maxW.isSome
  | .group _ _ p => p.minW.isSome || p.maxW.isSome
  | _ => false

def profile : Profile := Profile.debug64

/-- the model's observation for a case and the environment facts (shared with the C09 driver) -/
def modelObs (c : Case) (f : Facts) : String :=
  let tail := " " ++ f.raw
  match parse driverClass profile c.pattern with
  | .err _ => "model-out-of-fuel"
  | .panic _ => "PANIC:new -" ++ tail
  | .ok pieces =>
    let missing := (neededFormatsL pieces).filter (fun fm => (f.dates.find? (fun d => d.fmt = fm)).isNone)
    let chunks := compileL (Build.current (envOf c f)) pieces
    if !missing.isEmpty then "need-date:" ++ encStr missing.head! ++ tail
    else if !widthsSane c.pattern then "new-only -" ++ tail
    else
      match encList (envOf c f) c.record chunks with
      | .ok o => "ok " ++ renderOps f.masked o ++ tail
      | .panic _ => "PANIC:encode -" ++ tail
      | .err _ => "err -" ++ tail

/-- the style calls of the implementation's operation stream -/
def implStyles (ops : String) : Option (List Style) :=
  if ops = "-" then none else
  (mapM? (fun (it : String) =>
      if it.startsWith "T" then some none
      else if it.startsWith "S" then
        match splitOnChar '/' (it.drop 1).toString with
        | [t, b, i] => do
          let text ← decOpt decNat t
          let background ← decOpt decNat b
          let intense ← decOpt decBool i
          pure (some ({ text, background, intense } : Style))
        | _ => none
      else none) (decList ',' ops)).map (fun l => l.filterMap id)

def containsSub (pat s : List Char) : Bool :=
  match s with
  | [] => pat.isEmpty
  | _ :: t => Str.isPrefix pat s || containsSub pat t

/-- a top-level date formatter whose zone argument — read whole — is not the text `utc`/`local`
(input class of the finding `C11/timezone-junk-accepted`; top level only, so that neither an
inactive group nor a truncating spec can legitimately hide the marker) -/
def topLevelZoneJunk (pieces : List Piece) : Bool :=
  pieces.any (fun
    | .arg n [_, z] _ => (n = cs!"d" || n = cs!"date") && !zoneArgValid z
    | _ => false)

/-- proposed repair of `C11/deep-nesting-stack-overflow`: a nesting limit in the parser.
`none` = the code as it is (unbounded recursion). -/
def nestingLimit : Option Nat := some 64

/-- the deep-nesting family. The model's recursion has no stack: it says what the statement asks
for (the pattern's meaning, in closed form per shape); an implementation that aborts disagrees AND
fails the Spec. -/
def handleDeep (shape : String) (n : Nat) (obs : List String) : Answer :=
  let marker := encStr (errorMarker eExpectedClose)
  let tooDeep := match nestingLimit with | some l => decide (n > l) | none => false
  let model :=
    if tooDeep then "deep ok 21 0 " ++ marker
    else if shape = "closed" then "deep ok 1 0 78"
    else if shape = "h" then "deep ok 1 " ++ toString (2 * n) ++ " 78"
    else "deep ok 21 0 " ++ marker
  let impl := " ".intercalate obs
  let spec :=
    if (impl.splitOn "ABORT").length > 1 then
      "FAIL:the process aborted (stack overflow) on a pattern nested " ++ toString n ++ " deep;sig=C11/deep-nesting-stack-overflow"
    else if (impl.splitOn "PANIC").length > 1 then "FAIL:panic on a deeply nested pattern;sig=C11/deep-nesting-panic"
    else if impl = model then "ok"
    else "FAIL:deeply nested pattern rendered wrongly;sig=C11/deep-nesting-meaning"
  { model, spec, tags := ["deep", "deep-" ++ shape, if n ≥ 3000 then "deep>=3000" else "deep<3000"] }

def handle : Handler := fun cas obs =>
  match cas.getLast? with
  | some last =>
    if last.startsWith "deep:" then
      match splitOnChar ':' last with
      | [_, shape, ns] =>
        match decNat ns with
        | some n => handleDeep shape n obs
        | none => badCase "deep"
      | _ => badCase "deep"
    else handleOrdinary cas obs
  | none => badCase "arity"
where handleOrdinary : Handler := fun cas obs =>
  match decCase cas with
  | none => badCase "case"
  | some c =>
    match obs.flatMap (splitOnChar ' ') with
    | implOutcome :: implOps :: factFields =>
      match decFacts factFields with
      | none => badCase "facts"
      | some f =>
        if !classifiable c.pattern then badCase "character outside the sample table" else
        let env := envOf c f
        let parsed := parse driverClass profile c.pattern
        let tail := " " ++ f.raw
        let nonAscii := c.pattern.any (fun ch => ch.toNat ≥ 128)
        let baseTags := (if nonAscii then ["non-ascii"] else []) ++
          (if c.pattern.any Str.isAsciiDigit then ["digits"] else [])
        match parsed with
        | .err _ => { model := "model-out-of-fuel", spec := "FAIL:model;sig=C11/model-fuel", tags := [] }
        | .panic _ =>
          let spec := if implOutcome.startsWith "PANIC" then "FAIL:panic at construction;sig=C11/width-overflows-usize" else "ok"
          { model := "PANIC:new -" ++ tail, spec, tags := "parse-panic" :: baseTags }
        | .ok pieces =>
          let chunks := compileL (Build.current (envOf c f)) pieces
          let times := timesOfL chunks
          let missing := (neededFormatsL pieces).filter (fun fm => (f.dates.find? (fun d => d.fmt = fm)).isNone)
          let errTags := match firstError chunks with
            | some (_, e) => [errSlug e]
            | none => []
          let tags := baseTags ++ errTags ++
            (if hasErrorL chunks && (firstError chunks).isNone then ["nested-error"] else []) ++
            (if times.isEmpty then [] else ["date"]) ++
            (if chunks.any hasSpec then ["spec"] else []) ++
            (if chunks.any (fun | .group _ _ _ => true | _ => false) then ["group"] else []) ++
            (if f.masked then ["masked"] else [])
          let trivial := !(c.pattern.any isSpecial)
          let tags := if trivial then "trivial" :: tags else tags
          let zoneJunk := topLevelZoneJunk pieces
          let tags := if zoneJunk then "zone-junk" :: tags else tags
          if !missing.isEmpty then
            { model := "need-date:" ++ encStr missing.head! ++ tail, spec := "ok", tags }
          else if !widthsSane c.pattern then
            let spec := if implOutcome.startsWith "PANIC" then "FAIL:panic;sig=C11/panic-unexplained" else "ok"
            { model := "new-only -" ++ tail, spec, tags := "wide" :: tags }
          else
            let encoded := encList env c.record chunks
            let model := match encoded with
              | .ok o => "ok " ++ renderOps f.masked o ++ tail
              | .panic _ => "PANIC:encode -" ++ tail
              | .err _ => "err -" ++ tail
            let tags := match encoded with
              | .panic _ => "encode-panic" :: tags
              | _ => tags
            -- the executable reading of the statement, on the implementation's observation
            let spec :=
              if f.tzOffset = 0 then
                "FAIL:the exec process runs with local zone = UTC (harness zone not applied);sig=C11/harness-local-zone-is-utc"
              else if !verdictsAgree f then
                "FAIL:chrono's render verdict differs between the trial rendering and a rendering;sig=C11/render-verdict-not-a-function-of-the-format"
              else if implOutcome.startsWith "PANIC" then
                match encoded with
                | .panic _ => "FAIL:panic at encode;sig=C11/invalid-strftime"
                | _ => "FAIL:panic;sig=C11/panic-unexplained"
              else if implOutcome = "ok" && zoneJunk &&
                  !((implText implOps).map (containsSub errOpen)).getD true then
                "FAIL:a time-zone argument that is not exactly utc/local was accepted without a marker;sig=C11/timezone-junk-accepted"
              else if implOutcome = "ok" then
                match firstError chunks, implText implOps with
                | some (pre, e), some txt =>
                  match encList env c.record pre with
                  | .ok o =>
                    let want := maskDigits f.masked (o.text ++ errorMarker e)
                    if Str.isPrefix want txt then "ok"
                    else "FAIL:error marker or the text before it is missing;sig=C11/error-not-surfaced"
                  | _ => "ok"
                | none, some txt =>
                  if trivial && txt ≠ maskDigits f.masked c.pattern then "FAIL:plain text changed;sig=C11/plain-text"
                  else "ok"
                | _, none => "FAIL:unreadable operation stream;sig=C11/ops"
              else "ok"
            { model, spec, tags }
    | _ => badCase "observation"

end Driver.C11
