import Driver.Common
import Log4rsModel.Pattern.Encode
/-
C11 driver. Case: pattern, record fields, thread name, MDC. The implementation's observation
carries, after outcome and operation stream, the environment facts the model takes as inputs
(build profile, pid, tid, the digit masking flag — since the date formatter reads the harness'
fixed instant always `0`; an observation that says `1` is refused —, and per date format of the
pattern what chrono rendered AT THAT INSTANT: dates are compared digit for digit). The model's observation echoes those facts so that equal behaviour gives equal lines.
-/
namespace Driver.C11
open Log4rs Log4rs.Proto Log4rs.Pattern Log4rs.Pattern.Parse Driver

/-- non-ASCII sample characters of the generators: (code point, alphabetic, alphanumeric); the
harness asserts at start-up that Rust classifies them this way (`c11.rs: SAMPLE_CHARS`) -/
def sampleTable : List (Nat × Bool × Bool) := [
  (0xe9, true, true), (0xdf, true, true), (0x3a9, true, true), (0x4e2d, true, true),
  (0xaa, true, true), (0x2177, true, true),
  (0x663, false, true), (0xb2, false, true), (0xbd, false, true),
  (0x1f600, false, false), (0x301, false, false), (0x200b, false, false), (0xa0, false, false),
  (0x2192, false, false), (0xff5b, false, false)]

def lookupSample (n : Nat) : Option (Bool × Bool) :=
  (sampleTable.find? (fun e => e.1 = n)).map (·.2)

def driverClass : CharClass where
  alpha c := if c.toNat < 128 then asciiAlpha c else ((lookupSample c.toNat).map (·.1)).getD false
  alnum c :=
    if c.toNat < 128 then asciiAlnum c
    else ((lookupSample c.toNat).map (·.2)).getD false

def classifiable (s : List Char) : Bool :=
  s.all (fun c => c.toNat < 128 || (lookupSample c.toNat).isSome)

structure DateFact where
  fmt : List Char
  utc : Bool
  /-- rendering succeeds -/
  ok : Bool
  /-- the Utc trial rendering (what the construction-time check asks) succeeds -/
  probeOk : Bool
  text : List Char

structure Facts where
  debug : Bool
  pid : Nat
  tid : Nat
  masked : Bool
  dates : List DateFact
  /-- `Local::now().offset()` of the exec process, seconds east of UTC (the harness sets a
  non-UTC zone; 0 means the zone was not applied) -/
  tzOffset : Int
  raw : String

def decDateFact (s : String) : Option DateFact :=
  match splitOnChar ';' s with
  | [f, u, o, i, t] => do
    let fmt ← decStr f
    let utc ← decBool u
    let ok ← decBool o
    let probeOk ← decBool i
    let text ← decStr t
    pure { fmt, utc, ok, probeOk, text }
  | _ => none

def decFacts (fs : List String) : Option Facts :=
  match fs with
  | [d, p, t, m, ds, tz] => do
    let debug ← decBool d
    let pid ← decNat p
    let tid ← decNat t
    let masked ← decBool m
    -- nothing is masked any more (the encode runs under a fixed instant): exact comparison only
    if masked then none else
    let dates ← mapM? decDateFact (decList ',' ds)
    let tzOffset ← decInt tz
    pure { debug, pid, tid, masked, dates, tzOffset, raw := " ".intercalate fs }
  | _ => none

structure Case where
  pattern : List Char
  record : Record
  thread : Option (List Char)
  mdc : List (List Char × List Char)

def decKV (s : String) : Option (List Char × List Char) :=
  match splitOnChar ';' s with
  | [k, v] => do pure ((← decStr k), (← decStr v))
  | _ => none

def decCase (fs : List String) : Option Case :=
  match fs with
  | [p, l, m, t, mo, fi, li, th, md] => do
    let pattern ← decStr p
    let level ← decNat l
    let message ← decStr m
    let target ← decStr t
    let module ← decOpt decStr mo
    let file ← decOpt decStr fi
    let line ← decOpt decNat li
    let thread ← decOpt decStr th
    let mdc ← mapM? decKV (decList ',' md)
    if level < 1 || level > 5 then none else
    pure { pattern, record := { level, message, target, module, file, line }, thread, mdc }
  | _ => none

def findDate (ds : List DateFact) (fmt : List Char) (utc : Bool) : Option DateFact :=
  ds.find? (fun d => d.fmt = fmt && d.utc = utc)

/-- chrono's verdict on a format (the model takes it to depend on the format only): the trial
rendering's answer -/
def renderVerdict (f : Facts) (fmt : List Char) : Bool :=
  ((f.dates.find? (fun d => d.fmt = fmt)).map (·.probeOk)).getD false

/-- is the modelling assumption met on this case's facts: every rendering (Utc and Local, at encode
time) answers like the trial rendering -/
def verdictsAgree (f : Facts) : Bool := f.dates.all (fun d => d.ok == d.probeOk)

def envOf (c : Case) (f : Facts) : Env where
  strftimeOk fmt := renderVerdict f fmt
  dateText fmt utc := ((findDate f.dates fmt utc).map (·.text)).getD []
  threadName := c.thread
  threadId := f.tid
  pid := f.pid
  mdc := c.mdc
  debugBuild := f.debug

/-- mirror of `c11.rs: widths_sane`: every maximal run of ASCII digits has a value below 4096 -/
def widthsSaneAux : List Char → List Char → Bool
  | [], run => Str.digitsVal run.reverse < 4096
  | c :: r, run =>
    if Str.isAsciiDigit c then widthsSaneAux r (c :: run)
    else Str.digitsVal run.reverse < 4096 && widthsSaneAux r []

def widthsSane (s : List Char) : Bool := widthsSaneAux s []

def maskDigits (masked : Bool) (s : List Char) : List Char :=
  if masked then s.map (fun c => if Str.isAsciiDigit c then '#' else c) else s

def renderStyle (s : Style) : String :=
  "S" ++ encOpt toString s.text ++ "/" ++ encOpt toString s.background ++ "/" ++ encOpt encBool s.intense

/-- the operation stream as the harness prints it: adjacent characters form one text item -/
def renderOpsAux (masked : Bool) : Out → List Char → List String → List String
  | [], run, acc =>
    (if run.isEmpty then acc else ("T" ++ encStr (maskDigits masked run.reverse)) :: acc).reverse
  | .ch c :: r, run, acc => renderOpsAux masked r (c :: run) acc
  | .style s :: r, run, acc =>
    let acc := if run.isEmpty then acc else ("T" ++ encStr (maskDigits masked run.reverse)) :: acc
    renderOpsAux masked r [] (renderStyle s :: acc)

def renderOps (masked : Bool) (o : Out) : String := encList "," (renderOpsAux masked o [] [])

/-- text of the implementation's operation stream (style items dropped) -/
def implText (ops : String) : Option (List Char) :=
  if ops = "-" then none else
  (mapM? (fun (it : String) =>
      if it.startsWith "T" then decStr (it.drop 1).toString
      else if it.startsWith "S" then some []
      else none) (decList ',' ops)).map List.flatten

def errSlug (e : List Char) : String :=
  let w := String.ofList (e.takeWhile (fun c => c ≠ '\'' && c ≠ '`'))
  "error:" ++ (w.trimAscii.toString.replace " " "-")

def firstError : List Chunk → Option (List Chunk × List Char)
  | [] => none
  | .error e :: _ => some ([], e)
  | c :: cs => (firstError cs).map (fun (pre, e) => (c :: pre, e))

mutual
def hasNestedError : Chunk → Bool
  | .group _ cs _ => hasErrorL cs
  | _ => false
def hasErrorL : List Chunk → Bool
  | [] => false
  | .error _ :: _ => true
  | c :: cs => hasNestedError c || hasErrorL cs
end

def hasSpec : Chunk → Bool
  | .leaf _ p => p.minW.isSome || p.maxW.isSome
  | .group _ _ p => p.minW.isSome || p.maxW.isSome
  | _ => false

def profile : Profile := Profile.debug64

/-- model flag of the finding `C09/mdc-empty-argument`: `true` = the repaired code (an explicitly
empty MDC key / default is the empty string; default of `Build.mdcEmptyOk`), `false` = the code
before the repair (`invalid MDC key` / `invalid MDC default`) -/
def mdcEmptyRepaired : Bool := true

/-- the build the drivers of the pattern area model -/
def buildFor (env : Env) : Build := { Build.current env with mdcEmptyOk := mdcEmptyRepaired }

/-- the model's observation for a case and the environment facts (shared with the C09 driver) -/
def modelObs (c : Case) (f : Facts) : String :=
  let tail := " " ++ f.raw
  match parse driverClass profile c.pattern with
  | .err _ => "model-out-of-fuel"
  | .panic _ => "PANIC:new -" ++ tail
  | .ok pieces =>
    let missing := (neededFormatsL pieces).filter (fun fm => (f.dates.find? (fun d => d.fmt = fm)).isNone)
    let chunks := compileL (buildFor (envOf c f)) pieces
    if !missing.isEmpty then "need-date:" ++ encStr missing.head! ++ tail
    else if !widthsSane c.pattern then "new-only -" ++ tail
    else
      match encList (envOf c f) c.record chunks with
      | .ok o => "ok " ++ renderOps false o ++ tail
      | .panic _ => "PANIC:encode -" ++ tail
      | .err _ => "err -" ++ tail

/-- the style calls of the implementation's operation stream -/
def implStyles (ops : String) : Option (List Style) :=
  if ops = "-" then none else
  (mapM? (fun (it : String) =>
      if it.startsWith "T" then some none
      else if it.startsWith "S" then
        match splitOnChar '/' (it.drop 1).toString with
        | [t, b, i] => do
          let text ← decOpt decNat t
          let background ← decOpt decNat b
          let intense ← decOpt decBool i
          pure (some ({ text, background, intense } : Style))
        | _ => none
      else none) (decList ',' ops)).map (fun l => l.filterMap id)

def containsSub (pat s : List Char) : Bool :=
  match s with
  | [] => pat.isEmpty
  | _ :: t => Str.isPrefix pat s || containsSub pat t

/-- a top-level date formatter whose zone argument — read whole — is not the text `utc`/`local`
(input class of the finding `C11/timezone-junk-accepted`; top level only, so that neither an
inactive group nor a truncating spec can legitimately hide the marker) -/
def topLevelZoneJunk (pieces : List Piece) : Bool :=
  pieces.any (fun
    | .arg n [_, z] _ => (n = cs!"d" || n = cs!"date") && !zoneArgValid z
    | _ => false)

/-- the patterns of the deep-nesting family (`c11.rs: deep_pattern`) -/
def deepPattern (shape : String) (n : Nat) : Option (List Char) :=
  let rep (u : List Char) : List Char := (List.replicate n u).flatten
  if shape = "closed" then some (rep ['{', '('] ++ ['x'] ++ rep [')', '}'])
  else if shape = "h" then some (rep ['{', 'h', '('] ++ ['x'] ++ rep [')', '}'])
  else if shape = "open" then some (rep ['{', '('])
  else none

/-- the deep-nesting family. MODEL: the parser model itself — the nesting limit (`Profile.maxDepth`
= `MAX_DEPTH` of parser.rs, commit c25fac2) is part of it, no driver-side special case — run on the
pattern the harness built, summarised like `c11.rs: run_deep` (text length, style calls, first 40
characters). SPEC (what the statement asks, in closed form per shape): no abort, no panic; up to the
limit the pattern's meaning (`x`, with set/reset style calls around every highlight level); beyond
it an `{ERROR: …}` marker. -/
def handleDeep (c : Case) (shape : String) (n : Nat) (obs : List String) : Answer :=
  let marker := encStr (errorMarker eExpectedClose)
  let env : Env := { strftimeOk := fun _ => true, dateText := fun _ _ => [], threadName := c.thread,
                     threadId := 0, pid := 0, mdc := c.mdc, debugBuild := true }
  let model :=
    match deepPattern shape n with
    | none => "bad-case:deep"
    | some pat =>
      match parse driverClass profile pat with
      | .err _ => "model-out-of-fuel"
      | .panic _ => "deep PANIC:new 0 0 _"
      | .ok pieces =>
        match encList env c.record (compileL (buildFor env) pieces) with
        | .ok o => "deep ok " ++ toString o.text.length ++ " " ++ toString o.styles.length ++ " " ++ encStr (o.text.take 40)
        | .panic _ => "deep PANIC:encode 0 0 _"
        | .err _ => "deep err 0 0 _"
  let tooDeep := decide (n > profile.maxDepth)
  let want :=
    if tooDeep then "deep ok 21 0 " ++ marker
    else if shape = "closed" then "deep ok 1 0 78"
    else if shape = "h" then "deep ok 1 " ++ toString (if highlightStyle c.record.level |>.isSome then 2 * n else 0) ++ " 78"
    else "deep ok 21 0 " ++ marker
  let impl := " ".intercalate obs
  let spec :=
    if (impl.splitOn "ABORT").length > 1 then
      "FAIL:the process aborted (stack overflow) on a pattern nested " ++ toString n ++ " deep;sig=C11/deep-nesting-stack-overflow"
    else if (impl.splitOn "PANIC").length > 1 then "FAIL:panic on a deeply nested pattern;sig=C11/deep-nesting-panic"
    else if impl = want then "ok"
    else if tooDeep then "FAIL:a pattern nested deeper than the limit is not answered with the error marker;sig=C11/deep-nesting-marker"
    else "FAIL:nested pattern (within the nesting limit) rendered wrongly;sig=C11/deep-nesting-meaning"
  { model, spec, tags := ["deep", "deep-" ++ shape,
      if n ≥ 3000 then "deep>=3000" else if tooDeep then "deep>limit" else if n + 1 ≥ profile.maxDepth then "deep-at-limit" else "deep<limit"] }

def handle : Handler := fun cas obs =>
  match cas.getLast? with
  | some last =>
    if last.startsWith "deep:" then
      match splitOnChar ':' last, decCase cas.dropLast with
      | [_, shape, ns], some c =>
        match decNat ns with
        | some n => handleDeep c shape n obs
        | none => badCase "deep"
      | _, _ => badCase "deep"
    else handleOrdinary cas obs
  | none => badCase "arity"
where handleOrdinary : Handler := fun cas obs =>
  match decCase cas with
  | none => badCase "case"
  | some c =>
    match obs.flatMap (splitOnChar ' ') with
    | implOutcome :: implOps :: factFields =>
      match decFacts factFields with
      | none => badCase "facts"
      | some f =>
        if !classifiable c.pattern then badCase "character outside the sample table" else
        let env := envOf c f
        let parsed := parse driverClass profile c.pattern
        let tail := " " ++ f.raw
        let nonAscii := c.pattern.any (fun ch => ch.toNat ≥ 128)
        let baseTags := (if nonAscii then ["non-ascii"] else []) ++
          (if c.pattern.any Str.isAsciiDigit then ["digits"] else [])
        match parsed with
        | .err _ => { model := "model-out-of-fuel", spec := "FAIL:model;sig=C11/model-fuel", tags := [] }
        | .panic _ =>
          let spec := if implOutcome.startsWith "PANIC" then "FAIL:panic at construction;sig=C11/width-overflows-usize" else "ok"
          { model := "PANIC:new -" ++ tail, spec, tags := "parse-panic" :: baseTags }
        | .ok pieces =>
          let chunks := compileL (buildFor (envOf c f)) pieces
          let times := timesOfL chunks
          let missing := (neededFormatsL pieces).filter (fun fm => (f.dates.find? (fun d => d.fmt = fm)).isNone)
          let errTags := match firstError chunks with
            | some (_, e) => [errSlug e]
            | none => []
          let tags := baseTags ++ errTags ++
            (if hasErrorL chunks && (firstError chunks).isNone then ["nested-error"] else []) ++
            (if times.isEmpty then [] else ["date"]) ++
            (if chunks.any hasSpec then ["spec"] else []) ++
            (if chunks.any (fun | .group _ _ _ => true | _ => false) then ["group"] else [])
          let trivial := !(c.pattern.any isSpecial)
          let tags := if trivial then "trivial" :: tags else tags
          let zoneJunk := topLevelZoneJunk pieces
          let tags := if zoneJunk then "zone-junk" :: tags else tags
          if !missing.isEmpty then
            { model := "need-date:" ++ encStr missing.head! ++ tail, spec := "ok", tags }
          else if !widthsSane c.pattern then
            let spec := if implOutcome.startsWith "PANIC" then "FAIL:panic;sig=C11/panic-unexplained" else "ok"
            { model := "new-only -" ++ tail, spec, tags := "wide" :: tags }
          else
            let encoded := encList env c.record chunks
            let model := match encoded with
              | .ok o => "ok " ++ renderOps false o ++ tail
              | .panic _ => "PANIC:encode -" ++ tail
              | .err _ => "err -" ++ tail
            let tags := match encoded with
              | .panic _ => "encode-panic" :: tags
              | _ => tags
            -- the executable reading of the statement, on the implementation's observation
            let spec :=
              if f.tzOffset = 0 then
                "FAIL:the exec process runs with local zone = UTC (harness zone not applied);sig=C11/harness-local-zone-is-utc"
              else if !verdictsAgree f then
                "FAIL:chrono's render verdict differs between the trial rendering and a rendering;sig=C11/render-verdict-not-a-function-of-the-format"
              else if implOutcome.startsWith "PANIC" then
                match encoded with
                | .panic _ => "FAIL:panic at encode;sig=C11/invalid-strftime"
                | _ => "FAIL:panic;sig=C11/panic-unexplained"
              else if implOutcome = "ok" && zoneJunk &&
                  !((implText implOps).map (containsSub errOpen)).getD true then
                "FAIL:a time-zone argument that is not exactly utc/local was accepted without a marker;sig=C11/timezone-junk-accepted"
              else if implOutcome = "ok" then
                match firstError chunks, implText implOps with
                | some (pre, e), some txt =>
                  match encList env c.record pre with
                  | .ok o =>
                    let want := o.text ++ errorMarker e
                    if Str.isPrefix want txt then "ok"
                    else "FAIL:error marker or the text before it is missing;sig=C11/error-not-surfaced"
                  | _ => "ok"
                | none, some txt =>
                  if trivial && txt ≠ c.pattern then "FAIL:plain text changed;sig=C11/plain-text"
                  else "ok"
                | _, none => "FAIL:unreadable operation stream;sig=C11/ops"
              else "ok"
            { model, spec, tags }
    | _ => badCase "observation"

end Driver.C11
