import Driver.Common
import Log4rsModel.Reconfig.Spec
/-
C15 driver. Three case kinds (first case field):

  swap    <cfgs> <scripts> <ops>                 => trace   B:tid:t:l , D:tid:tag:a , S:tag , E:tid , P:tid
  stress  <cfgs> <nLog> <nReconf> <iters> <probes>  => per probe the set of distinct delivery lists seen
  reload  <docs> <init d:m:forget> <steps>       => init:active:rate:alive , action:active:rate:alive …

cfgs   : `|`-separated; one cfg = table ; rootLevel ; rootApps ; logger* with logger = t:level:a+b+…
scripts: `;`-separated  cfg:appender:act,act…      act = s<k> (set_config(cfg k)) | l<t>.<level> (log)
docs   : `;`-separated  kind:tag:rate:nonce        kind = g l y c r ; rate = - | seconds
steps  : `,`-separated  w:<doc>:<mtime> | x | d:<mtime> | u:<mtime>
-/
namespace Driver.C15
open Log4rs.Proto Log4rs.Reconfig Driver

/-! ### decoding -/

def decNats (sep : Char) (s : String) : Option (List Nat) :=
  mapM? decNat (decList sep s)

def decLogger (s : String) : Option (Target × Nat × List AppenderId) :=
  match splitOnChar ':' s with
  | [t, lv, apps] => do
    let t ← decNat t; let lv ← decNat lv; let apps ← decNats '+' apps
    pure (t, lv, apps)
  | _ => none

def decCfg (tag : Nat) (s : String) : Option MiniCfg :=
  match splitOnChar ';' s with
  | table :: rl :: ra :: loggers => do
    let table ← decNats ',' table
    let rl ← decNat rl
    let ra ← decNats ',' ra
    let ls ← mapM? decLogger loggers
    let c : MiniCfg := { tag, table, rootLevel := rl, rootApps := ra, loggers := ls }
    if c.valid && rl ≤ 5 && ls.all (fun e => e.2.1 ≤ 5) then some c else none
  | _ => none

def decCfgs (s : String) : Option (List MiniCfg) :=
  let parts := splitOnChar '|' s
  mapM? (fun (p : Nat × String) => decCfg p.1 p.2) (List.zip (List.range parts.length) parts)

def decAct (n : Nat) (s : String) : Option Act :=
  match s.toList with
  | 's' :: r => (decNat (String.ofList r)).bind (fun k => if k < n then some (Act.swap k) else none)
  | 'l' :: r =>
    match splitOnChar '.' (String.ofList r) with
    | [t, l] => do
      let t ← decNat t; let l ← decNat l
      if 1 ≤ l ∧ l ≤ 5 then some (Act.log t l) else none
    | _ => none
  | _ => none

def decScript (n : Nat) (s : String) : Option (Nat × AppenderId × List Act) :=
  match splitOnChar ':' s with
  | [c, a, acts] => do
    let c ← decNat c; let a ← decNat a
    let acts ← mapM? (decAct n) (decList ',' acts)
    pure (c, a, acts)
  | _ => none

/-! ### rendering -/

def renderObs : Obs → String
  | .begin tid t l => s!"B:{tid}:{t}:{l}"
  | .deliver tid tag a => s!"D:{tid}:{tag}:{a}"
  | .swapped tag => s!"S:{tag}"
  | .fin tid => s!"E:{tid}"
  | .panic tid => s!"P:{tid}"

def decObs (s : String) : Option Obs :=
  match splitOnChar ':' s with
  | ["B", a, b, c] => do pure (.begin (← decNat a) (← decNat b) (← decNat c))
  | ["D", a, b, c] => do pure (.deliver (← decNat a) (← decNat b) (← decNat c))
  | ["S", a] => do pure (.swapped (← decNat a))
  | ["E", a] => do pure (.fin (← decNat a))
  | ["P", a] => do pure (.panic (← decNat a))
  | _ => none

def renderDeliveries (ds : List Delivery) : String :=
  if ds.isEmpty then "_" else "+".intercalate (ds.map (fun d => s!"{d.1}:{d.2}"))

def decDeliveries (s : String) : Option (List Delivery) :=
  if s = "_" then some [] else
  mapM? (fun p => match splitOnChar ':' p with
    | [a, b] => do pure ((← decNat a), (← decNat b))
    | _ => none) (splitOnChar '+' s)

def sortStrings (xs : List String) : List String :=
  (xs.toArray.qsort (· < ·)).toList.eraseDups

/-! ### (a) scripted swaps -/

def countSwapsInRecords (trace : List Obs) : Nat × Nat :=
  -- (swaps that happened while some record was open, maximum number of swaps inside one top-level record)
  let r := trace.foldl (fun (acc : Nat × Nat × Nat × Nat) o =>
    let (openDepth, inside, curRun, maxRun) := acc
    match o with
    | .begin _ _ _ => (openDepth + 1, inside, curRun, maxRun)
    | .fin _ => if openDepth = 1 then (0, inside, 0, max maxRun curRun) else (openDepth - 1, inside, curRun, maxRun)
    | .swapped _ => if openDepth > 0 then (openDepth, inside + 1, curRun + 1, max maxRun (curRun + 1))
                    else (openDepth, inside, curRun, maxRun)
    | _ => acc) (0, 0, 0, 0)
  (r.2.1, r.2.2.2)

def handleSwap (cfgsS scriptsS opsS : String) (obs : List String) : Answer :=
  match decCfgs cfgsS with
  | none => badCase "cfgs"
  | some cfgs =>
    let n := cfgs.length
    match mapM? (decScript n) (decList ';' scriptsS), mapM? (decAct n) (decList ',' opsS) with
    | some scripts, some ops =>
      let sc : Scenario := { cfgs, scripts, ops }
      match sc.trace, obs with
      | some trace, [implS] =>
        -- run-time cross-check of what `C15_scenario_meets_spec` assumes / what is not proved in its
        -- strict form: every call of the model's run completed, and the model's own trace satisfies
        -- the STRICT specification (the configuration in force at `begin`)
        let modelOk := (specTrace cfgs true trace).isNone
        let model := (if modelOk then "" else "MODEL-VIOLATES-SPEC:") ++ encList "," (trace.map renderObs)
        match mapM? decObs (decList ',' implS) with
        | none =>
          { model, spec := if implS = "PANIC" then "FAIL:panic;sig=C15/swap-panic" else "FAIL:unreadable observation;sig=C15/swap-observation",
            tags := ["swap"] }
        | some implTrace =>
          let spec := match specTrace cfgs true implTrace with
            | none => "ok"
            | some why => "FAIL:" ++ why ++ ";sig=C15/swap-" ++ String.ofList (why.toList.takeWhile (fun c => c.isAlpha))
          let (inside, maxRun) := countSwapsInRecords trace
          let external := trace.any (fun o => match o with | .swapped _ => true | _ => false) && ops.any (fun a => match a with | .swap _ => true | _ => false)
          let sizes := (cfgs.map (·.table.length)).eraseDups
          let nested := trace.any (fun o => match o with | .begin tid _ _ => tid > 0 | _ => false) &&
            scripts.any (fun e => e.2.2.any (fun a => match a with | .log _ _ => true | _ => false))
          let tags := ["swap"] ++
            (if inside > 0 then ["reentrant"] else []) ++
            (if maxRun ≥ 2 then ["multi-swap-in-one-record"] else []) ++
            (if external then ["external-swap"] else []) ++
            (if sizes.length > 1 then ["table-sizes-differ"] else []) ++
            (if nested && inside > 0 then ["nested-log-after-swap"] else []) ++
            (if inside = 0 && !external then ["trivial"] else [])
          { model, spec, tags }
      | none, _ => badCase "no-config"
      | _, _ => badCase "arity"
    | _, _ => badCase "scripts-or-ops"

/-! ### (a) multi-thread stress -/

def decProbe (s : String) : Option (Target × Level) :=
  match splitOnChar '.' s with
  | [t, l] => do
    let t ← decNat t; let l ← decNat l
    if 1 ≤ l ∧ l ≤ 5 then some (t, l) else none
  | _ => none

def handleStress (cfgsS nLogS nRecS itersS probesS : String) (obs : List String) : Answer :=
  match decCfgs cfgsS, decNat nLogS, decNat nRecS, decNat itersS, mapM? decProbe (decList ',' probesS) with
  | some cfgs, some _nLog, some nRec, some _iters, some probes =>
    let probeLine (p : Target × Level) : String :=
      s!"{p.1}.{p.2}=" ++ "/".intercalate (sortStrings (cfgs.map (fun c => renderDeliveries (prescribedBy c p.1 p.2))))
    let afterLine : String :=
      if nRec = 1 then
        "after=" ++ "/".intercalate (sortStrings (cfgs.flatMap (fun c => probes.map (fun p =>
          s!"{c.tag}>{p.1}.{p.2}>" ++ renderDeliveries (prescribedBy c p.1 p.2)))))
      else "after=-"
    let model := ";".intercalate (probes.map probeLine ++ [afterLine, "panics=0"])
    match obs with
    | [implS] =>
      -- the Spec on the implementation's observation
      let parts := splitOnChar ';' implS
      let bad : Option String := parts.findSome? (fun part =>
        match splitOnChar '=' part with
        | ["panics", n] => if n = "0" then none else some "panic"
        | ["after", v] =>
          if v = "-" then none else
          (splitOnChar '/' v).findSome? (fun e =>
            match splitOnChar '>' e with
            | [k, p, ds] =>
              match decNat k, decProbe p, decDeliveries ds with
              | some k, some p, some ds => if specStressAfter cfgs p.1 p.2 k ds then none else some ("stale: after set_config(" ++ toString k ++ ")")
              | _, _, _ => some "unreadable"
            | _ => some "unreadable")
        | [p, v] =>
          match decProbe p with
          | none => some "unreadable"
          | some p =>
            match mapM? decDeliveries (splitOnChar '/' v) with
            | none => some "unreadable"
            | some seen => if specStressProbe cfgs p.1 p.2 seen then none else some "mixed: a record matches no single configuration"
        | _ => some "unreadable")
      let spec := match bad with
        | none => "ok"
        | some why => "FAIL:" ++ why ++ ";sig=C15/stress-" ++ String.ofList (why.toList.takeWhile (fun c => c.isAlpha))
      { model, spec, tags := ["stress", if nRec = 1 then "one-reconfigurer" else "many-reconfigurers"] }
    | _ => badCase "arity"
  | _, _, _, _, _ => badCase "stress-fields"

/-! ### (b) reloader -/
open Log4rs.Reconfig.Reloader

def decDoc (s : String) : Option Doc :=
  match splitOnChar ':' s with
  | [k, tag, rate, nonce] => do
    let kind ← (match k with
      | "g" => some DocKind.good | "l" => some DocKind.lossy | "y" => some DocKind.syntax
      | "c" => some DocKind.schema | "r" => some DocKind.badrate | _ => none)
    let tag ← decNat tag
    let rate ← decOpt decNat rate
    let nonce ← decNat nonce
    pure { kind, tag, rate, nonce }
  | _ => none

def decStep (docs : List Doc) (s : String) : Option (FileView Doc) :=
  match splitOnChar ':' s with
  | ["w", d, m] => do
    let d ← decNat d; let m ← decNat m
    let doc ← docs[d]?
    pure (.ok m doc)
  | ["p", d, m] => do
    -- the path is made to denote another file (a symlink is re-pointed): an edit of the file view
    let d ← decNat d; let m ← decNat m
    let doc ← docs[d]?
    pure (.ok m doc)
  | ["x"] => some .missing
  | ["d", m] => (decNat m).map .unreadable
  | ["u", m] => (decNat m).map .unreadable
  | _ => none

def actionName : Action → String
  | .applied => "applied" | .unchanged => "unchanged" | .error => "error" | .dead => "dead"

def decAction : String → Option Action
  | "applied" => some .applied | "unchanged" => some .unchanged | "error" => some .error | "dead" => some .dead
  | _ => none

def renderState (name : String) (st : RState Doc) : String :=
  s!"{name}:{st.active}:{st.rate}:{encBool st.alive}"

def decPollObs (s : String) : Option (String × PollObs) :=
  match splitOnChar ':' s with
  | [a, act, rate, alive] => do
    let active ← decNat act; let rate ← decNat rate; let alive ← decBool alive
    let action := (decAction a).getD .unchanged
    pure (a, { action, active, rate, alive })
  | _ => none

/-- tags: which kinds of edits the history contains, seen through the model -/
def reloadTags (st0 : RState Doc) (views : List (FileView Doc)) : List String :=
  let rec go (st : RState Doc) (prev : FileView Doc) (seenTexts : List Doc) : List (FileView Doc) → List String
    | [] => []
    | fv :: rest =>
      let r := poll parseDoc codeFixed st fv
      let here : List String :=
        (match fv, prev with
         | .missing, _ => ["delete"]
         | .unreadable _, _ => ["unreadable"]
         | .ok m t, .ok m' t' =>
           (if t = t' ∧ m = m' then ["no-change"] else []) ++
           (if t = t' ∧ m ≠ m' then ["touch-without-change"] else []) ++
           (if t ≠ t' ∧ m = m' then ["same-mtime-edit"] else [])
         | .ok _ _, _ => ["reappears"]) ++
        (match fv with
         | .ok _ t =>
           (match parseDoc t with
            | none => [match t.kind with | .syntax => "syntax-error" | .schema => "schema-error" | _ => "bad-refresh-rate"]
            | some (_, rt) =>
              (if t.kind = .lossy then ["lossy-config"] else []) ++
              (if r.2 == Action.applied then
                 ["valid-change"] ++
                 (if seenTexts.contains t then ["restore"] else []) ++
                 (match rt with
                  | some x => if x ≠ st.rate then ["rate-change"] else []
                  | none => ["rate-removal"])
               else []))
         | _ => []) ++
        (if st.alive ∧ st.modified.isSome ∧ r.1.modified ≠ st.modified ∧ r.2 == .error ∧ fv.text?.isNone then ["mtime-consumed-by-failed-read"] else []) ++
        (if !st.alive then ["after-loop-ended"] else []) ++
        (if st.modified.isNone then ["no-mtime"] else [])
      here ++ go r.1 fv (match fv with | .ok _ t => t :: seenTexts | _ => seenTexts) rest
  (go st0 (.ok (st0.modified.getD 0) st0.source) [st0.source] views).eraseDups

/-- path kinds: `f` plain file, `l` the path is a symlink to the file, `d` a directory component of
the path is a symlink. The model does not distinguish them: the FileView is what the path resolves to. -/
def pathKindTags (pk : String) (stepsS : String) : Option (List String) :=
  let rp := if (decList ',' stepsS).any (fun s => s.startsWith "p:") then ["repoint"] else []
  match pk with
  | "f" => some rp
  | "l" => some ("path-symlink-file" :: rp)
  | "d" => some ("path-symlink-dir" :: rp)
  | "j" => some ("format-json" :: rp)
  | "t" => some ("format-toml" :: rp)
  | _ => none

/-- a file view whose poll makes the loop call `handle_error` -/
def isReported (fv : FileView Doc) : Bool :=
  match fv with
  | .missing => true
  | .unreadable _ => true
  | .ok _ t => (parseDoc t).isNone || t.kind == .lossy

/-- optional init edit `e<doc>.<mtime>`: the file as the second look of the initialisation finds it -/
def decInitEdit (docs : List Doc) (s : String) : Option (FileView Doc) :=
  match s.toList with
  | 'e' :: r =>
    match splitOnChar '.' (String.ofList r) with
    | [d, m] => do
      let d ← decNat d; let m ← decNat m
      let doc ← docs[d]?
      pure (.ok m doc)
    | _ => none
  | _ => none

def handleReload (docsS initS stepsS : String) (obs : List String) : Answer :=
  match mapM? decDoc (decList ';' docsS) with
  | none => badCase "docs"
  | some docs =>
    let initF := splitOnChar ':' initS
    let pk := match initF with
      | [_, _, _] => "f"
      | _ :: _ :: _ :: k :: _ => k
      | _ => "?"
    let edit : Option (Option (FileView Doc)) := match initF with
      | [_, _, _, _, e] => (decInitEdit docs e).map some
      | [_, _, _] => some none
      | [_, _, _, _] => some none
      | _ => none
    match initF.take 3, mapM? (decStep docs) (decList ',' stepsS), pathKindTags pk stepsS, edit with
    | [d0, m0, forget], some views, some pkTags, some edit =>
      match (decNat d0).bind (docs[·]?), decNat m0, decBool forget with
      | some doc0, some m0, some forget =>
        let v1 : FileView Doc := .ok m0 doc0
        let v2 : FileView Doc := edit.getD v1
        let editTags := if edit.isSome then ["edit-during-init"] else []
        match initState2 parseDoc initStatsBeforeRead forget v1 v2, obs with
        | none, [implS] =>
          { model := "init-err", spec := if implS = "init-err" then "ok" else "FAIL:init accepted an unparsable file;sig=C15/reload-init",
            tags := ["reload", "trivial"] }
        | some st0, [implS] =>
          let states := pollAll parseDoc codeFixed st0 views
          let model := ",".intercalate (renderState "init" st0 :: states.map (fun p => renderState (actionName p.1) p.2))
          let tags := "reload" :: (reloadTags st0 views ++ pkTags ++ editTags)
          let implParts := splitOnChar ',' implS
          if implS = "init-err" then
            -- acceptable only if one of the two versions is unusable
            { model, spec := if (v1.text?.bind parseDoc).isNone ∨ (v2.text?.bind parseDoc).isNone then "ok"
                             else "FAIL:init rejected a valid file;sig=C15/reload-init", tags }
          else
          match mapM? decPollObs implParts with
          | none =>
            { model, spec := "FAIL:" ++ (if implS = "PANIC" then "panic" else "unreadable observation") ++ ";sig=C15/reload-observation", tags }
          | some [] => badCase "empty observation"
          | some ((n0, i0) :: ps) =>
            if n0 ≠ "init" ∨ ps.length ≠ views.length ∨ ps.any (fun p => (decAction p.1).isNone) then
              { model, spec := "FAIL:observation shape;sig=C15/reload-observation", tags }
            else
              let verdict := specHistory2 parseDoc forget v1 v2 i0 (List.zip views (ps.map (·.2)))
              let spec := match verdict with
                | none => "ok"
                | some (i, why) =>
                  let obsOfStates (sts : List (Action × RState Doc)) : List PollObs :=
                    sts.map (fun p => { action := p.1, active := p.2.active, rate := p.2.rate, alive := p.2.alive })
                  -- (1) known class: a failed read consumed an mtime (only while `codeFixed = false`)
                  let fixedOk := (specHistory2 parseDoc forget v1 v2 i0 (List.zip views (obsOfStates (pollAll parseDoc true st0 views)))).isNone
                  -- (2) an edit landed inside the initialisation, the implementation behaves exactly as the
                  -- model of "read, then stat", and the model of "stat, then read" satisfies the whole spec
                  let statFirstOk : Bool := match initState2 parseDoc true forget v1 v2 with
                    | some st1 =>
                      let i1 : PollObs := { action := .unchanged, active := st1.active, rate := st1.rate, alive := st1.alive }
                      (specHistory2 parseDoc forget v1 v2 i1 (List.zip views (obsOfStates (pollAll parseDoc codeFixed st1 views)))).isNone
                    | none => true      -- "stat, then read" would not even have started on this pair
                  let cls := if fixedOk ∧ implS = model ∧ tags.contains "mtime-consumed-by-failed-read"
                    then "reload-mtime-consumed-by-failed-read"
                    else if edit.isSome ∧ implS = model ∧ statFirstOk ∧ !initStatsBeforeRead then "init-read-then-stat"
                    else if (pk = "l" ∨ pk = "d") ∧ why = "changed-not-applied" then "symlink-target-edit-not-seen"
                    else "reload-" ++ String.ofList (why.toList.takeWhile (fun c => c.isAlpha || c == '-'))
                  s!"FAIL:{why} at poll {i};sig=C15/{cls}"
              { model, spec, tags }
        | _, _ => badCase "arity"
      | _, _, _ => badCase "init"
    | _, _, _, _ => badCase "steps"

/-! ### (b) the real reloader thread (child processes) -/

def decTStep (docs : List Doc) (s : String) : Option (TStep Doc) :=
  if s = "z" then some .longWait else
  match splitOnChar ':' s with
  | ["d", _] => none                       -- directories are not used with the thread
  | _ => (decStep docs s).map .edit

def renderTObs (o : TObs) : String := s!"{o.active}:{encBool o.touched}:{encBool o.alive}"

def decTObs (s : String) : Option (ConfigTag × Bool × Bool) :=
  match splitOnChar ':' s with
  | [a, t, al] => do pure ((← decNat a), (← decBool t), (← decBool al))
  | _ => none

structure HistAnswer where
  model : String
  fail : Option String
  tags : List String

def handleHistory (docs : List Doc) (hist : String) (implS : String) : Option HistAnswer :=
  match splitOnChar '>' hist with
  | [initS, stepsS] =>
    let initF := splitOnChar ':' initS
    -- optional: path kind (f l d) and stderr kind (n = /dev/null, p = pipe with closed reading end)
    let (pk, ek) := match initF with
      | [_, _] => ("f", "n")
      | _ :: _ :: k :: e :: _ => (k, e)
      | _ => ("?", "?")
    -- optional 5th component: an edit landing inside init_file between its two looks at the file
    let edit : Option (Option (FileView Doc)) := match initF with
      | [_, _, _, _, e] => (decInitEdit docs e).map some
      | [_, _] => some none
      | [_, _, _, _] => some none
      | _ => none
    match initF.take 2, mapM? (decTStep docs) (decList ',' stepsS), pathKindTags pk stepsS, (ek == "n" || ek == "p"), edit with
    | [d0, m0], some steps, some pkTags, true, some edit =>
      match (decNat d0).bind (docs[·]?), decNat m0 with
      | some doc0, some m0 =>
        let v1 : FileView Doc := .ok m0 doc0
        let v2 : FileView Doc := edit.getD v1
        let (m2, doc2) : Mtime × Doc := match v2 with
          | .ok m d => (m, d)
          | _ => (m0, doc0)
        match initState2 parseDoc initStatsBeforeRead false v1 v2 with
        | none =>
          some { model := "init-err", fail := if implS = "init-err" then none else some "init accepted an unparsable file;sig=C15/thread-init",
                 tags := ["trivial"] }
        | some st0 =>
          if implS = "init-err" then
            some { model := "-", fail := if (parseDoc doc0).isNone ∨ (parseDoc doc2).isNone then none
                                         else some "init rejected a valid file;sig=C15/thread-init", tags := ["trivial"] }
          else
          let obs := threadRun parseDoc codeFixed st0 v2 steps
          let model := ",".intercalate (s!"init:{st0.active}:{encBool st0.alive}" :: obs.map renderTObs)
          let views : List (FileView Doc) := steps.filterMap (fun s => match s with | .edit fv => some fv | .longWait => none)
          let tags := (reloadTags st0 views).filter (· ≠ "no-mtime") ++
            (if obs.any (fun o => !o.polled) then ["slow-rate-sleeps"] else []) ++
            (if steps.contains .longWait then ["long-wait"] else []) ++ pkTags ++
            (if edit.isSome then ["edit-during-init"] else []) ++
            (if ek = "p" then
               ["stderr-closed-pipe"] ++
               -- a reported poll failure followed (later) by a valid change that must still be applied
               (let rec go (seenErr : Bool) : List (FileView Doc) → Bool
                  | [] => false
                  | fv :: rest => (seenErr && (match fv with | .ok _ t => (parseDoc t).isSome | _ => false)) || go (seenErr || isReported fv) rest
                if go false views then ["error-report-then-valid-change"] else [])
             else [])
          let fail : Option String :=
            match splitOnChar ',' implS with
            | [] => some "empty observation;sig=C15/thread-observation"
            | i0 :: ps =>
              match splitOnChar ':' i0, mapM? decTObs ps with
              | ["init", a0, al0], some ps =>
                match decNat a0, decBool al0 with
                | some a0, some al0 =>
                  if ps.length ≠ steps.length then some "observation shape;sig=C15/thread-observation" else
                  match specThread m0 doc0 m2 doc2 a0 al0 (List.zip steps ps) with
                  | none => none
                  | some (i, why) =>
                    let reportedBefore := (steps.take i).any (fun st => match st with | .edit fv => isReported fv | .longWait => false)
                    let cls :=
                      if edit.isSome ∧ implS = model ∧ !initStatsBeforeRead then "init-read-then-stat"
                      else if ek = "p" ∧ reportedBefore then "poll-loop-dies-on-error-report"
                      else if (pk = "l" ∨ pk = "d") ∧ why = "changed-not-applied" then "symlink-target-edit-not-seen"
                      else "thread-" ++ String.ofList (why.toList.takeWhile (fun c => c.isAlpha || c == '-'))
                    some s!"{why} at step {i};sig=C15/{cls}"
                | _, _ => some "unreadable observation;sig=C15/thread-observation"
              | _, _ => some ("unreadable observation (" ++ implS ++ ");sig=C15/thread-observation")
          some { model, fail, tags }
      | _, _ => none
    | _, _, _, _, _ => none
  | _ => none

def handleThread (docsS histsS : String) (obs : List String) : Answer :=
  match mapM? decDoc (decList '/' docsS), obs with
  | some docs, [implS] =>
    let hists := splitOnChar '|' histsS
    let impls := splitOnChar '|' implS
    let impls := impls ++ List.replicate (hists.length - impls.length) "missing"
    match mapM? (fun (p : String × String) => handleHistory docs p.1 p.2) (List.zip hists impls) with
    | none => badCase "history"
    | some as =>
      { model := "|".intercalate (as.map (·.model)),
        spec := match as.findSome? (·.fail) with
          | none => "ok"
          | some why => "FAIL:" ++ why,
        tags :=
          let ts := (as.flatMap (·.tags)).eraseDups
          "thread" :: (if as.all (fun a => a.tags == ["trivial"]) then ts else ts.filter (· ≠ "trivial")) }
  | none, _ => badCase "docs"
  | _, _ => badCase "arity"

/-! ### (a) racing `set_config` calls through the facade (child process) -/

def decFEvent (n : Nat) (s : String) : Option FEvent :=
  match s.toList with
  | 'a' :: r => (decNat (String.ofList r)).bind (fun k => if 1 ≤ k ∧ k < n then some (FEvent.enter k) else none)
  | 's' :: r => (decNat (String.ofList r)).bind (fun k => if 1 ≤ k ∧ k < n then some (FEvent.finish k) else none)
  | _ => none

def renderNatList (xs : List Nat) : String :=
  if xs.isEmpty then "~" else "+".intercalate ((xs.toArray.qsort (· < ·)).toList.map toString)

def decNatPlus (s : String) : Option (List Nat) := if s = "~" then some [] else mapM? decNat (splitOnChar '+' s)

def renderFSys (cfgs : List MiniCfg) (probes : List (Target × Level)) (s : FSys) : String :=
  s!"{s.maxLevel}:{renderNatList s.atHook}:{renderNatList s.done}:" ++
    "/".intercalate (probes.map (fun p => renderDeliveries (s.record cfgs p.1 p.2)))

/-- observation entry `max:hook:done:probe/probe/…`; a delivery list itself contains `:` -/
def decRaceObs (s : String) : Option RaceObs :=
  match splitOnChar ':' s with
  | _max :: hook :: done :: rest => do
    let hook ← decNatPlus hook
    let done ← decNatPlus done
    let outs ← mapM? decDeliveries (splitOnChar '/' (":".intercalate rest))
    pure { hook, done, outs }
  | _ => none

def handleRace (cfgsS schedS probesS : String) (obs : List String) : Answer :=
  match decCfgs cfgsS with
  | none => badCase "cfgs"
  | some cfgs =>
    match mapM? (decFEvent cfgs.length) (decList ',' schedS), mapM? decProbe (decList ',' probesS), obs with
    | some sched, some probes, [implS] =>
      if probes.isEmpty then badCase "probes" else
      let states := FSys.states setConfigSerialised cfgs (FSys.init cfgs) sched
      let model := ";".intercalate (states.map (renderFSys cfgs probes))
      let overlap := states.any (fun s => s.atHook.length + s.waiting.length ≥ 2)
      let final := states.getLast?
      let tags := ["race"] ++ (if overlap then ["overlapping-set_config"] else ["sequential-set_config"]) ++
        (if states.any (fun s => !s.waiting.isEmpty) then ["blocked-on-lock"] else []) ++
        (match final with
         | some s => if s.quiescent && s.maxLevel ≠ cfgMax cfgs s.store then ["facade-level-of-another-config"] else []
         | none => [])
      match mapM? decRaceObs (splitOnChar ';' implS) with
      | none => { model, spec := "FAIL:" ++ (if implS = "PANIC" then "panic" else "unreadable observation") ++ ";sig=C15/race-observation", tags }
      | some ros =>
        if ros.length ≠ sched.length + 1 then { model, spec := "FAIL:observation shape;sig=C15/race-observation", tags } else
        let spec := match specRace cfgs probes sched ros with
          | none => "ok"
          | some why =>
            let cls := if why.startsWith "two-writers" then "set-config-two-writers-mixed"
                       else "race-" ++ String.ofList (why.toList.takeWhile (fun c => c.isAlpha))
            s!"FAIL:{why};sig=C15/{cls}"
        { model, spec, tags }
    | _, _, _ => badCase "race-fields"

def handle : Handler := fun cas obs =>
  match cas with
  | ["swap", cfgs, scripts, ops] => handleSwap cfgs scripts ops obs
  | ["stress", cfgs, nLog, nRec, iters, probes] => handleStress cfgs nLog nRec iters probes obs
  | ["reload", docs, init, steps] => handleReload docs init steps obs
  | ["thread", docs, hists] => handleThread docs hists obs
  | ["race", cfgs, sched, probes] => handleRace cfgs sched probes obs
  | _ => badCase "kind"

end Driver.C15
