import Driver.Common
namespace Driver.C15
open Driver

def handle : Handler := fun _ _ => badCase "unimplemented"

end Driver.C15
