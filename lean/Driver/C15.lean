import Driver.Common
import Log4rsModel.Reconfig.Spec
/-
C15 driver. Three case kinds (first case field):

  swap    <cfgs> <scripts> <ops>                 => trace   B:tid:t:l , D:tid:tag:a , S:tag , E:tid , P:tid
  stress  <cfgs> <nLog> <nReconf> <iters> <probes>  => per probe the set of distinct delivery lists seen
  reload  <docs> <init d:m:forget> <steps>       => init:active:rate:alive , action:active:rate:alive …

cfgs   : `|`-separated; one cfg = table ; rootLevel ; rootApps ; logger* with logger = t:level:a+b+…
scripts: `;`-separated  cfg:appender:act,act…      act = s<k> (set_config(cfg k)) | l<t>.<level> (log)
docs   : `;`-separated  kind:tag:rate:nonce        kind = g l y c r ; rate = - | seconds
steps  : `,`-separated  w:<doc>:<mtime> | x | d:<mtime> | u:<mtime>
-/
namespace Driver.C15
open Log4rs.Proto Log4rs.Reconfig Driver

/-! ### decoding -/

def decNats (sep : Char) (s : String) : Option (List Nat) :=
  mapM? decNat (decList sep s)

def decLogger (s : String) : Option (Target × Nat × List AppenderId) :=
  match splitOnChar ':' s with
  | [t, lv, apps] => do
    let t ← decNat t; let lv ← decNat lv; let apps ← decNats '+' apps
    pure (t, lv, apps)
  | _ => none

def decCfg (tag : Nat) (s : String) : Option MiniCfg :=
  match splitOnChar ';' s with
  | table :: rl :: ra :: loggers => do
    let table ← decNats ',' table
    let rl ← decNat rl
    let ra ← decNats ',' ra
    let ls ← mapM? decLogger loggers
    let c : MiniCfg := { tag, table, rootLevel := rl, rootApps := ra, loggers := ls }
    if c.valid && rl ≤ 5 && ls.all (fun e => e.2.1 ≤ 5) then some c else none
  | _ => none

def decCfgs (s : String) : Option (List MiniCfg) :=
  let parts := splitOnChar '|' s
  mapM? (fun (p : Nat × String) => decCfg p.1 p.2) (List.zip (List.range parts.length) parts)

def decAct (n : Nat) (s : String) : Option Act :=
  match s.toList with
  | 's' :: r => (decNat (String.ofList r)).bind (fun k => if k < n then some (Act.swap k) else none)
  | 'l' :: r =>
    match splitOnChar '.' (String.ofList r) with
    | [t, l] => do
      let t ← decNat t; let l ← decNat l
      if 1 ≤ l ∧ l ≤ 5 then some (Act.log t l) else none
    | _ => none
  | _ => none

def decScript (n : Nat) (s : String) : Option (Nat × AppenderId × List Act) :=
  match splitOnChar ':' s with
  | [c, a, acts] => do
    let c ← decNat c; let a ← decNat a
    let acts ← mapM? (decAct n) (decList ',' acts)
    pure (c, a, acts)
  | _ => none

/-! ### rendering -/

def renderObs : Obs → String
  | .begin tid t l => s!"B:{tid}:{t}:{l}"
  | .deliver tid tag a => s!"D:{tid}:{tag}:{a}"
  | .swapped tag => s!"S:{tag}"
  | .fin tid => s!"E:{tid}"
  | .panic tid => s!"P:{tid}"

def decObs (s : String) : Option Obs :=
  match splitOnChar ':' s with
  | ["B", a, b, c] => do pure (.begin (← decNat a) (← decNat b) (← decNat c))
  | ["D", a, b, c] => do pure (.deliver (← decNat a) (← decNat b) (← decNat c))
  | ["S", a] => do pure (.swapped (← decNat a))
  | ["E", a] => do pure (.fin (← decNat a))
  | ["P", a] => do pure (.panic (← decNat a))
  | _ => none

def renderDeliveries (ds : List Delivery) : String :=
  if ds.isEmpty then "_" else "+".intercalate (ds.map (fun d => s!"{d.1}:{d.2}"))

def decDeliveries (s : String) : Option (List Delivery) :=
  if s = "_" then some [] else
  mapM? (fun p => match splitOnChar ':' p with
    | [a, b] => do pure ((← decNat a), (← decNat b))
    | _ => none) (splitOnChar '+' s)

def sortStrings (xs : List String) : List String :=
  (xs.toArray.qsort (· < ·)).toList.eraseDups

/-! ### (a) scripted swaps -/

def countSwapsInRecords (trace : List Obs) : Nat × Nat :=
  -- (swaps that happened while some record was open, maximum number of swaps inside one top-level record)
  let r := trace.foldl (fun (acc : Nat × Nat × Nat × Nat) o =>
    let (openDepth, inside, curRun, maxRun) := acc
    match o with
    | .begin _ _ _ => (openDepth + 1, inside, curRun, maxRun)
    | .fin _ => if openDepth = 1 then (0, inside, 0, max maxRun curRun) else (openDepth - 1, inside, curRun, maxRun)
    | .swapped _ => if openDepth > 0 then (openDepth, inside + 1, curRun + 1, max maxRun (curRun + 1))
                    else (openDepth, inside, curRun, maxRun)
    | _ => acc) (0, 0, 0, 0)
  (r.2.1, r.2.2.2)

def handleSwap (cfgsS scriptsS opsS : String) (obs : List String) : Answer :=
  match decCfgs cfgsS with
  | none => badCase "cfgs"
  | some cfgs =>
    let n := cfgs.length
    match mapM? (decScript n) (decList ';' scriptsS), mapM? (decAct n) (decList ',' opsS) with
    | some scripts, some ops =>
      let sc : Scenario := { cfgs, scripts, ops }
      match sc.trace, obs with
      | some trace, [implS] =>
        let model := encList "," (trace.map renderObs)
        match mapM? decObs (decList ',' implS) with
        | none =>
          { model, spec := if implS = "PANIC" then "FAIL:panic;sig=C15/swap-panic" else "FAIL:unreadable observation;sig=C15/swap-observation",
            tags := ["swap"] }
        | some implTrace =>
          let spec := match specTrace cfgs implTrace with
            | none => "ok"
            | some why => "FAIL:" ++ why ++ ";sig=C15/swap-" ++ String.ofList (why.toList.takeWhile (fun c => c.isAlpha))
          let (inside, maxRun) := countSwapsInRecords trace
          let external := trace.any (fun o => match o with | .swapped _ => true | _ => false) && ops.any (fun a => match a with | .swap _ => true | _ => false)
          let sizes := (cfgs.map (·.table.length)).eraseDups
          let nested := trace.any (fun o => match o with | .begin tid _ _ => tid > 0 | _ => false) &&
            scripts.any (fun e => e.2.2.any (fun a => match a with | .log _ _ => true | _ => false))
          let tags := ["swap"] ++
            (if inside > 0 then ["reentrant"] else []) ++
            (if maxRun ≥ 2 then ["multi-swap-in-one-record"] else []) ++
            (if external then ["external-swap"] else []) ++
            (if sizes.length > 1 then ["table-sizes-differ"] else []) ++
            (if nested && inside > 0 then ["nested-log-after-swap"] else []) ++
            (if inside = 0 && !external then ["trivial"] else [])
          { model, spec, tags }
      | none, _ => badCase "no-config"
      | _, _ => badCase "arity"
    | _, _ => badCase "scripts-or-ops"

/-! ### (a) multi-thread stress -/

def decProbe (s : String) : Option (Target × Level) :=
  match splitOnChar '.' s with
  | [t, l] => do
    let t ← decNat t; let l ← decNat l
    if 1 ≤ l ∧ l ≤ 5 then some (t, l) else none
  | _ => none

def handleStress (cfgsS nLogS nRecS itersS probesS : String) (obs : List String) : Answer :=
  match decCfgs cfgsS, decNat nLogS, decNat nRecS, decNat itersS, mapM? decProbe (decList ',' probesS) with
  | some cfgs, some _nLog, some nRec, some _iters, some probes =>
    let probeLine (p : Target × Level) : String :=
      s!"{p.1}.{p.2}=" ++ "/".intercalate (sortStrings (cfgs.map (fun c => renderDeliveries (prescribedBy c p.1 p.2))))
    let afterLine : String :=
      if nRec = 1 then
        "after=" ++ "/".intercalate (sortStrings (cfgs.flatMap (fun c => probes.map (fun p =>
          s!"{c.tag}>{p.1}.{p.2}>" ++ renderDeliveries (prescribedBy c p.1 p.2)))))
      else "after=-"
    let model := ";".intercalate (probes.map probeLine ++ [afterLine, "panics=0"])
    match obs with
    | [implS] =>
      -- the Spec on the implementation's observation
      let parts := splitOnChar ';' implS
      let bad : Option String := parts.findSome? (fun part =>
        match splitOnChar '=' part with
        | ["panics", n] => if n = "0" then none else some "panic"
        | ["after", v] =>
          if v = "-" then none else
          (splitOnChar '/' v).findSome? (fun e =>
            match splitOnChar '>' e with
            | [k, p, ds] =>
              match decNat k, decProbe p, decDeliveries ds with
              | some k, some p, some ds => if specStressAfter cfgs p.1 p.2 k ds then none else some ("stale: after set_config(" ++ toString k ++ ")")
              | _, _, _ => some "unreadable"
            | _ => some "unreadable")
        | [p, v] =>
          match decProbe p with
          | none => some "unreadable"
          | some p =>
            match mapM? decDeliveries (splitOnChar '/' v) with
            | none => some "unreadable"
            | some seen => if specStressProbe cfgs p.1 p.2 seen then none else some "mixed: a record matches no single configuration"
        | _ => some "unreadable")
      let spec := match bad with
        | none => "ok"
        | some why => "FAIL:" ++ why ++ ";sig=C15/stress-" ++ String.ofList (why.toList.takeWhile (fun c => c.isAlpha))
      { model, spec, tags := ["stress", if nRec = 1 then "one-reconfigurer" else "many-reconfigurers"] }
    | _ => badCase "arity"
  | _, _, _, _, _ => badCase "stress-fields"

/-! ### (b) reloader -/
open Log4rs.Reconfig.Reloader

def decDoc (s : String) : Option Doc :=
  match splitOnChar ':' s with
  | [k, tag, rate, nonce] => do
    let kind ← (match k with
      | "g" => some DocKind.good | "l" => some DocKind.lossy | "y" => some DocKind.syntax
      | "c" => some DocKind.schema | "r" => some DocKind.badrate | _ => none)
    let tag ← decNat tag
    let rate ← decOpt decNat rate
    let nonce ← decNat nonce
    pure { kind, tag, rate, nonce }
  | _ => none

def decStep (docs : List Doc) (s : String) : Option (FileView Doc) :=
  match splitOnChar ':' s with
  | ["w", d, m] => do
    let d ← decNat d; let m ← decNat m
    let doc ← docs[d]?
    pure (.ok m doc)
  | ["p", d, m] => do
    -- the path is made to denote another file (a symlink is re-pointed): an edit of the file view
    let d ← decNat d; let m ← decNat m
    let doc ← docs[d]?
    pure (.ok m doc)
  | ["x"] => some .missing
  | ["d", m] => (decNat m).map .unreadable
  | ["u", m] => (decNat m).map .unreadable
  | _ => none

def actionName : Action → String
  | .applied => "applied" | .unchanged => "unchanged" | .error => "error" | .dead => "dead"

def decAction : String → Option Action
  | "applied" => some .applied | "unchanged" => some .unchanged | "error" => some .error | "dead" => some .dead
  | _ => none

def renderState (name : String) (st : RState Doc) : String :=
  s!"{name}:{st.active}:{st.rate}:{encBool st.alive}"

def decPollObs (s : String) : Option (String × PollObs) :=
  match splitOnChar ':' s with
  | [a, act, rate, alive] => do
    let active ← decNat act; let rate ← decNat rate; let alive ← decBool alive
    let action := (decAction a).getD .unchanged
    pure (a, { action, active, rate, alive })
  | _ => none

/-- tags: which kinds of edits the history contains, seen through the model -/
def reloadTags (st0 : RState Doc) (views : List (FileView Doc)) : List String :=
  let rec go (st : RState Doc) (prev : FileView Doc) (seenTexts : List Doc) : List (FileView Doc) → List String
    | [] => []
    | fv :: rest =>
      let r := poll parseDoc codeFixed st fv
      let here : List String :=
        (match fv, prev with
         | .missing, _ => ["delete"]
         | .unreadable _, _ => ["unreadable"]
         | .ok m t, .ok m' t' =>
           (if t = t' ∧ m = m' then ["no-change"] else []) ++
           (if t = t' ∧ m ≠ m' then ["touch-without-change"] else []) ++
           (if t ≠ t' ∧ m = m' then ["same-mtime-edit"] else [])
         | .ok _ _, _ => ["reappears"]) ++
        (match fv with
         | .ok _ t =>
           (match parseDoc t with
            | none => [match t.kind with | .syntax => "syntax-error" | .schema => "schema-error" | _ => "bad-refresh-rate"]
            | some (_, rt) =>
              (if t.kind = .lossy then ["lossy-config"] else []) ++
              (if r.2 == Action.applied then
                 ["valid-change"] ++
                 (if seenTexts.contains t then ["restore"] else []) ++
                 (match rt with
                  | some x => if x ≠ st.rate then ["rate-change"] else []
                  | none => ["rate-removal"])
               else []))
         | _ => []) ++
        (if st.alive ∧ st.modified.isSome ∧ r.1.modified ≠ st.modified ∧ r.2 == .error ∧ fv.text?.isNone then ["mtime-consumed-by-failed-read"] else []) ++
        (if !st.alive then ["after-loop-ended"] else []) ++
        (if st.modified.isNone then ["no-mtime"] else [])
      here ++ go r.1 fv (match fv with | .ok _ t => t :: seenTexts | _ => seenTexts) rest
  (go st0 (.ok (st0.modified.getD 0) st0.source) [st0.source] views).eraseDups

/-- path kinds: `f` plain file, `l` the path is a symlink to the file, `d` a directory component of
the path is a symlink. The model does not distinguish them: the FileView is what the path resolves to. -/
def pathKindTags (pk : String) (stepsS : String) : Option (List String) :=
  let rp := if (decList ',' stepsS).any (fun s => s.startsWith "p:") then ["repoint"] else []
  match pk with
  | "f" => some rp
  | "l" => some ("path-symlink-file" :: rp)
  | "d" => some ("path-symlink-dir" :: rp)
  | _ => none

/-- a file view whose poll makes the loop call `handle_error` -/
def isReported (fv : FileView Doc) : Bool :=
  match fv with
  | .missing => true
  | .unreadable _ => true
  | .ok _ t => (parseDoc t).isNone || t.kind == .lossy

def handleReload (docsS initS stepsS : String) (obs : List String) : Answer :=
  match mapM? decDoc (decList ';' docsS) with
  | none => badCase "docs"
  | some docs =>
    let initF := splitOnChar ':' initS
    let pk := match initF with
      | [_, _, _] => "f"
      | [_, _, _, k] => k
      | _ => "?"
    match initF.take 3, mapM? (decStep docs) (decList ',' stepsS), pathKindTags pk stepsS with
    | [d0, m0, forget], some views, some pkTags =>
      match (decNat d0).bind (docs[·]?), decNat m0, decBool forget with
      | some doc0, some m0, some forget =>
        let mt : Option Mtime := if forget then none else some m0
        match initState parseDoc mt doc0, obs with
        | none, [implS] =>
          { model := "init-err", spec := if implS = "init-err" then "ok" else "FAIL:init accepted an unparsable file;sig=C15/reload-init",
            tags := ["reload", "trivial"] }
        | some st0, [implS] =>
          let states := pollAll parseDoc codeFixed st0 views
          let model := ",".intercalate (renderState "init" st0 :: states.map (fun p => renderState (actionName p.1) p.2))
          let tags := "reload" :: (reloadTags st0 views ++ pkTags)
          let implParts := splitOnChar ',' implS
          match mapM? decPollObs implParts with
          | none =>
            { model, spec := "FAIL:" ++ (if implS = "PANIC" then "panic" else "unreadable observation") ++ ";sig=C15/reload-observation", tags }
          | some [] => badCase "empty observation"
          | some ((n0, i0) :: ps) =>
            if n0 ≠ "init" ∨ ps.length ≠ views.length ∨ ps.any (fun p => (decAction p.1).isNone) then
              { model, spec := "FAIL:observation shape;sig=C15/reload-observation", tags }
            else
              let verdict := specHistory parseDoc mt doc0 i0 (List.zip views (ps.map (·.2)))
              let spec := match verdict with
                | none => "ok"
                | some (i, why) =>
                  -- classify: the implementation behaves exactly as the model of the unpatched code, a failed
                  -- read consumed an mtime earlier in this history and the code model with
                  -- the patch (`fixed = true`) satisfies the whole spec on it ⇒ the known defect (a changed
                  -- file is applied late or never)
                  let fixedStates := pollAll parseDoc true st0 views
                  let fixedObs : List PollObs := fixedStates.map (fun p => { action := p.1, active := p.2.active, rate := p.2.rate, alive := p.2.alive })
                  let fixedOk := (specHistory parseDoc mt doc0 i0 (List.zip views fixedObs)).isNone
                  let cls := if fixedOk ∧ implS = model ∧ tags.contains "mtime-consumed-by-failed-read"
                    then "reload-mtime-consumed-by-failed-read"
                    else if pk ≠ "f" ∧ why = "changed-not-applied" then "symlink-target-edit-not-seen"
                    else "reload-" ++ String.ofList (why.toList.takeWhile (fun c => c.isAlpha || c == '-'))
                  s!"FAIL:{why} at poll {i};sig=C15/{cls}"
              { model, spec, tags }
        | _, _ => badCase "arity"
      | _, _, _ => badCase "init"
    | _, _, _ => badCase "steps"


/-! ### (b) the real reloader thread (child processes) -/

def decTStep (docs : List Doc) (s : String) : Option (TStep Doc) :=
  if s = "z" then some .longWait else
  match splitOnChar ':' s with
  | ["d", _] => none                       -- directories are not used with the thread
  | _ => (decStep docs s).map .edit

def renderTObs (o : TObs) : String := s!"{o.active}:{encBool o.touched}:{encBool o.alive}"

def decTObs (s : String) : Option (ConfigTag × Bool × Bool) :=
  match splitOnChar ':' s with
  | [a, t, al] => do pure ((← decNat a), (← decBool t), (← decBool al))
  | _ => none

structure HistAnswer where
  model : String
  fail : Option String
  tags : List String

def handleHistory (docs : List Doc) (hist : String) (implS : String) : Option HistAnswer :=
  match splitOnChar '>' hist with
  | [initS, stepsS] =>
    let initF := splitOnChar ':' initS
    -- optional: path kind (f l d) and stderr kind (n = /dev/null, p = pipe with closed reading end)
    let (pk, ek) := match initF with
      | [_, _] => ("f", "n")
      | [_, _, k, e] => (k, e)
      | _ => ("?", "?")
    match initF.take 2, mapM? (decTStep docs) (decList ',' stepsS), pathKindTags pk stepsS, (ek == "n" || ek == "p") with
    | [d0, m0], some steps, some pkTags, true =>
      match (decNat d0).bind (docs[·]?), decNat m0 with
      | some doc0, some m0 =>
        match initState parseDoc (some m0) doc0 with
        | none =>
          some { model := "init-err", fail := if implS = "init-err" then none else some "init accepted an unparsable file;sig=C15/thread-init",
                 tags := ["trivial"] }
        | some st0 =>
          let obs := threadRun parseDoc codeFixed st0 (.ok m0 doc0) steps
          let model := ",".intercalate (s!"init:{st0.active}:{encBool st0.alive}" :: obs.map renderTObs)
          let views : List (FileView Doc) := steps.filterMap (fun s => match s with | .edit fv => some fv | .longWait => none)
          let tags := (reloadTags st0 views).filter (· ≠ "no-mtime") ++
            (if obs.any (fun o => !o.polled) then ["slow-rate-sleeps"] else []) ++
            (if steps.contains .longWait then ["long-wait"] else []) ++ pkTags ++
            (if ek = "p" then
               ["stderr-closed-pipe"] ++
               -- a reported poll failure followed (later) by a valid change that must still be applied
               (let rec go (seenErr : Bool) : List (FileView Doc) → Bool
                  | [] => false
                  | fv :: rest => (seenErr && (match fv with | .ok _ t => (parseDoc t).isSome | _ => false)) || go (seenErr || isReported fv) rest
                if go false views then ["error-report-then-valid-change"] else [])
             else [])
          let fail : Option String :=
            match splitOnChar ',' implS with
            | [] => some "empty observation;sig=C15/thread-observation"
            | i0 :: ps =>
              match splitOnChar ':' i0, mapM? decTObs ps with
              | ["init", a0, al0], some ps =>
                match decNat a0, decBool al0 with
                | some a0, some al0 =>
                  if ps.length ≠ steps.length then some "observation shape;sig=C15/thread-observation" else
                  match specThread m0 doc0 a0 al0 (List.zip steps ps) with
                  | none => none
                  | some (i, why) =>
                    let reportedBefore := (steps.take i).any (fun st => match st with | .edit fv => isReported fv | .longWait => false)
                    let cls :=
                      if ek = "p" ∧ reportedBefore then "poll-loop-dies-on-error-report"
                      else if pk ≠ "f" ∧ why = "changed-not-applied" then "symlink-target-edit-not-seen"
                      else "thread-" ++ String.ofList (why.toList.takeWhile (fun c => c.isAlpha || c == '-'))
                    some s!"{why} at step {i};sig=C15/{cls}"
                | _, _ => some "unreadable observation;sig=C15/thread-observation"
              | _, _ => some ("unreadable observation (" ++ implS ++ ");sig=C15/thread-observation")
          some { model, fail, tags }
      | _, _ => none
    | _, _, _, _ => none
  | _ => none

def handleThread (docsS histsS : String) (obs : List String) : Answer :=
  match mapM? decDoc (decList '/' docsS), obs with
  | some docs, [implS] =>
    let hists := splitOnChar '|' histsS
    let impls := splitOnChar '|' implS
    let impls := impls ++ List.replicate (hists.length - impls.length) "missing"
    match mapM? (fun (p : String × String) => handleHistory docs p.1 p.2) (List.zip hists impls) with
    | none => badCase "history"
    | some as =>
      { model := "|".intercalate (as.map (·.model)),
        spec := match as.findSome? (·.fail) with
          | none => "ok"
          | some why => "FAIL:" ++ why,
        tags :=
          let ts := (as.flatMap (·.tags)).eraseDups
          "thread" :: (if as.all (fun a => a.tags == ["trivial"]) then ts else ts.filter (· ≠ "trivial")) }
  | none, _ => badCase "docs"
  | _, _ => badCase "arity"

def handle : Handler := fun cas obs =>
  match cas with
  | ["swap", cfgs, scripts, ops] => handleSwap cfgs scripts ops obs
  | ["stress", cfgs, nLog, nRec, iters, probes] => handleStress cfgs nLog nRec iters probes obs
  | ["reload", docs, init, steps] => handleReload docs init steps obs
  | ["thread", docs, hists] => handleThread docs hists obs
  | _ => badCase "kind"

end Driver.C15
