import Driver.Common
import Log4rsModel.Pattern.WritersErr
import Log4rsModel.Pattern.WidthSpec
/-
C10 driver. Case fields:
  1 forest  comma-separated prefix tokens
              m:<params>       {m…}    the message, written in the scripted pieces of field 3
              l:<params>       {l…}    the level name
              t:<hexstr>       literal text (specials are printed backslash-escaped: each is a piece
                               of its own, as the parser produces them)
              g<k>:<params>    {(…)…}  group of the next k nodes
              h<k>:<params>    {h(…)…} highlight group of the next k nodes
              d<k>:<params>    {D(…)…}       debug-only group      (D<k>: the alias {debug(…)…})
              r<k>:<params>    {R(…)…}       release-only group    (R<k>: the alias {release(…)…})
              x:<src>/<pieces>/<params>   any other formatter: `{<src><spec>}` (src e.g. `t`, `X(k)`,
                               `d(abc)`), writing the given pieces (hex strings joined by `;`) —
                               the text is a case INPUT (the harness fixes the record/MDC/thread)
              w:<raw>/<pieces>            a raw pattern snippet that is NOT under a spec of its own
                               (`Chunk::Error`, e.g. `{bogus:>9}`), writing the given pieces
              y:<rawspec>/<params>        `{m<rawspec>}`: the message under a non-canonical
                               spelling of the spec (`:5.`, `:`, `:<`, `:007.010`) that must parse
                               to <params>
            <params> = fill/align/min/max, fill = `-` or one hex scalar, align = `-`|`L`|`R`,
            min/max = `-` or decimal. A fill is only expressible together with an alignment.
  2 level   1=Error … 5=Trace
  3 message pieces  comma list of hex strings (`~` none); `!` = the Display impl returns Err here
  4 sink script  comma list, one answer per `write` call of the sink: a number (0 = whole buffer,
            k = at most k bytes), `e` = Err, `f` = Err from a real write to /dev/full, `i` =
            Err(Interrupted); `~` none; an exhausted script accepts everything
  5 build profile  `debug` | `release` — the value of `cfg!(debug_assertions)` in the log4rs build
            under test, as probed by the harness; may be omitted when the forest has no d/r node
  6 set_style budget  `-` or n: the (n+1)-th `set_style` call of the sink fails; may be omitted
  a trailing field `@<alt build>` (routing information for ./check) is ignored
Observation: `<bytes hex> <style list>` where the style list is `pos:text/background/intense`
joined by `,` (`~` none); prefixed by `err ` when `encode` returned Err and by `PANIC ` when it
panicked (what reached the sink is observable in every outcome).
-/
namespace Driver.C10
open Driver Log4rs Log4rs.Proto Log4rs.Pattern

def decParams (s : String) : Option Params :=
  match splitOnChar '/' s with
  | [f, a, mn, mx] => do
    let fill ← if f = "-" then some none else
      match decStr f with
      | some [c] => some (some c)
      | _ => none
    let right ← match a with
      | "-" => some none
      | "L" => some (some false)
      | "R" => some (some true)
      | _ => none
    let minW ← decOpt decNat mn
    let maxW ← decOpt decNat mx
    if fill.isSome && right.isNone then none
    else some { fill := fill.getD ' ', right := right.getD false, minW, maxW }
  | _ => none

def levelName : Nat → Option (List Char)
  | 1 => some ['E','R','R','O','R']
  | 2 => some ['W','A','R','N']
  | 3 => some ['I','N','F','O']
  | 4 => some ['D','E','B','U','G']
  | 5 => some ['T','R','A','C','E']
  | _ => none

structure Env where
  /-- `cfg!(debug_assertions)` of the build under test; `none` = not given in the case -/
  buildDebug : Option Bool := none
  level : Nat
  levelText : List Char
  msg : List (Option Piece)

def isSpecial (c : Char) : Bool := c = '{' || c = '}' || c = '(' || c = ')' || c = '\\'

/-- the `Text` pieces the parser makes of a literal printed with backslash escapes: every special
character is a piece of its own, ordinary characters in between are merged -/
def literalPieces (cs : List Char) : List (List Char) :=
  let rec go : List Char → List Char → List (List Char)
    | [], cur => if cur.isEmpty then [] else [cur.reverse]
    | c :: rest, cur =>
      if isSpecial c then (if cur.isEmpty then [] else [cur.reverse]) ++ [[c]] ++ go rest []
      else go rest (c :: cur)
  go cs []

def decPieces (s : String) : Option (List (Option Piece)) :=
  (mapM? decStr (decList ';' s)).map fun ps => ps.map fun cs => some (Piece.data cs)

/-- parse `k` nodes in prefix notation; the Bool is "this node is literal text" (two literal
siblings in a row would be merged by the parser: rejected) -/
def parseNodes (env : Env) : Nat → Nat → List String → Option (List NodeE × List String)
  | _, 0, toks => some ([], toks)
  | 0, _ + 1, _ => none
  | fuel + 1, k + 1, toks =>
    match toks with
    | [] => none
    | tok :: rest =>
      -- two literal siblings in a row would be one `Text` piece for the parser: not a valid case
      if tok.startsWith "t:" && k ≥ 1 && (rest.head?.any (·.startsWith "t:")) then none else
      match splitOnChar ':' tok with
      | [head, arg] =>
        let kind := head.toList.head?
        let cnt := (String.ofList (head.toList.drop 1)).toNat?
        let one : Option (NodeE × List String) :=
          match kind, cnt with
          | some 'm', none => (decParams arg).map fun p => (NodeE.fmt p [NodeE.leaf env.msg], rest)
          | some 'l', none => (decParams arg).map fun p =>
              (NodeE.fmt p [NodeE.leaf [some (Piece.data env.levelText)]], rest)
          | some 't', none => (decStr arg).map fun cs =>
              (NodeE.leaf ((literalPieces cs).map fun x => some (Piece.data x)), rest)
          | some 'x', none =>
            match splitOnChar '/' arg with
            | [_src, pcs, f, a, mn, mx] =>
              match decPieces pcs, decParams ("/".intercalate [f, a, mn, mx]) with
              | some ps, some p => some (NodeE.fmt p [NodeE.leaf ps], rest)
              | _, _ => none
            | _ => none
          | some 'w', none =>
            match splitOnChar '/' arg with
            | [_raw, pcs] => (decPieces pcs).map fun ps => (NodeE.leaf ps, rest)
            | _ => none
          | some 'y', none =>
            match splitOnChar '/' arg with
            | [_raw, f, a, mn, mx] =>
              (decParams ("/".intercalate [f, a, mn, mx])).map fun p =>
                (NodeE.fmt p [NodeE.leaf env.msg], rest)
            | _ => none
          | some 'g', some n =>
            match decParams arg, parseNodes env fuel n rest with
            | some p, some (cs, rest') => some (NodeE.fmt p cs, rest')
            | _, _ => none
          | some 'h', some n =>
            match decParams arg, parseNodes env fuel n rest with
            | some p, some (cs, rest') =>
              match highlightStyle env.level with
              | some st =>
                some (NodeE.fmt p ([NodeE.leaf [some (Piece.style st)]] ++ cs ++
                  [NodeE.leaf [some (Piece.style Style.plain)]]), rest')
              | none => some (NodeE.fmt p cs, rest')
            | _, _ => none
          | some 'd', some n | some 'D', some n =>
            match env.buildDebug, decParams arg, parseNodes env fuel n rest with
            | some bd, some p, some (cs, rest') => some (NodeE.gated bd p cs, rest')
            | _, _, _ => none
          | some 'r', some n | some 'R', some n =>
            match env.buildDebug, decParams arg, parseNodes env fuel n rest with
            | some bd, some p, some (cs, rest') => some (NodeE.gated (!bd) p cs, rest')
            | _, _, _ => none
          | _, _ => none
        match one with
        | none => none
        | some (nd, rest') =>
          match parseNodes env fuel k rest' with
          | some (nds, rest'') => some (nd :: nds, rest'')
          | none => none
      | _ => none

def parseForestFuel (env : Env) : Nat → List String → Option (List NodeE)
  | _, [] => some []
  | 0, _ :: _ => none
  | fuel + 1, toks =>
    if (toks.head?.any (·.startsWith "t:")) && ((toks.drop 1).head?.any (·.startsWith "t:")) then none else
    match parseNodes env (toks.length + 1) 1 toks with
    | some ([nd], rest) => (parseForestFuel env fuel rest).map (nd :: ·)
    | _ => none

def parseForest (env : Env) (toks : List String) : Option (List NodeE) :=
  parseForestFuel env toks.length toks

def encOptNat : Option Nat → String
  | none => "-"
  | some n => toString n

def encStyle (s : Style) : String :=
  encOptNat s.text ++ "/" ++ encOptNat s.background ++ "/" ++
    (match s.intense with | none => "-" | some b => encBool b)

def encObs (evs : List BEv) : String :=
  encBytes (bytesOf evs) ++ " " ++
    encList "," ((stylePositions evs 0).map fun (pos, s) => toString pos ++ ":" ++ encStyle s)

mutual
def depth : Node → Nat
  | .leaf _ => 0
  | .fmt p cs => (if p.minW.isSome || p.maxW.isSome then 1 else 0) + depths cs
  | .gated true p cs => (if p.minW.isSome || p.maxW.isSome then 1 else 0) + depths cs
  | .gated false p _ => (if p.minW.isSome || p.maxW.isSome then 1 else 0)
def depths : List Node → Nat
  | [] => 0
  | n :: ns => max (depth n) (depths ns)
end

def multiByte (c : Char) : Bool := c.toNat ≥ 128

def isCombining (c : Char) : Bool :=
  (0x300 ≤ c.toNat && c.toNat ≤ 0x36F) || c.toNat = 0x200D

def fillClass (c : Char) : String :=
  if isCombining c then "fill-combining"
  else if c.toNat ≥ 0x10000 then "fill-4b"
  else if c.toNat ≥ 0x800 then "fill-3b"
  else if c.toNat ≥ 0x80 then "fill-2b"
  else if isSpecial c || c = ':' || c = '<' || c = '>' || c = '.' || ('0' ≤ c && c ≤ '9') then "fill-syntax"
  else "fill-ascii"

/-- branch tags of one width spec `p` applied to the operation stream `inner` -/
def tagsHere (p : Params) (inner : Out) : List String :=
  let t := inner.text
  let n := t.length
  (match p.maxW with
    | some M =>
      (if n > M then ["trunc"] else []) ++
      (if n > M && ((t.drop M).head?.any multiByte || (t.take M).getLast?.any multiByte)
        then ["cut-at-multibyte"] else []) ++
      (if n > M && (t.drop M).head?.any isCombining then ["cut-before-combining"] else []) ++
      (if M = 0 then ["max0"] else [])
    | none => []) ++
  (match p.minW with
    | some m =>
      (if m > n then [if p.right then "pad-right" else "pad-left", fillClass p.fill] else []) ++
      (if m > n && multiByte p.fill then ["fill-multibyte"] else []) ++
      (if m > 0 && n = 0 then [if p.right then "pad-empty-right" else "pad-empty-left"] else [])
    | none => []) ++
  (match p.minW, p.maxW with
    | some m, some M => if m > M then ["m>M"] else []
    | _, _ => []) ++
  (if t.any isCombining then ["text-combining"] else []) ++
  (if t.any (fun c => c.toNat ≥ 0x10000) then ["text-4b"] else []) ++
  (if p.right && p.minW.isSome && !inner.styles.isEmpty then ["style-buffered"] else []) ++
  (if p.maxW.isSome && !inner.styles.isEmpty then ["style-through-max"] else [])

mutual
/-- branch tags of a node, computed along the model's operation stream -/
def tagsNode : Node → List String
  | .leaf _ => []
  | .fmt p cs => tagsHere p (denotes cs) ++ tagsNodes cs
  | .gated true p cs => "group-active" :: (tagsHere p (denotes cs) ++ tagsNodes cs)
  | .gated false p _ =>
    "group-inactive" ::
      ((if p.minW.any (· > 0) then ["inactive-with-min"] else []) ++ tagsHere p [])
def tagsNodes : List Node → List String
  | [] => []
  | n :: ns => tagsNode n ++ tagsNodes ns
end

mutual
def hasEmptyPiece : NodeE → Bool
  | .leaf ps => ps.any fun | some (.data []) => true | _ => false
  | .fmt _ cs => hasEmptyPieces cs
  | .gated _ _ cs => hasEmptyPieces cs
def hasEmptyPieces : List NodeE → Bool
  | [] => false
  | n :: ns => hasEmptyPiece n || hasEmptyPieces ns
end

def decProfile : Option String → Option (Option Bool)
  | none => some none
  | some "debug" => some (some true)
  | some "release" => some (some false)
  | _ => none

def decAcc (s : String) : Option Acc :=
  if s = "e" || s = "f" then some Acc.fail
  else if s = "i" then some Acc.intr
  else (decNat s).map Acc.take

def decMsgPiece (s : String) : Option (Option Piece) :=
  if s = "!" then some none else (decStr s).map fun cs => some (Piece.data cs)

/-- `err <bytes> <styles>` / `PANIC <bytes> <styles>` / `<bytes> <styles>` -/
def decObs (implObs : String) : Option (Option Stop × Bytes) :=
  match splitOnChar ' ' implObs with
  | ["err", b, _] => (decBytes b).map fun bs => (some Stop.ioErr, bs)
  | ["PANIC", b, _] => (decBytes b).map fun bs => (some Stop.fmtPanic, bs)
  | [b, _] => (decBytes b).map fun bs => (none, bs)
  | _ => none

def encOutcome : Option Stop → String
  | none => ""
  | some .ioErr => "err "
  | some .fmtPanic => "PANIC "

/-- the specification, evaluated on the implementation's observation -/
def specVerdict (forest : List Node) (obs : Option (Option Stop × Bytes)) (implObs : String) : String :=
  let bound : Option Nat := match forest with
    | [Node.fmt p _] => p.maxW
    | [Node.gated _ p _] => p.maxW
    | _ => none
  let ordered := Node.orderedAll forest
  match obs with
  | none => "FAIL:unreadable-observation(" ++ implObs ++ ");sig=C10/outcome"
  | some (none, bs) =>
    match decodeUtf8 bs with
    | none => "FAIL:invalid-utf8;sig=C10/invalid-utf8"
    | some text =>
      if bound.any (fun M => text.length > M) then "FAIL:more-than-M-characters;sig=C10/exceeds-max"
      else if ordered && text ≠ specTexts forest then
        "FAIL:law expected " ++ encStr (specTexts forest) ++ ";sig=C10/law"
      else if !matchNodes forest text then
        "FAIL:no-segmentation-satisfies-the-statement (exact law on every m<=M subtree, at most M characters elsewhere);sig=C10/law-segments"
      else "ok"
  | some (some _, bs) =>
    -- a failing run: complete characters plus at most one incomplete one, a prefix of the law
    match decodeUpTo bs with
    | none => "FAIL:invalid-utf8-before-the-failure;sig=C10/err-invalid-utf8"
    | some (text, tail) =>
      if bound.any (fun M => text.length + (if tail.isEmpty then 0 else 1) > M) then
        "FAIL:more-than-M-characters-before-the-failure;sig=C10/err-exceeds-max"
      else if ordered && !(bs.isPrefixOf (utf8 (specTexts forest))) then
        "FAIL:bytes-before-the-failure-are-not-a-prefix-of-the-law;sig=C10/err-prefix"
      else "ok"

def handle : Handler := fun cas obs =>
  match cas, obs with
  | forestS :: levelS :: msgS :: scriptS :: more0, implObs :: _ =>
    -- a trailing `@<alt build>` field only routes the case to a harness binary
    let more := if more0.getLast?.any (·.startsWith "@") then more0.dropLast else more0
    if more.length > 2 then badCase "arity" else
    match decProfile more.head?, decOpt decNat ((more.drop 1).head?.getD "-"),
      decNat levelS, mapM? decMsgPiece (decList ',' msgS), mapM? decAcc (decList ',' scriptS) with
    | some buildDebug, some styleBudget, some level, some msg, some script =>
      match levelName level with
      | none => badCase "level"
      | some levelText =>
        let env : Env := { buildDebug, level, levelText, msg }
        let toks := decList ',' forestS
        match parseForest env toks with
        | none => badCase "forest"
        | some forestE =>
          let res := encodeNodesE forestE (WE.sink script styleBudget [])
          let (stop, evs) := res.observe
          let model := encOutcome stop ++ encObs evs
          let forest := NodeE.eraseAll forestE
          let spec := specVerdict forest (decObs implObs) implObs
          let d := depths forest
          let base := tagsNodes forest
          let faulty := script.any (fun a => a = Acc.fail || a = Acc.intr) || styleBudget.isSome ||
            msg.any Option.isNone
          let tags := base.eraseDups ++
            (if d ≥ 2 then ["nest" ++ toString d] else []) ++
            (if script.any (fun a => match a with | .take k => k ≠ 0 | _ => false) then ["short-writes"] else []) ++
            (if script.any (fun a => match a with | .take k => k > 5 | _ => false) then ["wide-accepts"] else []) ++
            (if msg.length > 1 then ["msg-pieces"] else []) ++
            (if hasEmptyPieces forestE then ["empty-piece"] else []) ++
            (if toks.any (·.startsWith "t:") && d ≥ 1 then ["literal-with-spec"] else []) ++
            (if toks.any (·.startsWith "x:") then ["other-formatter"] else []) ++
            (if toks.any (·.startsWith "w:") then ["error-chunk"] else []) ++
            (if toks.any (·.startsWith "y:") then ["noncanonical-spec"] else []) ++
            (if script.any (· = Acc.fail) then ["sink-err-scripted"] else []) ++
            (if script.any (· = Acc.intr) then ["sink-interrupted-scripted"] else []) ++
            (if styleBudget.isSome then ["style-err-scripted"] else []) ++
            (if msg.any Option.isNone then ["display-err-scripted"] else []) ++
            (match stop with
              | some .ioErr => ["stopped-io-error"]
              | some .fmtPanic => ["stopped-display-panic"]
              | none => if faulty then ["faults-not-reached"] else []) ++
            (if stop.isSome && (decodeUtf8 (bytesOf evs)).isNone then ["stopped-mid-character"] else []) ++
            (if stop.isSome && base.contains "pad-right" then ["stopped-with-right-align"] else []) ++
            (if d = 0 then ["trivial"] else [])
          { model, spec, tags }
    | _, _, _, _, _ => badCase "fields"
  | _, _ => badCase "arity"

end Driver.C10
