import Driver.Common
namespace Driver.C10
open Driver

def handle : Handler := fun _ _ => badCase "unimplemented"

end Driver.C10
