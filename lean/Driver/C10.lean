import Driver.Common
import Log4rsModel.Pattern.Writers
/-
C10 driver. Case fields:
  1 forest  comma-separated prefix tokens
              m:<params>       {m…}    the message, written in the scripted pieces of field 3
              l:<params>       {l…}    the level name
              t:<hexstr>       literal text
              g<k>:<params>    {(…)…}  group of the next k nodes
              h<k>:<params>    {h(…)…} highlight group of the next k nodes
              d<k>:<params>    {D(…)…}       debug-only group      (D<k>: the alias {debug(…)…})
              r<k>:<params>    {R(…)…}       release-only group    (R<k>: the alias {release(…)…})
            <params> = fill/align/min/max, fill = `-` or one hex scalar, align = `-`|`L`|`R`,
            min/max = `-` or decimal. A fill is only expressible together with an alignment.
  2 level   1=Error … 5=Trace
  3 message pieces  comma list of hex strings (`~` none)
  4 sink acceptance script  comma list of numbers (0 = whole buffer), `~` none
  5 build profile  `debug` | `release` — the value of `cfg!(debug_assertions)` in the log4rs build
            under test, as probed by the harness; may be omitted when the forest has no d/r node
Observation: `<bytes hex> <style list>` where the style list is `pos:text/background/intense`
joined by `,` (`~` none) — or `PANIC` / `err`.
-/
namespace Driver.C10
open Driver Log4rs Log4rs.Proto Log4rs.Pattern

def decParams (s : String) : Option Params :=
  match splitOnChar '/' s with
  | [f, a, mn, mx] => do
    let fill ← if f = "-" then some none else
      match decStr f with
      | some [c] => some (some c)
      | _ => none
    let right ← match a with
      | "-" => some none
      | "L" => some (some false)
      | "R" => some (some true)
      | _ => none
    let minW ← decOpt decNat mn
    let maxW ← decOpt decNat mx
    if fill.isSome && right.isNone then none
    else some { fill := fill.getD ' ', right := right.getD false, minW, maxW }
  | _ => none

def levelName : Nat → Option (List Char)
  | 1 => some ['E','R','R','O','R']
  | 2 => some ['W','A','R','N']
  | 3 => some ['I','N','F','O']
  | 4 => some ['D','E','B','U','G']
  | 5 => some ['T','R','A','C','E']
  | _ => none

structure Env where
  /-- `cfg!(debug_assertions)` of the build under test; `none` = not given in the case -/
  buildDebug : Option Bool := none
  level : Nat
  levelText : List Char
  msg : List Piece

/-- parse `k` nodes in prefix notation -/
def parseNodes (env : Env) : Nat → Nat → List String → Option (List Node × List String)
  | _, 0, toks => some ([], toks)
  | 0, _ + 1, _ => none
  | fuel + 1, k + 1, toks =>
    match toks with
    | [] => none
    | tok :: rest =>
      match splitOnChar ':' tok with
      | [head, arg] =>
        let kind := head.toList.head?
        let cnt := (String.ofList (head.toList.drop 1)).toNat?
        let one : Option (Node × List String) :=
          match kind, cnt with
          | some 'm', none => (decParams arg).map fun p => (Node.fmt p [Node.leaf env.msg], rest)
          | some 'l', none => (decParams arg).map fun p =>
              (Node.fmt p [Node.leaf [Piece.data env.levelText]], rest)
          | some 't', none => (decStr arg).map fun cs => (Node.leaf [Piece.data cs], rest)
          | some 'g', some n =>
            match decParams arg, parseNodes env fuel n rest with
            | some p, some (cs, rest') => some (Node.fmt p cs, rest')
            | _, _ => none
          | some 'h', some n =>
            match decParams arg, parseNodes env fuel n rest with
            | some p, some (cs, rest') =>
              match highlightStyle env.level with
              | some st =>
                some (Node.fmt p ([Node.leaf [Piece.style st]] ++ cs ++ [Node.leaf [Piece.style Style.plain]]), rest')
              | none => some (Node.fmt p cs, rest')
            | _, _ => none
          | some 'd', some n | some 'D', some n =>
            match env.buildDebug, decParams arg, parseNodes env fuel n rest with
            | some bd, some p, some (cs, rest') => some (Node.debugGroup bd p cs, rest')
            | _, _, _ => none
          | some 'r', some n | some 'R', some n =>
            match env.buildDebug, decParams arg, parseNodes env fuel n rest with
            | some bd, some p, some (cs, rest') => some (Node.releaseGroup bd p cs, rest')
            | _, _, _ => none
          | _, _ => none
        match one with
        | none => none
        | some (nd, rest') =>
          match parseNodes env fuel k rest' with
          | some (nds, rest'') => some (nd :: nds, rest'')
          | none => none
      | _ => none

def parseForestFuel (env : Env) : Nat → List String → Option (List Node)
  | _, [] => some []
  | 0, _ :: _ => none
  | fuel + 1, toks =>
    match parseNodes env (toks.length + 1) 1 toks with
    | some ([nd], rest) => (parseForestFuel env fuel rest).map (nd :: ·)
    | _ => none

def parseForest (env : Env) (toks : List String) : Option (List Node) :=
  parseForestFuel env toks.length toks

def encOptNat : Option Nat → String
  | none => "-"
  | some n => toString n

def encStyle (s : Style) : String :=
  encOptNat s.text ++ "/" ++ encOptNat s.background ++ "/" ++
    (match s.intense with | none => "-" | some b => encBool b)

def encObs (evs : List BEv) : String :=
  encBytes (bytesOf evs) ++ " " ++
    encList "," ((stylePositions evs 0).map fun (pos, s) => toString pos ++ ":" ++ encStyle s)

mutual
def depth : Node → Nat
  | .leaf _ => 0
  | .fmt p cs => (if p.minW.isSome || p.maxW.isSome then 1 else 0) + depths cs
  | .gated true p cs => (if p.minW.isSome || p.maxW.isSome then 1 else 0) + depths cs
  | .gated false p _ => (if p.minW.isSome || p.maxW.isSome then 1 else 0)
def depths : List Node → Nat
  | [] => 0
  | n :: ns => max (depth n) (depths ns)
end

def multiByte (c : Char) : Bool := c.toNat ≥ 128

/-- branch tags of one width spec `p` applied to the operation stream `inner` -/
def tagsHere (p : Params) (inner : Out) : List String :=
  let t := inner.text
  let n := t.length
  (match p.maxW with
    | some M =>
      (if n > M then ["trunc"] else []) ++
      (if n > M && ((t.drop M).head?.any multiByte || (t.take M).getLast?.any multiByte)
        then ["cut-at-multibyte"] else []) ++
      (if M = 0 then ["max0"] else [])
    | none => []) ++
  (match p.minW with
    | some m =>
      (if m > n then [if p.right then "pad-right" else "pad-left"] else []) ++
      (if m > n && multiByte p.fill then ["fill-multibyte"] else []) ++
      (if m > 0 && n = 0 then [if p.right then "pad-empty-right" else "pad-empty-left"] else [])
    | none => []) ++
  (match p.minW, p.maxW with
    | some m, some M => if m > M then ["m>M"] else []
    | _, _ => []) ++
  (if p.right && p.minW.isSome && !inner.styles.isEmpty then ["style-buffered"] else []) ++
  (if p.maxW.isSome && !inner.styles.isEmpty then ["style-through-max"] else [])

mutual
/-- branch tags of a node, computed along the model's operation stream -/
def tagsNode : Node → List String
  | .leaf _ => []
  | .fmt p cs => tagsHere p (denotes cs) ++ tagsNodes cs
  | .gated true p cs => "group-active" :: (tagsHere p (denotes cs) ++ tagsNodes cs)
  | .gated false p _ =>
    "group-inactive" ::
      ((if p.minW.any (· > 0) then ["inactive-with-min"] else []) ++ tagsHere p [])
def tagsNodes : List Node → List String
  | [] => []
  | n :: ns => tagsNode n ++ tagsNodes ns
end

def decProfile : List String → Option (Option Bool)
  | [] => some none
  | ["debug"] => some (some true)
  | ["release"] => some (some false)
  | _ => none

def handle : Handler := fun cas obs =>
  match cas, obs with
  | forestS :: levelS :: msgS :: scriptS :: profileS, implObs :: _ =>
    match decProfile profileS with
    | none => badCase "profile"
    | some buildDebug =>
    match decNat levelS, mapM? decStr (decList ',' msgS), mapM? decNat (decList ',' scriptS) with
    | some level, some msgPieces, some script =>
      match levelName level with
      | none => badCase "level"
      | some levelText =>
        let env : Env := { buildDebug, level, levelText, msg := msgPieces.map Piece.data }
        match parseForest env (decList ',' forestS) with
        | none => badCase "forest"
        | some forest =>
          let w := encodeNodes forest (W.sink script [])
          let model := encObs w.emitted
          -- the specification, evaluated on the implementation's observation
          let ordered := Node.orderedAll forest
          let implBytes := match splitOnChar ' ' implObs with
            | b :: _ => decBytes b
            | [] => none
          let spec : String :=
            match implBytes with
            | none => "FAIL:no-bytes(" ++ implObs ++ ");sig=C10/outcome"
            | some bs =>
              match decodeUtf8 bs with
              | none => "FAIL:invalid-utf8;sig=C10/invalid-utf8"
              | some text =>
                let bound : Option Nat := match forest with
                  | [Node.fmt p _] => p.maxW
                  | [Node.gated _ p _] => p.maxW
                  | _ => none
                if bound.any (fun M => text.length > M) then "FAIL:more-than-M-characters;sig=C10/exceeds-max"
                else if ordered && text ≠ specTexts forest then
                  "FAIL:law expected " ++ encStr (specTexts forest) ++ ";sig=C10/law"
                else "ok"
          let d := depths forest
          let base := tagsNodes forest
          let tags := base.eraseDups ++
            (if d ≥ 2 then ["nest" ++ toString d] else []) ++
            (if script.any (· ≠ 0) then ["short-writes"] else []) ++
            (if msgPieces.length > 1 then ["msg-pieces"] else []) ++
            (if d = 0 then ["trivial"] else [])
          { model, spec, tags }
    | _, _, _ => badCase "fields"
  | _, _ => badCase "arity"

end Driver.C10
