import Driver.Common
namespace Driver.C07
open Driver

def handle : Handler := fun _ _ => badCase "unimplemented"

end Driver.C07
