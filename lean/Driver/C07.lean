import Driver.Common
import Log4rsModel.Roller.Spec
/-
C07 driver.
case   : kind(fw|del)  pattern  base  count  env(name:value,…)  file  init(path:bytes,…)  rolls(bytes|-,…)
         a rolls element `X<dir>` is an interference of the environment between two rolls: the directory <dir>
         (relative path) is removed with everything in it while the roller object stays alive; the
         observation of that element is `rm|snapshot`. The statement then applies afresh to what is left:
         the next rolls must (re)create whatever directories they need (`checkOps` restarts `checkRolls`
         from the snapshot after the removal).
observation (one field): per roll `res|snapshot`, rolls joined by `/`; snapshot = `path:bytes,…`
sorted by path, `~` when empty; res ∈ ok | err | PANIC; `build-err` when the builder rejects.
-/
namespace Driver.C07
open Log4rs.Proto Log4rs.Roller Log4rs Driver

def pathLt : List Char → List Char → Bool
  | [], [] => false
  | [], _ :: _ => true
  | _ :: _, [] => false
  | a :: as, b :: bs => if a.toNat < b.toNat then true else if b.toNat < a.toNat then false else pathLt as bs

def insertSorted (e : Path × Bytes) : List (Path × Bytes) → List (Path × Bytes)
  | [] => [e]
  | x :: xs => if pathLt e.1 x.1 then e :: x :: xs else x :: insertSorted e xs

def sortFiles (fs : List (Path × Bytes)) : List (Path × Bytes) := fs.foldl (fun acc e => insertSorted e acc) []

def encSnap (d : Disk) : String :=
  encList "," ((sortFiles d.files).map (fun e => encStr e.1 ++ ":" ++ encBytes e.2))

def decPair {α β} (f : String → Option α) (g : String → Option β) (s : String) : Option (α × β) :=
  match splitOnChar ':' s with
  | [a, b] => match f a, g b with
    | some x, some y => some (x, y)
    | _, _ => none
  | _ => none

def decSnap (s : String) : Option Disk :=
  (mapM? (decPair decStr decBytes) (decList ',' s)).map (fun fs => ⟨fs⟩)

def decRollObs (s : String) : Option RollObs :=
  match splitOnChar '|' s with
  | [res, "-"] => some { res, snap := Disk.empty, snapless := true }
  | [res, snap] => (decSnap snap).map (fun d => { res, snap := d })
  | _ => none

/-- one element of the rolls field -/
inductive ROp where
  | roll (x : Option Bytes)
  | rmdir (p : Path)

def decROp (s : String) : Option ROp :=
  if s.startsWith "X" then (decStr (s.drop 1).toString).map ROp.rmdir
  else (decOpt decBytes s).map ROp.roll

def underDir (p q : Path) : Bool := (p ++ ['/']).isPrefixOf q

/-- `remove_dir_all(dir)` on the implicit-directory disk -/
def rmDir (d : Disk) (p : Path) : Disk := ⟨d.files.filter (fun e => !underDir p e.1)⟩

structure Case where
  isDelete : Bool
  pattern : List Char
  base : Nat
  count : Nat
  env : List (List Char × List Char)
  file : Path
  init : Disk
  rolls : List (Option Bytes)
  /-- the rolls field with the environment's directory removals in place -/
  ops : List ROp := []
  /-- background-rotation build: per roll, was quiescence awaited (and a snapshot taken) -/
  bg : Option (List Bool) := none

def decCase : List String → Option Case
  | [kind, pat, b, c, env, file, init, rolls] => do
    let isDelete ← (if kind = "del" then some true else if kind = "fw" then some false else none)
    let pattern ← decStr pat
    let base ← decNat b
    let count ← decNat c
    let env ← mapM? (decPair decStr decStr) (decList ',' env)
    let file ← decStr file
    let init ← decSnap init
    let ops ← mapM? decROp (decList ',' rolls)
    let rolls := ops.filterMap (fun o => match o with | .roll x => some x | .rmdir _ => none)
    pure { isDelete, pattern, base, count, env, file, init, rolls, ops }
  | _ => none

/-- `… @bg sched`: the same case executed by the harness built with `background_rotation` -/
def decCaseBg (fields : List String) : Option Case :=
  match fields with
  | [k, p, b, c, e, f, i, r, "@bg", sched] => do
    let cs ← decCase [k, p, b, c, e, f, i, r]
    let ws ← mapM? (fun x => if x = "w" then some true else if x = "n" then some false else none) (decList ',' sched)
    if ws.length ≠ cs.rolls.length || cs.isDelete || cs.ops.length ≠ cs.rolls.length then none else pure { cs with bg := some ws }
  | _ => decCase fields

def Case.roller (c : Case) : RollerCfg := mkRoller (expandEnv c.env) id c.pattern c.base c.count

def renderRes : Outcome FsErr Disk → String
  | .ok _ => "ok"
  | .err _ => "err"
  | .panic _ => "PANIC"

/-- the executor runs every roll with fd 1 on `/dev/full` (harness `quiet_stdout`): stdout is not
writable. With the roller as it is now (`printsOnError = false`) the value does not matter
(`C07_failed_roll_is_error`). -/
def stdoutWritable : Bool := false

/-- the model's run: write the file, roll, snapshot — for every roll -/
def runModel (c : Case) : Disk → List ROp → List String
  | _, [] => []
  | d, .rmdir p :: rest =>
    let d' := rmDir d p
    ("rm|" ++ encSnap d') :: runModel c d' rest
  | d, .roll x :: rest =>
    let d1 := match x with
      | some x => d.set c.file x
      | none => d
    let (res, d2) :=
      if c.isDelete then
        match deleteRoll c.file (fun _ => false) d1 with
        | (.ok a, b) => ((Outcome.ok a : Outcome FsErr Disk), b)
        | (.error e, b) => (.err e, b)
      else rollProc stdoutWritable c.roller c.file (fun _ => false) d1
    (renderRes res ++ "|" ++ encSnap d2) :: runModel c d2 rest

/-- background rotation: `roll` returns Ok once the file is renamed to the temp name (a missing
file is tolerated by `move_file`) and the rotation thread is spawned; at quiescence the disk is the
foreground disk (`C07_background_quiescent_eq_foreground`); no snapshot where the harness did not
wait. Count 0 is the synchronous `remove_file` of the foreground code. -/
def runModelBg (c : Case) (fg : List String) (ws : List Bool) : List String :=
  (fg.zip ws).map (fun (o, w) =>
    let parts := splitOnChar '|' o
    let res := if c.count = 0 then parts.headD "" else "ok"
    let snap := (parts.drop 1).headD ""
    res ++ "|" ++ (if w then snap else "-"))

/-- the specification over a history with directory removals: `checkRolls` on every stretch of rolls
between two removals, each stretch starting from the directory as it is after the removal -/
def checkOps (c : Case) (sc : SpecCfg) (prev : Disk) (seg : List (Option Bytes × RollObs)) :
    List (ROp × RollObs) → Option String
  | [] => checkSeg prev seg.reverse
  | (.roll x, o) :: rest => checkOps c sc prev ((x, o) :: seg) rest
  | (.rmdir p, o) :: rest =>
    match checkSeg prev seg.reverse with
    | some e => some e
    | none =>
      let before := match seg with
        | (_, last) :: _ => last.snap
        | [] => prev
      if o.res ≠ "rm" || sortFiles o.snap.files ≠ sortFiles (rmDir before p).files then
        some "harness: directory removal not as described"
      else checkOps c sc o.snap [] rest
where
  checkSeg (init : Disk) (seg : List (Option Bytes × RollObs)) : Option String :=
    let initWin := sc.names.filterMap (fun nm => init.get? nm)
    let initRolled := (sc.names.map (fun nm => init.get? nm)).takeWhile Option.isSome |>.filterMap id
    checkRolls sc initWin init initRolled seg

def countHoles : List Char → Nat
  | [] => 0
  | '{' :: '}' :: rest => 1 + countHoles rest
  | _ :: rest => countHoles rest

def tagsOf (c : Case) : List String :=
  let r := c.roller
  let win := (List.range c.count).map (fun j => slot r c.init (c.base + j))
  let nRolls := c.rolls.length
  let names := windowNames r
  let hasGap := (win.dropWhile Option.isNone).any Option.isNone &&
    ((win.dropWhile Option.isNone).dropWhile Option.isSome).any Option.isSome
  let leadGap := match win with
    | none :: rest => rest.any Option.isSome
    | _ => false
  let bystanders := c.init.files.filter (fun e => e.1 ≠ c.file && !names.contains e.1)
  let lastSlash := c.pattern.reverse.dropWhile (· ≠ '/')
  (if c.isDelete then ["delete"] else if c.count = 0 then ["count0"] else ["fw"]) ++
  (if !c.isDelete && c.count ≠ 0 && nRolls > c.count then ["evict"] else []) ++
  (if !c.isDelete && c.count ≥ 3 && nRolls ≥ 2 then ["shift-chain"] else []) ++
  (if !c.isDelete && win.any Option.isSome then ["preexisting"] else []) ++
  (if !c.isDelete && (hasGap || leadGap) then ["gap"] else []) ++
  (if !bystanders.isEmpty then ["bystander"] else []) ++
  (if !c.isDelete && countHoles c.pattern ≥ 2 then ["repeat"] else []) ++
  (if !c.isDelete && hasHole lastSlash.reverse then ["dir-index"] else []) ++
  (if !c.isDelete && c.pattern ≠ expandEnv c.env c.pattern then ["env"] else []) ++
  (match compressionOf c.pattern with
    | .gzip => if c.isDelete then [] else ["gz"]
    | .zstd => if c.isDelete then [] else ["zst"]
    | .none => []) ++
  (if c.rolls.any Option.isNone then ["missing-file"] else []) ++
  (if !c.isDelete && c.count ≠ 0 && (c.rolls.dropLast).any Option.isNone then ["missing-mid"] else []) ++
  (if !c.isDelete && c.count ≥ 6 then ["big-window"] else []) ++
  (if c.ops.length ≠ c.rolls.length then ["dir-removed"] else []) ++
  (if !c.isDelete && c.count ≠ 0 && U32_MOD = c.base + c.count then ["u32-boundary"] else []) ++
  (if !c.isDelete && !representable c.base c.count then ["u32-unrepresentable"] else []) ++
  (if !c.isDelete && !hasHole c.pattern then ["no-hole"] else []) ++
  (match c.bg with
    | some ws => ["bg"] ++ (if ws.any (fun w => !w) then ["bg-overlap"] else [])
    | none => []) ++
  (if nRolls = 0 then ["trivial"] else [])

def signature (c : Case) (clause : String) : String :=
  if !c.isDelete && c.count ≠ 0 && U32_MOD ≤ c.base + c.count then "C07/base-plus-count-overflows-u32"
  else if clause = "build" then "C07/build-rejected"
  else if clause = "roll panicked" || clause = "roll never returned" then
    -- input class of the finding "a failed final step was printed with println!": a compressing
    -- pattern and a roll that finds no file (the codec's open fails)
    if !c.isDelete && c.count ≠ 0 && compressionOf c.pattern ≠ .none && c.rolls.any Option.isNone then
      "C07/failed-final-step-printed-to-unwritable-stdout"
    else if clause = "roll panicked" then "C07/panic" else "C07/hang"
  else if clause = "roll of a missing file changed the window" then "C07/missing-file-shifts-window"
  -- background rotation: the phantom shift of a missing-file roll that was not awaited shows only at the
  -- next snapshot, as slots that are off by the shift (same defect, same input class: a roll without a file)
  else if c.bg.isSome && !c.isDelete && c.count ≠ 0 && c.rolls.any Option.isNone &&
      (clause = "slot b+j does not hold the (j+1)-th most recent file" ||
       clause = "older slots hold foreign content or are out of age order") then "C07/missing-file-shifts-window"
  else if clause = "roll failed" then "C07/roll-failed"
  else if clause = "rolled file still at its path" then "C07/rolled-file-remains"
  else if clause = "slot b+j does not hold the (j+1)-th most recent file" then "C07/wrong-slot-content"
  else if clause = "older slots hold foreign content or are out of age order" then "C07/foreign-content"
  else "C07/frame"

def handle : Handler := fun cas obs =>
  match decCaseBg cas, obs with
  | some c, [implObs] =>
    if !c.isDelete && !hasHole c.pattern then
      { model := "build-err", spec := if implObs = "build-err" then "ok" else "FAIL:builder accepted a pattern without {};sig=C07/no-hole-accepted",
        tags := tagsOf c }
    else if !c.isDelete && !representable c.base c.count then
      -- the window's last index is not a `u32`: the builder must refuse (a returned error);
      -- a panic, or a roller that pretends to work, violates the statement
      { model := "build-err",
        spec := if implObs = "build-err" then "ok"
          else if (implObs.splitOn "PANIC").length > 1 then "FAIL:roll panicked;sig=C07/base-plus-count-overflows-u32"
          else "FAIL:unrepresentable window accepted;sig=C07/base-plus-count-overflows-u32",
        tags := tagsOf c }
    else
      let fgObs := runModel c c.init c.ops
      let model := encList "/" (match c.bg with
        | some ws => runModelBg c fgObs ws
        | none => fgObs)
      let r := c.roller
      if implObs = "build-err" then
        { model, spec := "FAIL:builder rejected a representable window;sig=" ++ signature c "build", tags := tagsOf c }
      else
      match mapM? decRollObs (decList '/' implObs) with
      | none => { model, spec := "FAIL:unreadable observation;sig=C07/observation", tags := tagsOf c }
      | some os =>
        if os.length ≠ c.ops.length then
          { model, spec := "FAIL:observation length;sig=C07/observation", tags := tagsOf c }
        else
          let sc : SpecCfg := { names := if c.isDelete then [] else windowNames r, file := c.file }
          -- the archives found at base, base+1, … (up to the first gap) are the most recently
          -- rolled files of an earlier life: they count as rolled contents, newest first (checkSeg)
          let spec := match checkOps c sc c.init [] (c.ops.zip os) with
            | none => "ok"
            | some clause => "FAIL:" ++ clause ++ ";sig=" ++ signature c clause
          { model, spec, tags := tagsOf c }
  | none, _ => badCase "case"
  | _, _ => badCase "arity"

end Driver.C07
