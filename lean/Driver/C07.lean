import Driver.Common
import Log4rsModel.Roller.Spec
/-
C07 driver.
case   : kind(fw|del)  pattern  base  count  env(name:value,…)  file  init(path:bytes,…)  rolls(bytes|-,…)
observation (one field): per roll `res|snapshot`, rolls joined by `/`; snapshot = `path:bytes,…`
sorted by path, `~` when empty; res ∈ ok | err | PANIC; `build-err` when the builder rejects.
-/
namespace Driver.C07
open Log4rs.Proto Log4rs.Roller Log4rs Driver

def pathLt : List Char → List Char → Bool
  | [], [] => false
  | [], _ :: _ => true
  | _ :: _, [] => false
  | a :: as, b :: bs => if a.toNat < b.toNat then true else if b.toNat < a.toNat then false else pathLt as bs

def insertSorted (e : Path × Bytes) : List (Path × Bytes) → List (Path × Bytes)
  | [] => [e]
  | x :: xs => if pathLt e.1 x.1 then e :: x :: xs else x :: insertSorted e xs

def sortFiles (fs : List (Path × Bytes)) : List (Path × Bytes) := fs.foldl (fun acc e => insertSorted e acc) []

def encSnap (d : Disk) : String :=
  encList "," ((sortFiles d.files).map (fun e => encStr e.1 ++ ":" ++ encBytes e.2))

def decPair {α β} (f : String → Option α) (g : String → Option β) (s : String) : Option (α × β) :=
  match splitOnChar ':' s with
  | [a, b] => match f a, g b with
    | some x, some y => some (x, y)
    | _, _ => none
  | _ => none

def decSnap (s : String) : Option Disk :=
  (mapM? (decPair decStr decBytes) (decList ',' s)).map (fun fs => ⟨fs⟩)

def decRollObs (s : String) : Option RollObs :=
  match splitOnChar '|' s with
  | [res, "-"] => some { res, snap := Disk.empty, snapless := true }
  | [res, snap] => (decSnap snap).map (fun d => { res, snap := d })
  | _ => none

structure Case where
  isDelete : Bool
  pattern : List Char
  base : Nat
  count : Nat
  env : List (List Char × List Char)
  file : Path
  init : Disk
  rolls : List (Option Bytes)
  /-- background-rotation build: per roll, was quiescence awaited (and a snapshot taken) -/
  bg : Option (List Bool) := none

def decCase : List String → Option Case
  | [kind, pat, b, c, env, file, init, rolls] => do
    let isDelete ← (if kind = "del" then some true else if kind = "fw" then some false else none)
    let pattern ← decStr pat
    let base ← decNat b
    let count ← decNat c
    let env ← mapM? (decPair decStr decStr) (decList ',' env)
    let file ← decStr file
    let init ← decSnap init
    let rolls ← mapM? (decOpt decBytes) (decList ',' rolls)
    pure { isDelete, pattern, base, count, env, file, init, rolls }
  | _ => none

/-- `… @bg sched`: the same case executed by the harness built with `background_rotation` -/
def decCaseBg (fields : List String) : Option Case :=
  match fields with
  | [k, p, b, c, e, f, i, r, "@bg", sched] => do
    let cs ← decCase [k, p, b, c, e, f, i, r]
    let ws ← mapM? (fun x => if x = "w" then some true else if x = "n" then some false else none) (decList ',' sched)
    if ws.length ≠ cs.rolls.length || cs.isDelete then none else pure { cs with bg := some ws }
  | _ => decCase fields

def Case.roller (c : Case) : RollerCfg := mkRoller (expandEnv c.env) id c.pattern c.base c.count

def renderRes : Outcome FsErr Disk → String
  | .ok _ => "ok"
  | .err _ => "err"
  | .panic _ => "PANIC"

/-- the model's run: write the file, roll, snapshot — for every roll -/
def runModel (c : Case) : Disk → List (Option Bytes) → List String
  | _, [] => []
  | d, x :: rest =>
    let d1 := match x with
      | some x => d.set c.file x
      | none => d
    let (res, d2) :=
      if c.isDelete then
        match deleteRoll c.file (fun _ => false) d1 with
        | (.ok a, b) => ((Outcome.ok a : Outcome FsErr Disk), b)
        | (.error e, b) => (.err e, b)
      else rollU32 c.roller c.file (fun _ => false) d1
    (renderRes res ++ "|" ++ encSnap d2) :: runModel c d2 rest

/-- background rotation: `roll` returns Ok once the file is renamed to the temp name (a missing
file is tolerated by `move_file`) and the rotation thread is spawned; at quiescence the disk is the
foreground disk (`C07_background_quiescent_eq_foreground`); no snapshot where the harness did not
wait. Count 0 is the synchronous `remove_file` of the foreground code. -/
def runModelBg (c : Case) (fg : List String) (ws : List Bool) : List String :=
  (fg.zip ws).map (fun (o, w) =>
    let parts := splitOnChar '|' o
    let res := if c.count = 0 then parts.headD "" else "ok"
    let snap := (parts.drop 1).headD ""
    res ++ "|" ++ (if w then snap else "-"))

def countHoles : List Char → Nat
  | [] => 0
  | '{' :: '}' :: rest => 1 + countHoles rest
  | _ :: rest => countHoles rest

def tagsOf (c : Case) : List String :=
  let r := c.roller
  let win := (List.range c.count).map (fun j => slot r c.init (c.base + j))
  let nRolls := c.rolls.length
  let names := windowNames r
  let hasGap := (win.dropWhile Option.isNone).any Option.isNone &&
    ((win.dropWhile Option.isNone).dropWhile Option.isSome).any Option.isSome
  let leadGap := match win with
    | none :: rest => rest.any Option.isSome
    | _ => false
  let bystanders := c.init.files.filter (fun e => e.1 ≠ c.file && !names.contains e.1)
  let lastSlash := c.pattern.reverse.dropWhile (· ≠ '/')
  (if c.isDelete then ["delete"] else if c.count = 0 then ["count0"] else ["fw"]) ++
  (if !c.isDelete && c.count ≠ 0 && nRolls > c.count then ["evict"] else []) ++
  (if !c.isDelete && c.count ≥ 3 && nRolls ≥ 2 then ["shift-chain"] else []) ++
  (if !c.isDelete && win.any Option.isSome then ["preexisting"] else []) ++
  (if !c.isDelete && (hasGap || leadGap) then ["gap"] else []) ++
  (if !bystanders.isEmpty then ["bystander"] else []) ++
  (if !c.isDelete && countHoles c.pattern ≥ 2 then ["repeat"] else []) ++
  (if !c.isDelete && hasHole lastSlash.reverse then ["dir-index"] else []) ++
  (if !c.isDelete && c.pattern ≠ expandEnv c.env c.pattern then ["env"] else []) ++
  (match compressionOf c.pattern with
    | .gzip => if c.isDelete then [] else ["gz"]
    | .zstd => if c.isDelete then [] else ["zst"]
    | .none => []) ++
  (if c.rolls.any Option.isNone then ["missing-file"] else []) ++
  (if !c.isDelete && c.count ≠ 0 && U32_MOD = c.base + c.count then ["u32-boundary"] else []) ++
  (if !c.isDelete && !representable c.base c.count then ["u32-unrepresentable"] else []) ++
  (if !c.isDelete && !hasHole c.pattern then ["no-hole"] else []) ++
  (match c.bg with
    | some ws => ["bg"] ++ (if ws.any (fun w => !w) then ["bg-overlap"] else [])
    | none => []) ++
  (if nRolls = 0 then ["trivial"] else [])

def signature (c : Case) (clause : String) : String :=
  if !c.isDelete && c.count ≠ 0 && U32_MOD ≤ c.base + c.count then "C07/base-plus-count-overflows-u32"
  else if clause = "build" then "C07/build-rejected"
  else if clause = "roll panicked" then "C07/panic"
  else if clause = "roll failed" then "C07/roll-failed"
  else if clause = "rolled file still at its path" then "C07/rolled-file-remains"
  else if clause = "slot b+j does not hold the (j+1)-th most recent file" then "C07/wrong-slot-content"
  else if clause = "older slot holds foreign content" then "C07/foreign-content"
  else "C07/frame"

def handle : Handler := fun cas obs =>
  match decCaseBg cas, obs with
  | some c, [implObs] =>
    if !c.isDelete && !hasHole c.pattern then
      { model := "build-err", spec := if implObs = "build-err" then "ok" else "FAIL:builder accepted a pattern without {};sig=C07/no-hole-accepted",
        tags := tagsOf c }
    else if !c.isDelete && !representable c.base c.count then
      -- the window's last index is not a `u32`: the builder must refuse (a returned error);
      -- a panic, or a roller that pretends to work, violates the statement
      { model := "build-err",
        spec := if implObs = "build-err" then "ok"
          else if (implObs.splitOn "PANIC").length > 1 then "FAIL:roll panicked;sig=C07/base-plus-count-overflows-u32"
          else "FAIL:unrepresentable window accepted;sig=C07/base-plus-count-overflows-u32",
        tags := tagsOf c }
    else
      let fgObs := runModel c c.init c.rolls
      let model := encList "/" (match c.bg with
        | some ws => runModelBg c fgObs ws
        | none => fgObs)
      let r := c.roller
      if implObs = "build-err" then
        { model, spec := "FAIL:builder rejected a representable window;sig=" ++ signature c "build", tags := tagsOf c }
      else
      match mapM? decRollObs (decList '/' implObs) with
      | none => { model, spec := "FAIL:unreadable observation;sig=C07/observation", tags := tagsOf c }
      | some os =>
        if os.length ≠ c.rolls.length then
          { model, spec := "FAIL:observation length;sig=C07/observation", tags := tagsOf c }
        else
          let sc : SpecCfg := { names := if c.isDelete then [] else windowNames r, file := c.file }
          let initWin := sc.names.filterMap (fun nm => c.init.get? nm)
          -- the archives found at base, base+1, … (up to the first gap) are the most recently
          -- rolled files of an earlier life: they count as rolled contents, newest first
          let initRolled := (sc.names.map (fun nm => c.init.get? nm)).takeWhile Option.isSome |>.filterMap id
          let spec := match checkRolls sc initWin c.init initRolled (c.rolls.zip os) with
            | none => "ok"
            | some clause => "FAIL:" ++ clause ++ ";sig=" ++ signature c clause
          { model, spec, tags := tagsOf c }
  | none, _ => badCase "case"
  | _, _ => badCase "arity"

end Driver.C07
