import Driver.Common
namespace Driver.C13
open Driver

def handle : Handler := fun _ _ => badCase "unimplemented"

end Driver.C13
