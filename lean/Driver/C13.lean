import Driver.Common
import Log4rsModel.Routing.Builder
import Log4rsModel.Routing.Spec
import Log4rsModel.Routing.LogRecord
/-
C13 driver.
case   : rootLevel TAB appenders TAB rootRefs TAB loggers
           appenders = `,`-list of names (the position is the identity of the Append object)
           rootRefs  = `,`-list of names
           loggers   = `,`-list of  name;level;additive;refs   with refs a `|`-list of names
observation (one field, blank-separated key=value):
  strict=ok|err  serrors=<errs>|-  errors=<errs>  lossy=<cfg>  install=ok|PANIC
  strictcfg=<cfg>|-  strictinstall=ok|PANIC|-  deliv=<dl>|-  sdeliv=<dl>|-
    dl   = `,`-list of target:level:ids — for the targets "", "zz", every logger name and every
           logger name + "::x", at record levels 1 and 5: the identities (positions at which they were
           handed to the builder) of the `Append` objects called by `Log::log`, in call order (`|`-list)
    errs = `,`-list of kind:name (kind ∈ da ne dl il), in reported order
    cfg  = apps/root/loggers, apps = `,`-list of name:id, root = level;refs, loggers as in the case
-/
namespace Driver.C13
open Log4rs.Proto Log4rs.Routing Driver

def decNames (sep : Char) (s : String) : Option (List Name) := mapM? decStr (decList sep s)

def decLogger (s : String) : Option LoggerCfg :=
  match splitOnChar ';' s with
  | [n, lv, ad, refs] =>
    match decStr n, decNat lv, decBool ad, decNames '|' refs with
    | some n, some lv, some ad, some refs => some { name := n, level := lv, additive := ad, appenders := refs }
    | _, _, _, _ => none
  | _ => none

def decInput (lv apps root logs : String) : Option BuilderInput :=
  match decNat lv, decNames ',' apps, decNames ',' root, mapM? decLogger (decList ',' logs) with
  | some lv, some apps, some root, some logs =>
    some { appenders := apps.zipIdx.map (fun p => { name := p.1, id := p.2 }), rootLevel := lv,
           rootAppenders := root, loggers := logs }
  | _, _, _, _ => none

def kindTag : ErrKind → String
  | .dupAppender => "da" | .nonexistent => "ne" | .dupLogger => "dl" | .invalidName => "il"

def decKind : String → Option ErrKind
  | "da" => some .dupAppender | "ne" => some .nonexistent | "dl" => some .dupLogger
  | "il" => some .invalidName | _ => none

def renderErrs (es : List CfgError) : String :=
  encList "," (es.map fun e => kindTag e.kind ++ ":" ++ encStr e.name)

def decErrs (s : String) : Option (List CfgError) :=
  mapM? (fun x => match splitOnChar ':' x with
    | [k, n] => match decKind k, decStr n with
      | some k, some n => some (⟨k, n⟩ : CfgError)
      | _, _ => none
    | _ => none) (decList ',' s)

def renderLogger (l : LoggerCfg) : String :=
  encStr l.name ++ ";" ++ toString l.level ++ ";" ++ encBool l.additive ++ ";" ++
    encList "|" (l.appenders.map encStr)

def renderCfg (cfg : Config) (kept : List AppenderDecl) : String :=
  encList "," (kept.map fun a => encStr a.name ++ ":" ++ toString a.id) ++ "/" ++
  toString cfg.rootLevel ++ ";" ++ encList "|" (cfg.rootAppenders.map encStr) ++ "/" ++
  encList "," (cfg.loggers.map renderLogger)

def renderInstall (cfg : Config) : String :=
  match install cfg with
  | .ok _ => "ok"
  | _ => "PANIC"

/-- the probe targets of the harness -/
def targetsOf (inp : BuilderInput) : List Name :=
  [[], "zz".toList] ++ inp.loggers.flatMap fun l => [l.name, l.name ++ "::x".toList]

def idOfName (kept : List AppenderDecl) (n : Name) : String :=
  match kept.find? (·.name = n) with
  | some a => toString a.id
  | none => "?"

def renderDeliv (rows : List (Name × Nat × List String)) : String :=
  encList "," (rows.map fun r => encStr r.1 ++ ":" ++ toString r.2.1 ++ ":" ++ encList "|" r.2.2)

/-- MODEL: the whole `Logger::new` + `Log::log` on a configuration — the tree of C01's model
(`Tree.build`, `find`), then the fan-out of C03's model over dummy appenders (no filters, never
failing) with `appenders[idx]` an explicit panic (`logRecord`, Routing/LogRecord.lean). `none` = panic. -/
def modelDeliv (cfg : Config) (kept : List AppenderDecl) (targets : List Name) : Option String :=
  let table : List (AppenderG Nat) := kept.map fun _ => { chain := [], result := fun _ => .ok }
  let rows := targets.flatMap fun t => [1, 5].map fun lvl =>
    (t, lvl, match logRecord cfg table .default t id lvl with
      | some (.returned tr) => some (tr.filterMap fun (e : Event) => match e with
          | Event.append i => some (match kept[i]? with | some a => toString a.id | none => "?")
          | _ => none)
      | _ => none)
  if rows.any (·.2.2.isNone) then none
  else some (renderDeliv (rows.map fun r => (r.1, r.2.1, r.2.2.getD [])))

/-- SPEC: who must receive a record, from the statement of C01 applied to the valid part
(`Tree.specDeliver`: effective logger by longest component prefix, its chain of attachments) -/
def specDeliv (cfg : Config) (kept : List AppenderDecl) (targets : List Name) : String :=
  renderDeliv (targets.flatMap fun t => [1, 5].map fun lvl =>
    (t, lvl, (Tree.specDeliver cfg t lvl).map (idOfName kept)))

def modelObs (inp : BuilderInput) : String :=
  let r := buildLossy inp
  let strictOk := isOk (build inp)
  let deliv := modelDeliv r.config r.kept (targetsOf inp)
  let inst := match install r.config, deliv with
    | .ok _, some _ => "ok"
    | _, _ => "PANIC"
  " ".intercalate [
    "strict=" ++ (if strictOk then "ok" else "err"),
    "serrors=" ++ (if strictOk then "-" else renderErrs r.errors),
    "errors=" ++ renderErrs r.errors,
    "lossy=" ++ renderCfg r.config r.kept,
    "install=" ++ inst,
    "strictcfg=" ++ (if strictOk then renderCfg r.config r.kept else "-"),
    "strictinstall=" ++ (if strictOk then inst else "-"),
    "deliv=" ++ deliv.getD "-",
    "sdeliv=" ++ (if strictOk then deliv.getD "-" else "-")]

def lookupKey (kvs : List (String × String)) (k : String) : Option String :=
  (kvs.find? (·.1 = k)).map (·.2)

def parseObs (s : String) : List (String × String) :=
  (splitOnChar ' ' s).filterMap fun kv =>
    match splitOnChar '=' kv with
    | [k, v] => some (k, v)
    | _ => none

def subsetOf (xs ys : List CfgError) : Bool := xs.all (ys.contains ·)

/-- same errors with the same multiplicities, in any order (the statement fixes no order; the order
the code happens to use is compared by the correspondence check) -/
def sameMultiset (xs ys : List CfgError) : Bool :=
  xs.length == ys.length && (xs ++ ys).all fun e => xs.count e == ys.count e

/-- the statement, clause by clause, evaluated on what the real code did -/
def specVerdict (inp : BuilderInput) (obs : String) : Option String :=
  let kv := parseObs obs
  match lookupKey kv "strict", lookupKey kv "serrors", lookupKey kv "errors", lookupKey kv "lossy",
        lookupKey kv "install", lookupKey kv "strictcfg", lookupKey kv "strictinstall",
        lookupKey kv "deliv", lookupKey kv "sdeliv" with
  | some strict, some serrors, some errors, some lossy, some inst, some scfg, some sinst, some deliv, some sdeliv =>
    let wf := wellFormedB inp
    let want := specErrors inp
    let sl := specLossy inp
    if strict != (if wf then "ok" else "err") then some "strict-accepts-iff-wellformed"
    else match decErrs errors, (if serrors = "-" then some [] else decErrs serrors) with
      | some es, some ses =>
        if !subsetOf es want then some "lossy-error-names-innocent-item"
        else if !subsetOf want es then some "lossy-offending-item-not-reported"
        else if !wf && !subsetOf ses want then some "strict-error-names-innocent-item"
        else if !wf && !subsetOf want ses then some "strict-offending-item-not-reported"
        else if !sameMultiset es want then some "lossy-error-multiplicity"
        else if !wf && !sameMultiset ses es then some "strict-errors-differ-from-lossy-errors"
        else if wf && serrors != "-" then some "strict-ok-with-errors"
        else if lossy != renderCfg sl.1 sl.2 then some "lossy-not-exactly-valid-part"
        else if inst != "ok" then some "lossy-config-install-panics"
        else if wf && scfg != renderCfg inp.toConfig inp.appenders then some "strict-config-not-the-input"
        else if wf && sinst != "ok" then some "strict-config-install-panics"
        else if !wf && (scfg != "-" || sinst != "-" || sdeliv != "-") then some "strict-err-with-config"
        else if deliv != specDeliv sl.1 sl.2 (targetsOf inp) then some "deliveries-after-lossy-build-differ"
        else if wf && sdeliv != specDeliv inp.toConfig inp.appenders (targetsOf inp) then
          some "deliveries-after-strict-build-differ"
        else none
      | _, _ => some "unreadable-errors"
  | _, _, _, _, _, _, _, _, _ => some "unreadable-observation"

def tagsOf (inp : BuilderInput) : List String :=
  let es := specErrors inp
  let has (k : ErrKind) := es.any (·.kind = k)
  let droppedWithDangling := (withEarlier inp.loggers).any fun p =>
    (repeats (·.name) p || !specName p.2.name) && !(dangling inp p.2.appenders).isEmpty
  let leadPair := inp.loggers.any fun l => specName l.name && l.name.take 2 = [':', ':']
  let t := (if es.isEmpty then ["wellformed"] else ["malformed"])
    ++ (if has .dupAppender then ["dup-appender"] else [])
    ++ (if has .dupLogger then ["dup-logger"] else [])
    ++ (if has .invalidName then ["invalid-name"] else [])
    ++ (if !(dangling inp inp.rootAppenders).isEmpty then ["dangling-root"] else [])
    ++ (if has .nonexistent && (dangling inp inp.rootAppenders).length < (es.filter (·.kind = .nonexistent)).length
        then ["dangling-logger"] else [])
    ++ (if droppedWithDangling then ["dropped-logger-dangling-silent"] else [])
    ++ (if leadPair then ["leading-pair-accepted"] else [])
    ++ (if inp.loggers.any (fun l => l.name.contains ':') then ["colon-name"] else [])
    ++ (if inp.loggers.any (fun l => (declared inp).contains l.name) then ["name-collision"] else [])
    ++ (if (inp.rootAppenders :: inp.loggers.map (·.appenders)).any (fun refs =>
          (refs.zip (refs.drop 1)).any fun p => !(declared inp).contains p.1 && !(declared inp).contains p.2)
        then ["consecutive-dangling"] else [])
    ++ (if inp.loggers.any (fun l => !l.additive && !(dangling inp l.appenders).isEmpty) then ["nonadditive-dangling"] else [])
    ++ (if (withEarlier inp.loggers).any (fun p => repeats (·.name) p && !specName p.2.name) then ["dup-of-invalid"] else [])
    ++ (if (declared inp ++ inp.loggers.map (·.name)).any (fun n => n.any (fun c => c.toNat ≥ 128)) then ["non-ascii"] else [])
    ++ (if (declared inp).contains [] then ["empty-appender-name"] else [])
    ++ (if (declared inp).any (fun n => (declared inp).count n ≥ 3) || inp.loggers.any (fun l => (inp.loggers.map (·.name)).count l.name ≥ 3)
        then ["triple-dup"] else [])
    ++ (if (inp.rootAppenders :: inp.loggers.map (·.appenders)).any (fun refs => !refs.Nodup) then ["repeated-ref"] else [])
    ++ (if (inp.rootAppenders ++ inp.loggers.flatMap (·.appenders)).any (fun r => (declared inp).count r ≥ 2)
        then ["ref-to-duplicated-appender"] else [])
    ++ (if !(specLossy inp).1.loggers.isEmpty && (specLossy inp).1.loggers.any (fun l => !l.appenders.isEmpty)
        then ["delivery-through-named-logger"] else [])
  if inp.appenders.isEmpty && inp.loggers.isEmpty && inp.rootAppenders.isEmpty then "trivial" :: t else t

def handle : Handler := fun cas obs =>
  match cas, obs with
  | [lv, apps, root, logs], [implObs] =>
    match decInput lv apps root logs with
    | none => badCase "input"
    | some inp =>
      { model := modelObs inp,
        spec := match specVerdict inp implObs with
          | none => "ok"
          | some clause => "FAIL:" ++ clause ++ ";sig=C13/" ++ clause,
        tags := tagsOf inp }
  | _, _ => badCase "arity"

end Driver.C13
