import Driver.Common
import Log4rsModel.Routing.Builder
/-
C13 driver.
case   : rootLevel TAB appenders TAB rootRefs TAB loggers
           appenders = `,`-list of names (the position is the identity of the Append object)
           rootRefs  = `,`-list of names
           loggers   = `,`-list of  name;level;additive;refs   with refs a `|`-list of names
observation (one field, blank-separated key=value):
  strict=ok|err  serrors=<errs>|-  errors=<errs>  lossy=<cfg>  install=ok|PANIC
  strictcfg=<cfg>|-  strictinstall=ok|PANIC|-
    errs = `,`-list of kind:name (kind ∈ da ne dl il), in reported order
    cfg  = apps/root/loggers, apps = `,`-list of name:id, root = level;refs, loggers as in the case
-/
namespace Driver.C13
open Log4rs.Proto Log4rs.Routing Driver

def decNames (sep : Char) (s : String) : Option (List Name) := mapM? decStr (decList sep s)

def decLogger (s : String) : Option LoggerCfg :=
  match splitOnChar ';' s with
  | [n, lv, ad, refs] =>
    match decStr n, decNat lv, decBool ad, decNames '|' refs with
    | some n, some lv, some ad, some refs => some { name := n, level := lv, additive := ad, appenders := refs }
    | _, _, _, _ => none
  | _ => none

def decInput (lv apps root logs : String) : Option BuilderInput :=
  match decNat lv, decNames ',' apps, decNames ',' root, mapM? decLogger (decList ',' logs) with
  | some lv, some apps, some root, some logs =>
    some { appenders := apps.zipIdx.map (fun p => { name := p.1, id := p.2 }), rootLevel := lv,
           rootAppenders := root, loggers := logs }
  | _, _, _, _ => none

def kindTag : ErrKind → String
  | .dupAppender => "da" | .nonexistent => "ne" | .dupLogger => "dl" | .invalidName => "il"

def decKind : String → Option ErrKind
  | "da" => some .dupAppender | "ne" => some .nonexistent | "dl" => some .dupLogger
  | "il" => some .invalidName | _ => none

def renderErrs (es : List CfgError) : String :=
  encList "," (es.map fun e => kindTag e.kind ++ ":" ++ encStr e.name)

def decErrs (s : String) : Option (List CfgError) :=
  mapM? (fun x => match splitOnChar ':' x with
    | [k, n] => match decKind k, decStr n with
      | some k, some n => some (⟨k, n⟩ : CfgError)
      | _, _ => none
    | _ => none) (decList ',' s)

def renderLogger (l : LoggerCfg) : String :=
  encStr l.name ++ ";" ++ toString l.level ++ ";" ++ encBool l.additive ++ ";" ++
    encList "|" (l.appenders.map encStr)

def renderCfg (cfg : Config) (kept : List AppenderDecl) : String :=
  encList "," (kept.map fun a => encStr a.name ++ ":" ++ toString a.id) ++ "/" ++
  toString cfg.rootLevel ++ ";" ++ encList "|" (cfg.rootAppenders.map encStr) ++ "/" ++
  encList "," (cfg.loggers.map renderLogger)

def renderInstall (cfg : Config) : String :=
  match install cfg with
  | .ok _ => "ok"
  | _ => "PANIC"

def modelObs (inp : BuilderInput) : String :=
  let r := buildLossy inp
  let strictOk := isOk (build inp)
  " ".intercalate [
    "strict=" ++ (if strictOk then "ok" else "err"),
    "serrors=" ++ (if strictOk then "-" else renderErrs r.errors),
    "errors=" ++ renderErrs r.errors,
    "lossy=" ++ renderCfg r.config r.kept,
    "install=" ++ renderInstall r.config,
    "strictcfg=" ++ (if strictOk then renderCfg r.config r.kept else "-"),
    "strictinstall=" ++ (if strictOk then renderInstall r.config else "-")]

def lookupKey (kvs : List (String × String)) (k : String) : Option String :=
  (kvs.find? (·.1 = k)).map (·.2)

def parseObs (s : String) : List (String × String) :=
  (splitOnChar ' ' s).filterMap fun kv =>
    match splitOnChar '=' kv with
    | [k, v] => some (k, v)
    | _ => none

def subsetOf (xs ys : List CfgError) : Bool := xs.all (ys.contains ·)

/-- the statement, clause by clause, evaluated on what the real code did -/
def specVerdict (inp : BuilderInput) (obs : String) : Option String :=
  let kv := parseObs obs
  match lookupKey kv "strict", lookupKey kv "serrors", lookupKey kv "errors", lookupKey kv "lossy",
        lookupKey kv "install", lookupKey kv "strictcfg", lookupKey kv "strictinstall" with
  | some strict, some serrors, some errors, some lossy, some inst, some scfg, some sinst =>
    let wf := wellFormedB inp
    let want := specErrors inp
    let sl := specLossy inp
    if strict != (if wf then "ok" else "err") then some "strict-accepts-iff-wellformed"
    else match decErrs errors, (if serrors = "-" then some [] else decErrs serrors) with
      | some es, some ses =>
        if !subsetOf es want then some "lossy-error-names-innocent-item"
        else if !subsetOf want es then some "lossy-offending-item-not-reported"
        else if !wf && !subsetOf ses want then some "strict-error-names-innocent-item"
        else if !wf && !subsetOf want ses then some "strict-offending-item-not-reported"
        else if wf && serrors != "-" then some "strict-ok-with-errors"
        else if lossy != renderCfg sl.1 sl.2 then some "lossy-not-exactly-valid-part"
        else if inst != "ok" then some "lossy-config-install-panics"
        else if wf && scfg != renderCfg inp.toConfig inp.appenders then some "strict-config-not-the-input"
        else if wf && sinst != "ok" then some "strict-config-install-panics"
        else if !wf && (scfg != "-" || sinst != "-") then some "strict-err-with-config"
        else none
      | _, _ => some "unreadable-errors"
  | _, _, _, _, _, _, _ => some "unreadable-observation"

def tagsOf (inp : BuilderInput) : List String :=
  let es := specErrors inp
  let has (k : ErrKind) := es.any (·.kind = k)
  let droppedWithDangling := (withEarlier inp.loggers).any fun p =>
    (repeats (·.name) p || !specName p.2.name) && !(dangling inp p.2.appenders).isEmpty
  let leadPair := inp.loggers.any fun l => specName l.name && l.name.take 2 = [':', ':']
  let t := (if es.isEmpty then ["wellformed"] else ["malformed"])
    ++ (if has .dupAppender then ["dup-appender"] else [])
    ++ (if has .dupLogger then ["dup-logger"] else [])
    ++ (if has .invalidName then ["invalid-name"] else [])
    ++ (if !(dangling inp inp.rootAppenders).isEmpty then ["dangling-root"] else [])
    ++ (if has .nonexistent && (dangling inp inp.rootAppenders).length < (es.filter (·.kind = .nonexistent)).length
        then ["dangling-logger"] else [])
    ++ (if droppedWithDangling then ["dropped-logger-dangling-silent"] else [])
    ++ (if leadPair then ["leading-pair-accepted"] else [])
    ++ (if inp.loggers.any (fun l => l.name.contains ':') then ["colon-name"] else [])
  if inp.appenders.isEmpty && inp.loggers.isEmpty && inp.rootAppenders.isEmpty then "trivial" :: t else t

def handle : Handler := fun cas obs =>
  match cas, obs with
  | [lv, apps, root, logs], [implObs] =>
    match decInput lv apps root logs with
    | none => badCase "input"
    | some inp =>
      { model := modelObs inp,
        spec := match specVerdict inp implObs with
          | none => "ok"
          | some clause => "FAIL:" ++ clause ++ ";sig=C13/" ++ clause,
        tags := tagsOf inp }
  | _, _ => badCase "arity"

end Driver.C13
