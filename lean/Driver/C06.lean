import Driver.Common
import Driver.C05
/-
C06 driver: the rolling-appender case format of `Driver/C05.lean` with a size trigger.
The specification is evaluated on the implementation's observation: at every policy
consultation the length shown equals the true size on disk (probe installed by the harness's
`Policy` wrapper) and equals the size before the append plus the record's bytes; the active file
is gone after the append iff that size exceeded the limit; after a successful append the active
file is absent or holds at most `limit` bytes; at (re)open the file is kept (append mode) or
emptied (truncate mode).
-/
namespace Driver.C06
open Log4rs.Proto Log4rs.Rolling Driver Driver.C05
open Driver.C04 (recBytes)

def activeSize (snap : Spec.Snap) : Option Nat := (snap.get? activePath).map List.length

/-- walk the history; `prev` = size of the active file before the op (`none`: absent) -/
def specGo (c : Case) (limit : Nat) : Nat → Option Nat → List OpSpec → List ObsEntry → Option String
  | _, _, [], [] => none
  | k, prev, op :: ops, e :: es =>
    let now := activeSize e.snap
    let loc := " at op " ++ toString k
    if e.res = "PANIC" then some ("panic" ++ loc) else
    match op.op, op.rec? with
    | .append _ _, some r =>
      match e.consult with
      | none => some ("policy not consulted" ++ loc)
      | some (shown, actual) =>
        let expect := prev.getD 0 + (recBytes r.chunks).length
        if shown ≠ actual then some ("shown " ++ toString shown ++ " != on-disk " ++ toString actual ++ loc)
        else if shown ≠ expect then some ("size " ++ toString shown ++ " != previous size + record = " ++ toString expect ++ loc)
        else if e.res = "ok" ∧ (now.isNone ≠ (shown > limit)) then
          some ((if shown > limit then "no rotation although size > limit" else "rotation although size <= limit") ++ loc)
        else if e.res = "ok" ∧ (now.getD 0) > limit then some ("active file larger than limit after append" ++ loc)
        else specGo c limit (k + 1) now ops es
    | .restart, _ =>
      let expect := if c.appendMode then prev.getD 0 else 0
      if now ≠ some expect then some ("size after reopen is not " ++ toString expect ++ loc)
      else specGo c limit (k + 1) now ops es
    | _, _ => if now ≠ prev then some ("file changed by a clock tick" ++ loc) else specGo c limit (k + 1) now ops es
  | k, _, _, _ => some ("observation arity at op " ++ toString k)

def handle : Handler := fun cas obs =>
  withSeq cas obs fun c ops tr es =>
    match c.trig with
    | .size limit =>
      let model := encList "," (tr.map renderEntry)
      let spec := match es with
        | [] => "FAIL:empty observation;sig=" ++ c.sig "C06"
        | e0 :: rest =>
          let open0 := if c.appendMode then c.preActive.getD 0 else 0
          if activeSize e0.snap ≠ some open0 then "FAIL:size after open is not " ++ toString open0 ++ ";sig=" ++ c.sig "C06" ++ "-open"
          else match specGo c limit 0 (some open0) ops rest with
            | none => "ok"
            | some why => "FAIL:" ++ why ++ ";sig=" ++ c.sig "C06"
      let sizes := ops.filterMap (fun o => o.rec?.map (fun r => (recBytes r.chunks).length))
      let tags := modelTags c ops tr ++ ["limit-" ++ toString limit] ++
        (if sizes.any (· = limit) then ["record=limit"] else []) ++
        (if sizes.any (· = limit + 1) then ["record=limit+1"] else []) ++
        (if (c.preActive.getD 0) > limit then ["pre>limit"] else [])
      { model, spec, tags := if ops.isEmpty then "trivial" :: tags else tags }
    | _ => badCase "C06 needs a size trigger"

end Driver.C06
