import Driver.Common
namespace Driver.C06
open Driver

def handle : Handler := fun _ _ => badCase "unimplemented"

end Driver.C06
