import Driver.Common
import Driver.C05
import Log4rsModel.Rolling.Ext06Spec
import Log4rsModel.Rolling.Ext17Spec
/-
C06 driver. Case formats:

  seq   the rolling-appender format of `Driver/C05.lean` with a size trigger (executor of C05: one
        probe value per operation)
  seq6  the same fields; the trigger is built from a configuration document, the observation lists
        EVERY consultation of an operation (`a=b+c=d`), and the op `R<a|t>:<limit>` restarts the
        appender with another mode / limit

The specification is `Spec06.go` (`Log4rsModel/Rolling/Ext06Spec.lean`) — the function about which
`C06_model_meets_spec` is proved — evaluated on the implementation's observation: Ok/Err, all
consultations (size shown vs `fs::metadata().len()` inside `Policy::process`), number of
`Roll::roll` invocations, size of the active file in the snapshot after the operation. The model
observation is the model's trace (`Spec06.trace6`) rendered with the whole directory, so the
correspondence check also pins where rotated content goes.
-/
namespace Driver.C06
open Log4rs.Proto Log4rs.Rolling Driver Driver.C05
open Driver.C04 (recBytes dedup)

theorem rollFn_eq_lateWrap (rs : RollSpec) : rollFn rs = Spec17.lateWrap (rollFnPlain rs) := rfl

inductive Op6S where
  | plain (o : OpSpec)
  | reconf (am : Bool) (limit : Nat)

def decOp6 (hook : Bool) (s : String) : Option Op6S :=
  match s.toList with
  | 'R' :: rest =>
    match splitOnChar ':' (String.ofList rest) with
    | [m, l] =>
      match (if m = "a" then some true else if m = "t" then some false else none), decNat l with
      | some am, some limit => some (.reconf am limit)
      | _, _ => none
    | _ => none
  | _ => (decOp hook s).map .plain

def Op6S.op6 : Op6S → Spec06.Op6
  | .plain o => .x o.xop
  | .reconf am n => .reconf am n

structure Entry6 where
  res : String
  consults : List (Nat × Nat)
  calls : Nat
  snap : Spec.Snap
  snapS : String

def decEntry6 (s : String) : Option Entry6 :=
  match splitOnChar '!' s with
  | [res, cons, callsS, snapS] =>
    let consults : Option (List (Nat × Nat)) :=
      if cons = "-" then some [] else
      mapM? (fun c => match splitOnChar '=' c with
        | [a, b] => match decNat a, decNat b with
          | some a, some b => some (a, b)
          | _, _ => none
        | _ => none) (splitOnChar '+' cons)
    match consults, decSnap snapS, decNat callsS with
    | some consults, some snap, some calls => some { res, consults, calls, snap, snapS }
    | _, _, _ => none
  | _ => none

def activeSize (snap : Spec.Snap) : Option Nat := (snap.get? activePath).map List.length

def Entry6.toSpec (e : Entry6) : Spec06.Entry :=
  { ok := if e.res = "ok" then some true else if e.res = "err" then some false else none,
    consults := e.consults, calls := e.calls, now := activeSize e.snap }

/-- the events of a parsed history: the mode and limit in force change at `R` -/
def evsOf : Bool → Nat → List Op6S → List Spec06.Ev
  | _, _, [] => []
  | am, n, .reconf am' n' :: ops => .restart am' n' :: evsOf am' n' ops
  | am, n, .plain o :: ops =>
    (match o.op, o.rec? with
     | .append _ _, some r => Spec06.Ev.arrive (recBytes r.chunks).length o.fail.isSome
     | .restart, _ => .restart am n
     | _, _ => .tick) :: evsOf am n ops

/-- the first violated clause, in words (for the VIOLATION line; the verdict itself is `Spec06.okEntry`) -/
def explain (s : Spec06.S) (ev : Spec06.Ev) (e : Spec06.Entry) : String :=
  match ev with
  | .arrive len false =>
    match e.consults with
    | [] => "policy not consulted"
    | [(shown, actual)] =>
      let expect := s.size.getD 0 + len
      if shown ≠ actual then "shown " ++ toString shown ++ " != on-disk " ++ toString actual
      else if shown ≠ expect then "size " ++ toString shown ++ " != previous size + record = " ++ toString expect
      else if e.calls ≠ (if shown > s.limit then 1 else 0) then
        (if shown > s.limit then "no rotation request although size > limit" else "rotation requested although size <= limit") ++
          " (" ++ toString e.calls ++ " roller invocations)"
      else match e.ok with
        | some true => if shown > s.limit then "file not rotated away after a successful rotation" else "active file does not hold the size shown after the append"
        | some false => if shown > s.limit then "after a failed rotation the file is neither unchanged nor gone" else "append failed although no rotation was due"
        | none => "append without a result"
    | _ => "policy consulted " ++ toString e.consults.length ++ " times during one append"
  | .arrive _ true => "an append whose encoder fails must consult nothing, request nothing, return Err and leave the file unchanged"
  | .restart am _ => "size after reopen is not " ++ toString (if am then s.size.getD 0 else 0)
  | .tick => "file changed (or policy consulted) by a clock tick"

def specWalk : Nat → Spec06.S → List Spec06.Ev → List Spec06.Entry → Option String
  | _, _, [], [] => none
  | k, s, ev :: evs, e :: es =>
    if Spec06.okEntry s ev e then specWalk (k + 1) (Spec06.next s ev e) evs es
    else some (explain s ev e ++ " at op " ++ toString k)
  | k, _, _, _ => some ("observation arity at op " ++ toString k)

def limitClass (n : Nat) : String :=
  if n ≤ 1025 then "limit-" ++ toString n else if n < 2048 then "limit-1k..2k" else if n ≤ 4097 then "limit-2k..4k"
  else if n ≤ 65536 then "limit-4k..64k" else if n < 2 ^ 62 then "limit-64k..2^62" else "limit-huge"

/-- tags derived from the OBSERVATION (what the real code was actually shown) -/
def obsTags (s0 : Spec06.S) (evs : List Spec06.Ev) (es : List Spec06.Entry) : List String :=
  let step := fun (acc : Spec06.S × List String × Bool) (p : Spec06.Ev × Spec06.Entry) =>
    let (s, tags, failedRoll) := acc
    let (ev, e) := p
    let t := match ev, e.consults with
      | .arrive _ false, [(shown, _)] =>
        (if shown = s.limit then ["shown=N"] else if shown = s.limit + 1 then ["shown=N+1"]
         else if shown + 1 = s.limit then ["shown=N-1"] else if shown > s.limit then ["shown>N+1"] else []) ++
        (if e.ok = some false then ["roll-failed-observed"] else []) ++
        (if failedRoll then ["append-after-failed-roll"] else []) ++
        (if shown > s.limit ∧ e.ok = some true then ["rotated"] else [])
      | .arrive _ true, _ => ["encoder-error-observed"]
      | .restart am n, _ =>
        (if n < s.limit then ["reconf-limit-lowered"] else if n > s.limit then ["reconf-limit-raised"] else []) ++
        (if am ≠ s.am then ["reconf-mode-flipped"] else []) ++
        (if (s.size.getD 0) > n ∧ am then ["reopen-over-limit"] else [])
      | _, _ => []
    (Spec06.next s ev e, tags ++ t, e.ok = some false ∧ e.now.isSome)
  ((evs.zip es).foldl step (s0, [], false)).2.1

def renderConsults (o : Option Out) : String :=
  match o with
  | some { consult := some (a, b), .. } => toString a ++ "=" ++ toString b
  | _ => "-"

def handle : Handler := fun cas obs =>
  match cas, obs with
  | [kind, m, pre, arch, trig, roll, clock, opsS], [implObs] =>
    if kind ≠ "seq" ∧ kind ≠ "seq6" then badCase "kind" else
    match decCase m pre arch trig roll clock with
    | none => badCase "case"
    | some c =>
      match c.trig with
      | .size limit =>
        match mapM? (fun s => if kind = "seq6" then decOp6 c.roll.hasHook s else (decOp c.roll.hasHook s).map Op6S.plain) (decList ',' opsS) with
        | none => badCase "ops"
        | some ops =>
          -- the model
          let s0 := Spec06.init6 activePath (rollFn c.roll) c.appendMode limit c.disk0 c.clock0
          let tr := Spec06.trace6 activePath (rollFn c.roll) s0 (ops.map Op6S.op6)
          let model := encList "," (("-!-!0!" ++ renderSnap s0.st.disk.files) ::
            tr.map (fun e => renderRes e.1 ++ "!" ++ renderConsults e.1 ++ "!" ++ toString (callsOf e.1) ++ "!" ++ renderSnap e.2.st.disk.files))
          if implObs = "PANIC" then
            { model, spec := "FAIL:panic;sig=" ++ c.sig "C06" ++ "-panic", tags := ["panic"] }
          else match mapM? decEntry6 (decList ',' implObs) with
          | none => badCase "observation"
          | some [] => { model, spec := "FAIL:empty observation;sig=" ++ c.sig "C06", tags := [] }
          | some (e0 :: rest) =>
            let open0 := if c.appendMode then c.preActive.getD 0 else 0
            let st0 : Spec06.S := { am := c.appendMode, limit, size := some open0 }
            let evs := evsOf c.appendMode limit ops
            let es := rest.map Entry6.toSpec
            let spec :=
              if rest.any (fun e => e.res = "PANIC") then "FAIL:panic;sig=" ++ c.sig "C06" ++ "-panic"
              else if activeSize e0.snap ≠ some open0 ∨ e0.calls ≠ 0 then
                "FAIL:size after open is not " ++ toString open0 ++ ";sig=" ++ c.sig "C06" ++ "-open"
              else match Spec06.go 0 st0 evs es with
                | none => "ok"
                | some _ => "FAIL:" ++ ((specWalk 0 st0 evs es).getD "statement violated") ++ ";sig=" ++ c.sig "C06"
            let plain := ops.filterMap (fun o => match o with | .plain p => some p | _ => none)
            let outs : List (Option Out × Log4rs.Roller.Disk) := tr.map (fun e => (e.1, e.2.st.disk))
            let tags := modelTags c plain outs ++ [limitClass limit, kind] ++
              (if (c.preActive.getD 0) > limit then ["pre>limit"] else []) ++
              (if plain.any (fun o => o.fail.isSome) then ["encoder-error"] else []) ++
              (if plain.any (fun o => match o.rec? with | some r => r.text ∧ (recBytes r.chunks).length ≥ 1000 | none => false) then ["text-multibyte-big"] else []) ++
              obsTags st0 evs es
            { model, spec, tags := if ops.isEmpty then "trivial" :: dedup tags else dedup tags }
      | _ => badCase "C06 needs a size trigger"
  | _, _ => badCase "arity"

end Driver.C06
