import Driver.Common
namespace Driver.C16
open Driver

def handle : Handler := fun _ _ => badCase "unimplemented"

end Driver.C16
