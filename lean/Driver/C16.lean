import Driver.Common
import Log4rsModel.TimeTrigger.Spec
/-
C16 driver. Case: kind tz secs nanos unit n modulate maxdelay arrivals; observation: see
harness/src/c16.rs. The facts chrono told the code are echoed verbatim (they are inputs of the
model); the model recomputes every result, schedule, firing decision and the file segmentation.
-/
namespace Driver.C16
open Log4rs.Proto Log4rs.TimeTrigger Log4rs Driver

def decUnit : String → Option IUnit
  | "second" => some .second
  | "minute" => some .minute
  | "hour" => some .hour
  | "day" => some .day
  | "week" => some .week
  | "month" => some .month
  | "year" => some .year
  | _ => none

def decInts (sep : Char) (s : String) : Option (List Int) := mapM? decInt (splitOnChar sep s)

def decCivilTime (s : String) : Option CivilTime :=
  match decInts ',' s with
  | some [y, mo, d, h, mi, sec] => some ⟨y, mo, d, h, mi, sec⟩
  | _ => none

def decKind (kind : String) (a b : Int) : Option LocalResult :=
  if kind = "s" then some (.single a)
  else if kind = "a" then some (.ambiguous a b)
  else if kind = "n" then some .none
  else none

/-- `y,mo,d,h,mi,s,L` (L may be `-`) or `-` -/
def decTarget (s : String) : Option (Option CivilTime × Option Int) :=
  if s = "-" then some (none, none) else
  match splitOnChar ',' s with
  | [y, mo, d, h, mi, sec, l] =>
    match mapM? decInt [y, mo, d, h, mi, sec], decOpt decInt l with
    | some [y, mo, d, h, mi, sec], some l => some (some ⟨y, mo, d, h, mi, sec⟩, l)
    | _, _ => none
  | _ => none

def decTblRow (s : String) : Option (Int × LocalResult) :=
  match splitOnChar ':' s with
  | [l, k, a, b] =>
    match decInt l, decInt a, decInt b with
    | some l, some a, some b => (decKind k a b).map fun r => (l, r)
    | _, _, _ => none
  | _ => none

/-- `H,T` or `H,-` -/
def decHorizon (s : String) : Option (Int × Option Int) :=
  match splitOnChar ',' s with
  | [h, t] => match decInt h, decOpt decInt t with
    | some h, some t => some (h, t)
    | _, _ => none
  | _ => none

def decFacts (s : String) : Option Facts :=
  match splitOnChar ';' s with
  | [civ, lnow, offNow, mk, offTrunc, offRes, chg, rciv, tgt, tbl] =>
    match decInts ',' civ, decInt lnow, decInt offNow, splitOnChar ',' mk,
        decOpt decInt offTrunc, decOpt decInt offRes, decHorizon chg, decOpt decCivilTime rciv,
        decTarget tgt, mapM? decTblRow (decList ',' tbl) with
    | some [y, m0, d, o0, w0, wd, h, mi, sec], some lnow, some offNow, [qy, qmo, qd, qh, qmi, qs, kind, a, b],
        some offTrunc, some offRes, some (horizon, tr1), some rciv, some (tgtCivil, tgtLocal), some tbl =>
      match mapM? decInt [qy, qmo, qd, qh, qmi, qs, a, b] with
      | some [qy, qmo, qd, qh, qmi, qs, a, b] =>
        let args : CivilTime := ⟨qy, qmo, qd, qh, qmi, qs⟩
        let r : Option (Option CivilTime × LocalResult) :=
          if kind = "x" then some (none, .none) else (decKind kind a b).map fun r => (some args, r)
        r.map fun (mkArgs, mkRes) =>
          { civ := ⟨y, m0, d, o0, w0, wd, h, mi, sec⟩, lnow, offNow, mkArgs, mkRes, offTrunc, offRes, horizon, tr1, rciv,
            tgtCivil, tgtLocal, tbl }
      | _ => none
    | _, _, _, _, _, _, _, _, _, _ => none
  | _ => none

/-- chrono as the repaired algorithm sees it, from the observed facts -/
def envOf (f : Facts) : Env :=
  { L := f.lnow, now := f.now,
    naiveOf := fun q => if some q = f.tgtCivil then f.tgtLocal else none,
    mkL := fun l => (f.tbl.lookup l).getD .none }

/-- `P.<class>` or UTC seconds -/
def decResult (s : String) : Option (Option Int) :=
  if s.startsWith "P." then some none else (decInt s).map some

def renderOut : Out Int → String
  | .ok t => toString t
  | .err _ => "E"
  | .panic w => "P." ++ w

/-- the model's schedule at one instant, fed with chrono's answers as observed -/
def modelNext (f : Facts) (u : IUnit) (n : Int) (modulate : Bool) : Except String (Out Int) :=
  if isCalendarUnit u ∧ targetCivilFixed f.civ u n modulate ≠ f.tgtCivil then .error "target-mismatch"
  else .ok (getNextTimeFixed f.civ (envOf f) u n modulate)

def renderNext (f : Facts) (u : IUnit) (n : Int) (modulate : Bool) (at_ : Int) : String :=
  if f.now ≠ at_ then "facts-are-of-another-instant" else
  match modelNext f u n modulate with
  | .error e => e
  | .ok o => renderOut o

/-- longer than chrono's whole date range: the class "absurd interval" -/
def absurdN (u : IUnit) (n : Int) : Bool :=
  let approx : Int := match u with
    | .month => 28 * 86400
    | .year => 365 * 86400
    | u => unitSecs u
  n * approx > DT_MAX

/-- the input class of a failure of the schedule clauses -/
def sigNext (f : Facts) (u : IUnit) (n : Int) (c : Clause) : String :=
  let gapOrFold := f.tbl.any fun r => match r.2 with | .single _ => false | _ => true
  if n < 1 then "C16/interval-below-1-" ++ (match c with | .panics => "panics" | _ => "not-after-now")
  else if absurdN u n then "C16/interval-beyond-chrono-range"
  else match c with
    | .panics => if gapOrFold then "C16/panic-at-gap-or-overlap-target" else "C16/panic"
    | .notAfterNow => if gapOrFold then "C16/not-after-now-at-gap-or-overlap-target" else "C16/not-after-now"
    | .offBoundary => "C16/off-boundary-with-offset-unchanged"

def clauseName : Clause → String
  | .panics => "panics"
  | .notAfterNow => "next-not-strictly-after-now"
  | .offBoundary => "next-not-on-unit-boundary"

def tclauseName : TClause → String
  | .panics => "trigger-panics"
  | .firedWrong => "fired-not-iff-arrival-at-or-after-schedule"
  | .reschedNotFuture => "rescheduled-not-strictly-after-arrival"
  | .schedChanged => "schedule-changed-without-firing"
  | .delayRange => "random-delay-out-of-range"

def unitName : IUnit → String
  | .second => "second" | .minute => "minute" | .hour => "hour" | .day => "day"
  | .week => "week" | .month => "month" | .year => "year"

/-- which part of the quantifier the instant exercises, and which branch of the Spec judged it -/
def factTags (f : Facts) (u : IUnit) (n : Int) (modulate : Bool) (result : Option Int) : List String :=
  let c := f.civ
  (if f.tbl.any (fun r => r.2 = .none) then ["target-in-gap"] else []) ++
  (if f.tbl.any (fun r => match r.2 with | .ambiguous _ _ => true | _ => false) then ["target-ambiguous"] else []) ++
  (if (f.tbl.filter (fun r => r.2 = .none)).length ≥ 90 then ["whole-day-gap"] else []) ++
  (if f.offTrunc.isSome ∧ f.offTrunc ≠ some f.offNow then ["unit-start-in-other-offset"] else []) ++
  (if f.offNow % 3600 ≠ 0 then ["fractional-offset"] else []) ++
  (if c.month0 = 1 ∧ c.day = 29 then ["leap-day"] else []) ++
  (if (c.month0 = 11 ∧ c.day = 31) ∨ (c.month0 = 0 ∧ c.day = 1) then ["year-end"] else []) ++
  (if (c.month0 = 0 ∧ c.week0 ≥ 51) ∨ (c.month0 = 11 ∧ c.week0 = 0) then ["iso-year-end"] else []) ++
  (if f.now < 0 then ["before-1970"] else if f.now ≥ FAR then ["after-year-9999"] else if f.now > 4300000000 then ["after-2106"] else []) ++
  (if n < 1 then ["n-below-1"] else
    (match reach f u n modulate with
      | .never => ["reach-never"]
      | .either => ["reach-either"]
      | .exact =>
        match offsetUnchanged f u n modulate with
        | some true => ["boundary-checked"]
        | some false => ["offset-changes-before-boundary"]
        | none => ["offset-change-undecided"])) ++
  (match result with
    | some r => if r ≥ FAR then ["impl-never"] else []
    | none => ["impl-panics"])

/-- verdict of the schedule clauses on one instant -/
def verdictNext (f : Facts) (u : IUnit) (n : Int) (modulate : Bool) (result : Option Int) (pre : String) : Option String :=
  let c := if n < 1 then checkNextAnyN f result else checkNext f u n modulate result
  c.map fun c => "FAIL:" ++ pre ++ clauseName c ++ ";sig=" ++ sigNext f u n c

structure Block where
  rawFacts : String
  facts : Facts
  result : Option Int
  rawResult : String

def decBlock (rf rr : String) : Option Block :=
  match decFacts rf, decResult rr with
  | some facts, some result => some { rawFacts := rf, facts, result, rawResult := rr }
  | _, _ => none

def decInstant (s : String) : Option (Int × Nat) :=
  match splitOnChar ':' s with
  | [a, b] => match decInt a, decNat b with
    | some a, some b => if b < 1000000000 then some (a, b) else none
    | _, _ => none
  | _ => none

/-- one arrival of the case: the clock reading of `trigger()`, optionally a different second
reading (inside `TimeTrigger::new`), and whether the roller is made to fail -/
structure Arrival where
  first : Int × Nat
  second : Option (Int × Nat)
  failRoll : Bool

def decArrival (s : String) : Option Arrival :=
  let failRoll := s.endsWith "!"
  let s := if failRoll then (s.dropEnd 1).toString else s
  match splitOnChar '/' s with
  | [a] => (decInstant a).map fun a => { first := a, second := none, failRoll }
  | [a, b] => match decInstant a, decInstant b with
    | some a, some b => some { first := a, second := some b, failRoll }
    | _, _ => none
  | _ => none

/-- an entry of the trigger log: `f:sched` (+ `:E` when `append` then returned an error), or
anything else (a panic class, `E`, `?`) -/
structure Entry where
  obs : TrigObs
  appendErr : Bool

def decEntry (s : String) : Entry :=
  match splitOnChar ':' s with
  | [a, b] => match decBool a, decInt b with
    | some a, some b => { obs := some (a, b), appendErr := false }
    | _, _ => { obs := none, appendErr := false }
  | [a, b, "E"] => match decBool a, decInt b with
    | some a, some b => { obs := some (a, b), appendErr := true }
    | _, _ => { obs := none, appendErr := false }
  | _ => { obs := none, appendErr := false }

def pairUp : List String → Option (List (String × String))
  | [] => some []
  | a :: b :: rest => (pairUp rest).map ((a, b) :: ·)
  | _ => none

def renderSegs (segs : List (List Nat)) : String :=
  ";".intercalate (segs.map fun s => encList "," (s.map toString))

def decSegs (s : String) : Option (List (List Nat)) :=
  mapM? (fun seg => mapM? decNat (decList ',' seg)) (splitOnChar ';' s)

def handleNext (secs : Int) (u : IUnit) (n : Int) (modulate : Bool) (obs : List String) : Answer :=
  match obs with
  | [rf, rr] =>
    match decBlock rf rr with
    | none => badCase "facts"
    | some b =>
      let model := rf ++ " " ++ renderNext b.facts u n modulate secs
      let spec := (verdictNext b.facts u n modulate b.result "").getD "ok"
      let tags := ["next", unitName u, if modulate then "modulated" else "plain"] ++
        factTags b.facts u n modulate b.result ++
        (if n < 1 then [] else if absurdN u n then ["n-absurd"] else if n = 1 then ["n-1"] else ["n-many"])
      { model, spec, tags }
  | _ => badCase "obs-arity"

/-- the blocks of the arrivals: one per arrival, two when the arrival has a second clock reading -/
def splitBlocks : List Arrival → List Block → Option (List (Block × Option Block))
  | [], [] => some []
  | a :: as, b :: bs =>
    match a.second, bs with
    | none, _ => (splitBlocks as bs).map ((b, none) :: ·)
    | some _, b2 :: bs' => (splitBlocks as bs').map ((b, some b2) :: ·)
    | some _, [] => none
  | _, _ => none

def handleTrig (secs : Int) (u : IUnit) (n : Int) (modulate : Bool) (maxDelay : Int) (arrivals : List Arrival)
    (obs : List String) : Answer :=
  let pre := obs.takeWhile (· ≠ "T")
  let post := (obs.dropWhile (· ≠ "T")).drop 1
  match pairUp pre with
  | none => badCase "blocks"
  | some pairs =>
    match mapM? (fun (p : String × String) => decBlock p.1 p.2) pairs with
    | none => badCase "facts"
    | some [] => badCase "no-block"
    | some (b0 :: bsAll) =>
      match splitBlocks arrivals bsAll, post with
      | none, _ => badCase "block-count"
      | _, [] => badCase "no-sched"
      | some bs, s0 :: restObs =>
        -- the instants whose facts appear, in order
        let instants : List Int := secs :: arrivals.flatMap fun a =>
          a.first.1 :: (match a.second with | some s => [s.1] | none => [])
        let blockModel := fun (p : Block × Int) => p.1.rawFacts ++ " " ++ renderNext p.1.facts u n modulate p.2
        let head := " ".intercalate (((b0 :: bsAll).zip instants).map blockModel) ++ " T "
        -- the schedule clauses at every instant involved
        let blockVerdict : Option String :=
          ((b0 :: bsAll).zipIdx.findSome? fun (b, i) =>
            verdictNext b.facts u n modulate b.result (if i = 0 then "at-creation:" else s!"at-instant-{i}:"))
        let outOf := fun (b : Block) => match modelNext b.facts u n modulate with
          | .ok o => o
          | .error e => (.panic e : Out Int)
        let implS0 := decInt s0
        let d0 : Int := match implS0, b0.result with
          | some s, some r => s - r
          | _, _ => 0
        let sched0 := scheduleFixed (outOf b0) maxDelay d0
        let entriesRaw := restObs.take arrivals.length
        let segObs := restObs.drop arrivals.length
        let shapeOk : Bool := entriesRaw.length = arrivals.length ∧ segObs.length = 1
        let entries : List Entry := entriesRaw.map decEntry ++
          List.replicate (arrivals.length - entriesRaw.length) { obs := none, appendErr := false }
        -- the block whose schedule `TimeTrigger::new` computes when arrival i fires: the second
        -- clock reading if there is one (`secondReadFixed`: the first reading)
        let reschedBlock := fun (p : Block × Option Block) => match p.2 with
          | some b2 => if secondReadFixed then p.1 else b2
          | none => p.1
        let rows := arrivals.zip (bs.zip entries)
        -- the model's run, fed with the observed random delays
        let model := match sched0 with
          | .ok s =>
            let steps : List (Int × Out Int) := rows.map fun (a, (p, e)) =>
              let rb := reschedBlock p
              let d : Int := match e.obs, rb.result with
                | some (true, after), some r => after - r
                | _, _ => 0
              (a.first.1, scheduleFixed (outOf rb) maxDelay d)
            let outs := runFixed s steps
            let rendered := (outs.zip arrivals).map fun ((o, t), a) => match o with
              | .ok fired => encBool fired ++ ":" ++ toString t ++ (if fired ∧ a.failRoll then ":E" else "")
              | .err _ => "E"
              | .panic w => "P." ++ w
            let flags := (outs.zip arrivals).map fun ((o, _), a) => match o with
              | .ok fired => if fired ∧ a.failRoll then none else some fired
              | _ => none
            let segs := if arrivals.isEmpty then "-" else renderSegs (segment flags)
            head ++ " ".intercalate (toString s :: rendered ++ [segs])
          | o => head ++ renderOut o
        -- the specification on the implementation's observation
        let trigVerdict : Option String :=
          match implS0 with
          | none => some "FAIL:at-creation:trigger-panics;sig=C16/trigger-creation-panics"
          | some is0 =>
            if ¬ shapeOk then some "FAIL:observation-incomplete;sig=C16/trigger-observation" else
            if ¬ delayOk maxDelay d0 then some "FAIL:at-creation:random-delay-out-of-range;sig=C16/delay-out-of-range" else
            let walk := checkTrigger maxDelay is0
              (rows.map fun (a, (p, e)) => (a.first.1, (reschedBlock p).result, e.obs))
            match walk with
            | some (i, c) =>
              let second := match arrivals[i]? with
                | some a => a.second.isSome
                | none => false
              let sig := match c with
                | .panics => "C16/trigger-panics"
                | .reschedNotFuture =>
                  if second then "C16/second-clock-reading-earlier-than-first" else "C16/rescheduled-not-after-arrival"
                | c => "C16/trigger-" ++ tclauseName c
              some (s!"FAIL:at-arrival-{i + 1}:" ++ tclauseName c ++ ";sig=" ++ sig)
            | none =>
              -- an error of `append` is expected exactly where the injected roller failure meets a firing
              let badErr := (arrivals.zip entries).findIdx? fun (a, e) =>
                e.appendErr != (a.failRoll && (match e.obs with | some (true, _) => true | _ => false))
              match badErr with
              | some i => some (s!"FAIL:at-arrival-{i + 1}:append-error-iff-injected-roller-failure;sig=C16/append-error")
              | none =>
                let implFlags : List (Option Bool) := entries.map fun e =>
                  if e.appendErr then none else e.obs.map (·.1)
                match segObs with
                | [raw] =>
                  if arrivals.isEmpty then (if raw = "-" then none else some "FAIL:files-without-records;sig=C16/trigger-files")
                  else match decSegs raw with
                    | some files =>
                      if filesOk implFlags files then none
                      else some ("FAIL:files-not-cut-before-the-firing-record got " ++ raw ++ ";sig=C16/trigger-files")
                    | none => some "FAIL:files-unreadable;sig=C16/trigger-files"
                | _ => some "FAIL:observation-incomplete;sig=C16/trigger-observation"
        let nonDecreasing := (arrivals.zip (arrivals.drop 1)).all fun (a, b) =>
          a.first.1 < b.first.1 ∨ (a.first.1 = b.first.1 ∧ a.first.2 ≤ b.first.2)
        let firedCount := (entries.filter fun e => match e.obs with | some (true, _) => true | _ => false).length
        let tags := ["trig", unitName u, if modulate then "modulated" else "plain",
            if maxDelay > 0 then (if maxDelay > DUR_MAX then "delay-bound-beyond-chrono" else "delay") else "no-delay",
            s!"fired-{firedCount}", if nonDecreasing then "monotone" else "clock-steps-back"] ++
          ((b0 :: bsAll).flatMap fun b => factTags b.facts u n modulate b.result).eraseDups ++
          (if arrivals.any (·.second.isSome) then ["two-clock-readings"] else []) ++
          (if entries.any (·.appendErr) then ["roller-failed-after-firing"] else []) ++
          (if implS0.isNone then ["creation-panics"] else [])
        { model, spec := (blockVerdict <|> trigVerdict).getD "ok", tags }

def handle : Handler := fun cas obs =>
  let obs := obs.flatMap (splitOnChar ' ')
  match cas with
  | [kind, _tz, secs, nanos, unit, n, modulate, maxDelay, arrivals] =>
    match decInt secs, decNat nanos, decUnit unit, decInt n, decBool modulate, decNat maxDelay,
        mapM? decArrival (decList ',' arrivals) with
    | some secs, some _, some u, some n, some modulate, some maxDelay, some arrivals =>
      if kind = "next" then
        if arrivals.isEmpty ∧ maxDelay = 0 then handleNext secs u n modulate obs else badCase "next-extra"
      else if kind = "trig" then handleTrig secs u n modulate maxDelay arrivals obs
      else badCase "kind"
    | _, _, _, _, _, _, _ => badCase "fields"
  | _ => badCase "arity"

end Driver.C16
