import Driver.Common
import Log4rsModel.TimeTrigger.Spec
/-
C16 driver. Case: kind tz secs nanos unit n modulate maxdelay arrivals; observation: see
harness/src/c16.rs. The facts chrono told the code are echoed verbatim (they are inputs of the
model); the model recomputes every result, schedule, firing decision and the file segmentation.
-/
namespace Driver.C16
open Log4rs.Proto Log4rs.TimeTrigger Log4rs Driver

def decUnit : String → Option IUnit
  | "second" => some .second
  | "minute" => some .minute
  | "hour" => some .hour
  | "day" => some .day
  | "week" => some .week
  | "month" => some .month
  | "year" => some .year
  | _ => none

def decInts (sep : Char) (s : String) : Option (List Int) := mapM? decInt (splitOnChar sep s)

def decCivilTime (s : String) : Option CivilTime :=
  match decInts ',' s with
  | some [y, mo, d, h, mi, sec] => some ⟨y, mo, d, h, mi, sec⟩
  | _ => none

def decKind (kind : String) (a b : Int) : Option LocalResult :=
  if kind = "s" then some (.single a)
  else if kind = "a" then some (.ambiguous a b)
  else if kind = "n" then some .none
  else none

/-- `y,mo,d,h,mi,s,L` (L may be `-`) or `-` -/
def decTarget (s : String) : Option (Option CivilTime × Option Int) :=
  if s = "-" then some (none, none) else
  match splitOnChar ',' s with
  | [y, mo, d, h, mi, sec, l] =>
    match mapM? decInt [y, mo, d, h, mi, sec], decOpt decInt l with
    | some [y, mo, d, h, mi, sec], some l => some (some ⟨y, mo, d, h, mi, sec⟩, l)
    | _, _ => none
  | _ => none

def decTblRow (s : String) : Option (Int × LocalResult) :=
  match splitOnChar ':' s with
  | [l, k, a, b] =>
    match decInt l, decInt a, decInt b with
    | some l, some a, some b => (decKind k a b).map fun r => (l, r)
    | _, _, _ => none
  | _ => none

def decFacts (s : String) : Option Facts :=
  match splitOnChar ';' s with
  | [civ, lnow, offNow, mk, offTrunc, offRes, chg, rciv, tgt, tbl] =>
    match decInts ',' civ, decInt lnow, decInt offNow, splitOnChar ',' mk,
        decOpt decInt offTrunc, decOpt decInt offRes, decOpt decBool chg, decOpt decCivilTime rciv,
        decTarget tgt, mapM? decTblRow (decList ',' tbl) with
    | some [y, m0, d, o0, w0, wd, h, mi, sec], some lnow, some offNow, [qy, qmo, qd, qh, qmi, qs, kind, a, b],
        some offTrunc, some offRes, some chg, some rciv, some (tgtCivil, tgtLocal), some tbl =>
      match mapM? decInt [qy, qmo, qd, qh, qmi, qs, a, b] with
      | some [qy, qmo, qd, qh, qmi, qs, a, b] =>
        let args : CivilTime := ⟨qy, qmo, qd, qh, qmi, qs⟩
        let r : Option (Option CivilTime × LocalResult) :=
          if kind = "x" then some (none, .none) else (decKind kind a b).map fun r => (some args, r)
        r.map fun (mkArgs, mkRes) =>
          { civ := ⟨y, m0, d, o0, w0, wd, h, mi, sec⟩, lnow, offNow, mkArgs, mkRes, offTrunc, offRes, chg, rciv,
            tgtCivil, tgtLocal, tbl }
      | _ => none
    | _, _, _, _, _, _, _, _, _, _ => none
  | _ => none

/-- chrono as the repaired algorithm sees it, from the observed facts -/
def envOf (f : Facts) : Env :=
  { L := f.lnow, now := f.now,
    naiveOf := fun q => if some q = f.tgtCivil then f.tgtLocal else none,
    mkL := fun l => (f.tbl.lookup l).getD .none }

/-- `P.<class>` or UTC seconds -/
def decResult (s : String) : Option (Option Int) :=
  if s.startsWith "P." then some none else (decInt s).map some

def renderOut : Out Int → String
  | .ok t => toString t
  | .err _ => "E"
  | .panic w => "P." ++ w

/-- the model's schedule at one instant, fed with chrono's answers as observed -/
def modelNext (f : Facts) (u : IUnit) (n : Int) (modulate : Bool) : Except String (Out Int) :=
  if codeFixed then
    if isCalendarUnit u ∧ targetCivilFixed f.civ u n modulate ≠ f.tgtCivil then .error "target-mismatch"
    else .ok (getNextTimeFixed f.civ (envOf f) u n modulate)
  else
  let q := mkQuery f.civ u n modulate
  if q ≠ f.mkArgs then
    .error ("mk-mismatch:" ++ (match q with
      | some c => s!"{c.y},{c.mo},{c.d},{c.h},{c.mi},{c.s}"
      | none => "x"))
  else .ok (getNextTime f.civ u n modulate (fun _ => f.mkRes))

def renderNext (f : Facts) (u : IUnit) (n : Int) (modulate : Bool) (at_ : Int) : String :=
  if f.now ≠ at_ then "facts-are-of-another-instant" else
  match modelNext f u n modulate with
  | .error e => e
  | .ok o => renderOut o

/-- longer than chrono's whole date range: the class "absurd interval" -/
def absurdN (u : IUnit) (n : Int) : Bool :=
  let approx : Int := match u with
    | .month => 28 * 86400
    | .year => 365 * 86400
    | u => unitSecs u
  n * approx > DT_MAX

def sigNext (f : Facts) (u : IUnit) (n : Int) (c : Clause) : String :=
  let across := f.offTrunc.isSome ∧ f.offTrunc ≠ some f.offNow
  let yearOutOfRange : Bool := match f.mkArgs with
    | some q => decide (q.y < -262143 ∨ q.y > 262142)
    | none => false
  if absurdN u n ∨ yearOutOfRange then "C16/interval-overflows-chrono"
  else match c with
    | .panics =>
      match f.mkRes, f.mkArgs with
      | .ambiguous _ _, some _ => "C16/local-time-ambiguous-or-missing-at-truncation"
      | .none, some _ => "C16/local-time-ambiguous-or-missing-at-truncation"
      | _, _ => "C16/panic-unclassified"
    | .notAfterNow => if across then "C16/not-after-now-across-offset-change" else "C16/not-after-now-unclassified"
    | .offBoundary => if across then "C16/off-boundary-across-offset-change" else "C16/off-boundary-unclassified"

def clauseName : Clause → String
  | .panics => "panics"
  | .notAfterNow => "next-not-strictly-after-now"
  | .offBoundary => "next-not-on-unit-boundary"

def tclauseName : TClause → String
  | .panics => "trigger-panics"
  | .firedWrong => "fired-not-iff-arrival-at-or-after-schedule"
  | .reschedNotFuture => "rescheduled-not-strictly-after-arrival"
  | .schedChanged => "schedule-changed-without-firing"
  | .delayRange => "random-delay-out-of-range"

def unitName : IUnit → String
  | .second => "second" | .minute => "minute" | .hour => "hour" | .day => "day"
  | .week => "week" | .month => "month" | .year => "year"

/-- the wider input region of F12: day/week schedule computed across an offset change (the current
code adds absolute days there; the statement itself only fails in part of this region) -/
def acrossTag (u : IUnit) (fs : List Facts) : List String :=
  if (u = .day ∨ u = .week) ∧ fs.any (fun f => f.chg = some true) then ["day-week-across-offset-change"] else []

def factTags (f : Facts) : List String :=
  (match f.mkRes, f.mkArgs with
    | _, none => ["mk-not-reached"]
    | .single _, _ => []
    | .ambiguous _ _, _ => ["mk-ambiguous"]
    | .none, _ => ["mk-none"]) ++
  (if f.offTrunc.isSome ∧ f.offTrunc ≠ some f.offNow then ["unit-start-in-other-offset"] else []) ++
  (if f.chg = some true then ["offset-changes-before-next"] else []) ++
  (if f.tbl.any (fun r => r.2 = .none) then ["target-in-gap"] else []) ++
  (if f.tbl.any (fun r => match r.2 with | .ambiguous _ _ => true | _ => false) then ["target-ambiguous"] else []) ++
  (if f.offNow % 3600 ≠ 0 then ["fractional-offset"] else [])

/-- verdict of the `next` clauses on one instant; `ok` outside the statement's domain (n < 1) -/
def verdictNext (f : Facts) (u : IUnit) (n : Int) (modulate : Bool) (result : Option Int) (pre : String) : Option String :=
  if n < 1 then none
  else (checkNext f u n modulate result).map fun c =>
    "FAIL:" ++ pre ++ clauseName c ++ ";sig=" ++ sigNext f u n c

structure Block where
  rawFacts : String
  facts : Facts
  result : Option Int
  rawResult : String

def decBlock (rf rr : String) : Option Block :=
  match decFacts rf, decResult rr with
  | some facts, some result => some { rawFacts := rf, facts, result, rawResult := rr }
  | _, _ => none

def decInstant (s : String) : Option (Int × Nat) :=
  match splitOnChar ':' s with
  | [a, b] => match decInt a, decNat b with
    | some a, some b => if b < 1000000000 then some (a, b) else none
    | _, _ => none
  | _ => none

/-- `f:sched`, or anything else (a panic class, `E`, `?`) -/
def decTrigObs (s : String) : TrigObs :=
  match splitOnChar ':' s with
  | [a, b] => match decBool a, decInt b with
    | some a, some b => some (a, b)
    | _, _ => none
  | _ => none

def pairUp : List String → Option (List (String × String))
  | [] => some []
  | a :: b :: rest => (pairUp rest).map ((a, b) :: ·)
  | _ => none

def renderSegs (segs : List (List Nat)) : String :=
  ";".intercalate (segs.map fun s => encList "," (s.map toString))

def handleNext (secs : Int) (u : IUnit) (n : Int) (modulate : Bool) (obs : List String) : Answer :=
  match obs with
  | [rf, rr] =>
    match decBlock rf rr with
    | none => badCase "facts"
    | some b =>
      let model := rf ++ " " ++ renderNext b.facts u n modulate secs
      let spec := (verdictNext b.facts u n modulate b.result "").getD "ok"
      let tags := ["next", unitName u, if modulate then "modulated" else "plain"] ++ factTags b.facts ++
        acrossTag u [b.facts] ++
        (if n < 1 then ["n-below-1"] else if absurdN u n then ["n-absurd"] else if n = 1 then ["n-1"] else ["n-many"]) ++
        (if b.result.isNone then ["impl-panics"] else [])
      { model, spec, tags }
  | _ => badCase "obs-arity"

def handleTrig (secs : Int) (u : IUnit) (n : Int) (modulate : Bool) (maxDelay : Int) (arrivals : List (Int × Nat))
    (obs : List String) : Answer :=
  let pre := obs.takeWhile (· ≠ "T")
  let post := (obs.dropWhile (· ≠ "T")).drop 1
  match pairUp pre with
  | none => badCase "blocks"
  | some pairs =>
    match mapM? (fun (p : String × String) => decBlock p.1 p.2) pairs with
    | none => badCase "facts"
    | some [] => badCase "no-block"
    | some (b0 :: bs) =>
      if bs.length ≠ arrivals.length then badCase "block-count" else
      match post with
      | [] => badCase "no-sched"
      | s0 :: restObs =>
        let blockModel := fun (p : Block × Int) => p.1.rawFacts ++ " " ++ renderNext p.1.facts u n modulate p.2
        let head := " ".intercalate (((b0 :: bs).zip (secs :: arrivals.map (·.1))).map blockModel) ++ " T "
        -- block verdicts first: the schedule computation at every instant involved
        let blockVerdict : Option String :=
          ((b0 :: bs).zipIdx.findSome? fun (b, i) =>
            verdictNext b.facts u n modulate b.result (if i = 0 then "at-creation:" else s!"at-arrival-{i}:"))
        let next0 : Out Int := match modelNext b0.facts u n modulate with
          | .ok o => o
          | .error e => .panic e
        let implS0 := decInt s0
        let d0 : Int := match implS0, b0.result with
          | some s, some r => s - r
          | _, _ => 0
        let sched0 := (if codeFixed then scheduleFixed else schedule) next0 maxDelay d0
        -- what the implementation reported after the marker (nothing more when creation panicked)
        let entries := restObs.take arrivals.length
        let segObs := restObs.drop arrivals.length
        let shapeOk : Bool := entries.length = arrivals.length ∧ segObs.length = 1
        let tobs : List TrigObs := (entries.map decTrigObs) ++ List.replicate (arrivals.length - entries.length) none
        -- the model's run, fed with the observed random delays
        let model := match sched0 with
          | .ok s =>
            let steps : List (Int × Out Int) := (arrivals.zip (bs.zip tobs)).map fun ((a, _), (b, o)) =>
              let nx : Out Int := match modelNext b.facts u n modulate with
                | .ok o => o
                | .error e => .panic e
              let d : Int := match o, b.result with
                | some (true, after), some r => after - r
                | _, _ => 0
              (a, (if codeFixed then scheduleFixed else schedule) nx maxDelay d)
            let outs := (if codeFixed then runFixed else run) (.live s) steps
            let rendered := outs.map fun (o, st) => match o, st with
              | .ok fired, .live t => encBool fired ++ ":" ++ toString t
              | .ok _, .poisoned => "?"
              | .err _, _ => "E"
              | .panic w, _ => "P." ++ w
            let flags := outs.map fun (o, _) => match o with
              | .ok fired => some fired
              | _ => none
            let segs := if arrivals.isEmpty then "-" else renderSegs (segment flags)
            head ++ " ".intercalate (toString s :: rendered ++ [segs])
          | o => head ++ renderOut o
        -- the specification on the implementation's observation
        let trigVerdict : Option String :=
          match implS0 with
          | none => some "FAIL:at-creation:trigger-panics;sig=C16/trigger-creation-panics"
          | some is0 =>
            if ¬ shapeOk then some "FAIL:observation-incomplete;sig=C16/trigger-observation" else
            if ¬ delayOk maxDelay d0 then some "FAIL:at-creation:random-delay-out-of-range;sig=C16/delay-out-of-range" else
            let walk := checkTrigger maxDelay is0
              ((arrivals.zip (bs.zip tobs)).map fun ((a, _), (b, o)) => (a, b.result, o))
            match walk with
            | some (i, c) =>
              let sig := match c with
                | .panics =>
                  -- poisoned lock: the class of the first panic
                  let firstPanic := (bs.zip tobs).find? fun (_, o) => o.isNone
                  match firstPanic with
                  | some (b, _) => sigNext b.facts u n .panics
                  | none => "C16/trigger-panics"
                | .reschedNotFuture => match bs[i]? with
                  | some b => sigNext b.facts u n .notAfterNow
                  | none => "C16/trigger"
                | c => "C16/trigger-" ++ tclauseName c
              some (s!"FAIL:at-arrival-{i + 1}:" ++ tclauseName c ++ ";sig=" ++ sig)
            | none =>
              let implFlags := tobs.map fun o => o.map (·.1)
              let wantSegs := if arrivals.isEmpty then "-" else renderSegs (segment implFlags)
              if segObs ≠ [wantSegs] then some ("FAIL:files-not-cut-before-the-firing-record expected " ++ wantSegs ++ ";sig=C16/trigger-segmentation")
              else none
        let nonDecreasing := (arrivals.zip (arrivals.drop 1)).all fun ((a, an), (b, bn)) => a < b ∨ (a = b ∧ an ≤ bn)
        let firedCount := (tobs.filter fun o => match o with | some (true, _) => true | _ => false).length
        let tags := ["trig", unitName u, if modulate then "modulated" else "plain",
            if maxDelay > 0 then "delay" else "no-delay", s!"fired-{firedCount}",
            if nonDecreasing then "monotone" else "clock-steps-back"] ++
          ((b0 :: bs).flatMap fun b => factTags b.facts).eraseDups ++ acrossTag u ((b0 :: bs).map (·.facts)) ++
          (if n < 1 then ["n-below-1"] else []) ++
          (if implS0.isNone then ["creation-panics", "impl-panics"] else if (entries.map decTrigObs).any (·.isNone) then ["impl-panics"] else [])
        { model, spec := (blockVerdict <|> trigVerdict).getD "ok", tags }

def handle : Handler := fun cas obs =>
  let obs := obs.flatMap (splitOnChar ' ')
  match cas with
  | [kind, _tz, secs, nanos, unit, n, modulate, maxDelay, arrivals] =>
    match decInt secs, decNat nanos, decUnit unit, decInt n, decBool modulate, decNat maxDelay,
        mapM? decInstant (decList ',' arrivals) with
    | some secs, some _, some u, some n, some modulate, some maxDelay, some arrivals =>
      if kind = "next" then
        if arrivals.isEmpty ∧ maxDelay = 0 then handleNext secs u n modulate obs else badCase "next-extra"
      else if kind = "trig" then handleTrig secs u n modulate maxDelay arrivals obs
      else badCase "kind"
    | _, _, _, _, _, _, _ => badCase "fields"
  | _ => badCase "arity"

end Driver.C16
