import Driver.Common
import Log4rsModel.EnvExpand.Spec
/-
C19 driver. Case lines (after the id; a trailing field `@bg` routes the case to the harness build
with `background_rotation` and is otherwise ignored):
  hook    <env> <path>                      ok:<expanded> | PANIC
  file | file-cfg | file-json | file-toml   <env> <path>
                                            a file appender (builder API / YAML, JSON, TOML configuration),
                                            two records `0`, `1`;  tree:<entries> | err | PANIC
  file-os <env> <path bytes, hex>           builder API with an `OsStr` path that need not be UTF-8
  rolling | rolling-cfg <env> <path> [<fw|del> <appends> [<roller pattern|-> <size|time>]]
                                            a HISTORY through the real appender: size trigger (limit 2 bytes,
                                            one byte per record) or time trigger (pre-process branch: every
                                            append but the first finds the interval elapsed), fixed-window
                                            roller (count 2, given pattern, default `r.{}.log`) or delete
                                            roller;  hist:<step>|<step>|… (after build and after every
                                            append), step = <entries>;open=<file held open|->
  roller | roller-cfg <env> <pattern> <base> <count> <rolls>
                                            `cur.log` written and rolled <rolls> times;  tree:<entries> | err
<entries> = `,`-joined, sorted: `d:<dir>` and `f:<file>=<content>` (content: digits as text, `_` empty).
<env> = `~` or `,`-joined entries `<name>;<value>` (strings hex-encoded as everywhere) or
`b:<name bytes>;<value bytes>` (contiguous hex, `_` empty): a variable whose name or value need not
be valid UTF-8. A value or path starting with `/SCRATCH` stands for the absolute scratch directory.
Paths are relative to a fresh scratch directory the harness `cd`s into.
Model = EnvExpand/CallSites.lean (`fileBuildFs`, `rollingHistoryFs`, `rollFs`); specification =
EnvExpand/Spec.lean at `loc = specExpand given` (`specFileBuild`, `specRollingHistory`, `specRoll`).
-/
namespace Driver.C19
open Log4rs.Proto Log4rs.EnvExpand Log4rs Driver

/-- Non-ASCII sample characters of the generator with their `char::is_alphanumeric` value; the
harness asserts at start-up that Rust classifies every one of them as listed here. -/
def sampleTable : List (Nat × Bool) :=
  [ (0xE9, true), (0xDF, true), (0x416, true), (0x4E2D, true), (0x1D4B3, true),
    (0x663, true), (0xB2, true), (0xBD, true),
    (0x20AC, false), (0x2014, false), (0xA0, false), (0x1F600, false), (0x301, false), (0xFFFD, false) ]

def alnum (c : Char) : Bool :=
  if c.toNat < 128 then asciiAlnum c
  else match sampleTable.find? (fun e => e.1 = c.toNat) with
    | some (_, b) => b
    | none => false

/-- every character is ASCII or one of the classified samples -/
def known (s : Text) : Bool :=
  s.all (fun c => c.toNat < 128 || sampleTable.any (fun e => e.1 = c.toNat))

def decOsEnv (s : String) : Option OsEnv :=
  mapM? (fun e =>
    if e.startsWith "b:" then
      match splitOnChar ';' (e.drop 2).toString with
      | [k, v] => match decBytes k, decBytes v with
        | some k, some v => some (k, v)
        | _, _ => none
      | _ => none
    else match splitOnChar ';' e with
    | [k, v] => match decStr k, decStr v with
      | some k, some v => some (utf8 k, utf8 v)
      | _, _ => none
    | _ => none) (decList ',' s)

/-- the environment block has unique names (it is a map) -/
def uniqueNames (os : OsEnv) : Bool := (os.map (·.1)).eraseDups.length = os.length

/-- some variable's name or value is not valid UTF-8 -/
def foreign (os : OsEnv) : Bool :=
  os.any (fun e => (decodeUtf8 e.1).isNone || (decodeUtf8 e.2).isNone)

def hasSub (pat s : Text) : Bool :=
  match s with
  | [] => false
  | c :: rest => Log4rs.Str.isPrefix pat (c :: rest) || hasSub pat rest

/-- a variable the path names in a well-formed reference has a value that is not valid Unicode -/
def refNotUnicode (os : OsEnv) (p : Text) : Bool :=
  os.any (fun e => match decodeUtf8 e.1 with
    | some n => (decodeUtf8 e.2).isNone && hasSub (refLit n) p
    | none => false)

def envTags (os : OsEnv) (p : Text) : List String :=
  (if foreign os then ["foreign-env"] else []) ++ (if refNotUnicode os p then ["ref-not-unicode"] else [])

/-- decoded environment: the OS block, what `std::env::var` sees of it -/
def decEnv (s : String) : Option (OsEnv × Env) :=
  match decOsEnv s with
  | some os => if uniqueNames os then some (os, unicodeView os) else none
  | none => none

/-- a second application of the expansion would change the result -/
def reexpands (env : Env) (p : Text) : Bool :=
  let once := specExpand alnum env p
  specExpand alnum env once ≠ once

def renderOut : Outcome Unit Text → String
  | .ok t => "ok:" ++ encStr t
  | .err _ => "err"
  | .panic _ => "PANIC"

/-- number of `$ENV{` occurrences whose reference is well formed / set / … -/
structure Census where
  occ : Nat := 0
  setRefs : List Text := []
  unset : Nat := 0
  malformed : Nat := 0

def census (env : Env) : Text → Census
  | [] => {}
  | c :: rest =>
    let r := census env rest
    if Log4rs.Str.isPrefix envPrefix (c :: rest) then
      match refAt alnum (rest.drop 4) with
      | some n =>
        match lookup env n with
        | some _ => { r with occ := r.occ + 1, setRefs := n :: r.setRefs }
        | none => { r with occ := r.occ + 1, unset := r.unset + 1 }
      | none => { r with occ := r.occ + 1, malformed := r.malformed + 1 }
    else r

def tagsOf (kind : String) (env : Env) (p : Text) (constructs : Bool) : List String :=
  let cs := census env p
  let t := [kind]
  let t := if cs.setRefs.isEmpty then t else t ++ ["subst"]
  let t := if cs.unset > 0 then t ++ ["unset-ref"] else t
  let t := if cs.malformed > 0 then t ++ ["malformed"] else t
  let t := if cs.setRefs.length > cs.setRefs.eraseDups.length then t ++ ["repeated-ref"] else t
  let t := if cs.setRefs.any (fun n => n.any (fun c => c.toNat ≥ 128)) then t ++ ["multibyte-name"] else t
  let t := if p.any (fun c => c.toNat ≥ 128) then t ++ ["non-ascii"] else t
  let t := if hasSub ['$', '$'] p || (p.filter (· = '$')).length > cs.occ then t ++ ["stray-dollar"] else t
  let t := if env.any (fun e => e.2.isEmpty) && !cs.setRefs.isEmpty then t ++ ["empty-value"] else t
  let t := if junctionFree alnum env p then t ++ ["junction-free"] else t ++ ["junction"]
  let t := if constructs then t ++ ["constructs-reference"] else t
  let t := if reexpands env p then t ++ ["non-idempotent"] else t
  if p.all (· ≠ '$') then t ++ ["trivial"] else t

/-- class of the input of a failure: a panic in an environment holding a variable that is not valid
Unicode; at a call site, an input on which a second application of the expansion changes the
result; an input on which the historical replace-all differs (F7); other -/
def failSig (implObs : String) (foreignEnv callSite nonIdem constructs : Bool) : String :=
  if implObs = "PANIC" && foreignEnv then "C19/panics-on-foreign-environment"
  else if callSite && nonIdem then "C19/call-site-not-expanded-exactly-once"
  else if constructs then "C19/substitution-constructs-reference"
  else "C19/expansion-differs-from-single-pass"

/-! ### the file system of the call-site kinds -/

/-- the scratch directory: absolute paths below `/SCRATCH` are inside the working directory -/
def cwd : Comps := ["SCRATCH".toList]

def joinPath (c : Comps) : Text := (c.map (fun x => x ++ ['/'])).flatten.dropLast

def contentText (b : Bytes) : String :=
  if b.isEmpty then "_"
  else if b.all (fun x => 48 ≤ x && x ≤ 57) then String.ofList (b.map Char.ofNat)
  else "x" ++ encBytes b

def entries (fs : Fs) : String :=
  let ds := fs.dirs.map (fun d => "d:" ++ encStr (joinPath d))
  let fl := fs.files.map (fun e => "f:" ++ encStr (joinPath e.1) ++ "=" ++ contentText e.2)
  encList "," ((ds ++ fl).toArray.qsort (· < ·)).toList

def renderTree : Outcome FsErr Fs → String
  | .ok fs => "tree:" ++ entries fs
  | .err _ => "err"
  | .panic _ => "PANIC"

/-- an expansion that leaves the scratch directory, or a component the file system would refuse -/
def unsafePath (p : Text) : Bool :=
  let r := rpath p
  (r.abs && !cwd.isPrefixOf r.comps) || hasSub "/SCRATCH".toList (p.drop 1) || r.comps.any (fun c => utf8Len c > 200 || c.contains (Char.ofNat 0)) ||
    -- `..` must never climb above the scratch directory
    ((if r.abs then r.comps.drop 1 else r.comps).foldl
      (fun (acc : Option Nat) c => match acc with
        | none => none
        | some d => if c = dotdot then (if d = 0 then none else some (d - 1)) else some (d + 1)) (some 0)).isNone

def digit (k : Nat) : Bytes := [48 + k % 10]

/-! ### file appender kinds -/

/-- build, two records, the tree -/
def fileModel (env : Env) (given : Bytes) : Outcome FsErr Fs :=
  bindO (fileBuildFs alnum env cwd given Fs.empty) fun (a, fs) =>
    .ok (fileAppendFs a (digit 1) (fileAppendFs a (digit 0) fs))

def fileSpec (loc : Text) : Outcome FsErr Fs :=
  bindO (specFileBuild cwd loc Fs.empty) fun (fd, fs) =>
    .ok ((fs.appendTo fd (digit 0)).appendTo fd (digit 1))

/-! ### rolling appender kinds -/

structure RollingCfg where
  fw : Bool
  appends : Nat
  pattern : Text
  time : Bool

def ops (c : RollingCfg) : List AppendOp :=
  (List.range c.appends).map (fun k =>
    { data := digit k, rollIf := if c.time then (fun _ => decide (k ≥ 1)) else (fun len => decide (len > 2)) })

def renderStep (fs : Fs) (w : Option (Comps × Nat)) : String :=
  entries fs ++ ";open=" ++ (match w with
    | some (fd, _) => encStr (joinPath fd)
    | none => "-")

/-- the history, one rendered step after build and after every append; `none` = an append fails
in the model (never generated) -/
def histSteps (step : Option (Comps × Nat) → AppendOp → Fs → Outcome FsErr (Option (Comps × Nat) × Fs)) :
    List AppendOp → Option (Comps × Nat) → Fs → List String → Option (List String)
  | [], _, _, acc => some acc
  | op :: rest, w, fs, acc =>
    match step w op fs with
    | .ok (w', fs') => histSteps step rest w' fs' (acc ++ [renderStep fs' w'])
    | _ => none

def rollingModel (env : Env) (given : Text) (c : RollingCfg) : Option String :=
  match (if c.fw then rollerBuild c.pattern 0 2 else .ok c.pattern) with
  | .ok stored =>
    let roller : RollerFn := if c.fw then rollFs alnum env cwd stored 0 2 else deleteRollFs cwd
    match rollingBuildFs alnum env cwd (utf8 given) Fs.empty with
    | .ok (st, fs) =>
      (histSteps (fun w op fs => match rollingAppendFs cwd c.time roller { path := st.path, writer := w } op fs with
          | .ok (st', fs') => .ok (st'.writer, fs')
          | .err e => .err e
          | .panic x => .panic x) (ops c) st.writer fs [renderStep fs st.writer]).map
        (fun steps => "hist:" ++ "|".intercalate steps)
    | .err _ => some "err"
    | .panic _ => some "PANIC"
  | .err _ => some "err"
  | .panic _ => some "PANIC"

def rollingSpecSteps (env : Env) (given : Text) (c : RollingCfg) : Option (List String) :=
  let loc := specExpand alnum env given
  if c.fw && !hasInfix ['{', '}'] c.pattern then none else
  let roller : RollerFn := if c.fw then specRoll cwd (specSlot alnum env c.pattern) 0 2 else deleteRollFs cwd
  match specRollingBuild cwd loc Fs.empty with
  | .ok (w, fs) => histSteps (specRollingAppend cwd c.time roller loc) (ops c) w fs [renderStep fs w]
  | _ => none

/-! ### fixed-window roller kinds -/

def curLog : Text := "cur.log".toList

/-- `rolls` times: write the roll number into `cur.log`, then roll it -/
def runRolls (roller : RollerFn) : Nat → Nat → Fs → Outcome FsErr Fs
  | 0, _, fs => .ok fs
  | r + 1, k, fs =>
    match openCreate cwd fs curLog with
    | .ok (fd, fs1) => bindO (roller curLog (fs1.appendTo fd (digit k))) fun fs2 => runRolls roller r (k + 1) fs2
    | .error e => .err e

def rollerModel (env : Env) (pat : Text) (base count rolls : Nat) : Outcome FsErr Fs :=
  bindO (rollerBuild pat base count) fun stored => runRolls (rollFs alnum env cwd stored base count) rolls 0 Fs.empty

def rollerSpec (env : Env) (pat : Text) (base count rolls : Nat) : Outcome FsErr Fs :=
  if !hasInfix ['{', '}'] pat || (count > 0 && base + (count - 1) > U32_MAX) then .err (.build "rejected")
  else runRolls (specRoll cwd (specSlot alnum env pat) base count) rolls 0 Fs.empty

def knownEnv (env : Env) : Bool := env.all (fun e => known e.1 && known e.2)

def verdict (implObs want what sig : String) : String :=
  if implObs = want then "ok" else "FAIL:" ++ what ++ " expected " ++ want ++ ";sig=" ++ sig

def fileCase (kind : String) (os : OsEnv) (env : Env) (given : Bytes) (implObs : String) : Answer :=
  let p := toStringLossy given
  if !known p then badCase "character outside the classified samples" else
  let loc := specExpand alnum env p
  if unsafePath loc then badCase "location outside the scratch directory" else
  let constructs := expand_unfixed alnum env p ≠ .ok loc
  let tags := tagsOf kind env p constructs ++ envTags os p ++ pathTags p loc
  { model := renderTree (fileModel env given),
    spec := verdict implObs (renderTree (fileSpec loc)) "file location" (failSig implObs (foreign os) true (reexpands env p) constructs),
    tags }
where
  pathTags (p loc : Text) : List String :=
    let r := rpath loc
    (if p.head? = some '$' then ["leading-reference"] else []) ++
    (if r.abs then ["absolute"] else []) ++
    (if r.comps.contains dotdot then ["dotdot"] else []) ++
    (if r.trailing then ["trailing-slash"] else []) ++
    (if hasSub ['/', '/'] loc then ["double-slash"] else [])

def rollingCase (kind : String) (os : OsEnv) (env : Env) (p : Text) (c : RollingCfg) (implObs : String) : Answer :=
  let loc := specExpand alnum env p
  if unsafePath loc || (c.fw && (List.range 3).any (fun i => unsafePath (specSlot alnum env c.pattern i))) then
    badCase "location outside the scratch directory" else
  let constructs := expand_unfixed alnum env p ≠ .ok loc
  let tags := tagsOf kind env p constructs ++ envTags os p
    ++ [if c.fw then "fixed-window" else "delete", if c.time then "time-trigger" else "size-trigger"]
    ++ (if c.appends ≥ 6 || (c.time && c.appends ≥ 3) then ["two-rolls"] else [])
    ++ (if p.head? = some '$' then ["leading-reference"] else [])
    ++ (if (rpath loc).abs then ["absolute"] else [])
    ++ (if hasSub envPrefix c.pattern then ["roller-pattern-reference"] else [])
  match rollingModel env p c with
  | none => badCase "an append fails in the model"
  | some model =>
    let wantSteps := rollingSpecSteps env p c
    let want := match wantSteps with
      | some steps => "hist:" ++ "|".intercalate steps
      | none => "err"
    -- the history agrees until the first roll and differs afterwards
    let firstRoll := if c.time then 2 else 4
    let implSteps := splitOnChar '|' ((implObs.drop 5).toString)
    let untilRoll := match wantSteps with
      | some steps => implSteps.take (firstRoll - 1) = steps.take (firstRoll - 1) && steps.length ≥ firstRoll && loc ≠ p
      | none => false
    { model,
      spec := if implObs = want then "ok" else
        "FAIL:rolling history expected " ++ want ++ ";sig=" ++
          (if implObs ≠ "PANIC" && untilRoll then "C19/location-not-stable-across-rolls"
           else failSig implObs (foreign os) true (reexpands env p) constructs),
      tags }

def rollingFields (kind envS pathS rollerS appendsS patS trigS implObs : String) : Answer :=
  if kind ≠ "rolling" && kind ≠ "rolling-cfg" then badCase "kind" else
  match decEnv envS, decStr pathS, decNat appendsS with
  | some (os, env), some p, some appends =>
    if !(known p && knownEnv env) then badCase "character outside the classified samples" else
    if rollerS ≠ "fw" && rollerS ≠ "del" then badCase "roller" else
    if trigS ≠ "size" && trigS ≠ "time" then badCase "trigger" else
    if appends > 10 then badCase "appends" else
    match (if patS = "-" then some "r.{}.log".toList else decStr patS) with
    | none => badCase "decode"
    | some pat =>
      if !known pat then badCase "character outside the classified samples" else
      rollingCase kind os env p { fw := rollerS = "fw", appends, pattern := pat, time := trigS = "time" } implObs
  | _, _, _ => badCase "decode"

def handleFields (cas : List String) (implObs : String) : Answer :=
  match cas with
  | [kind, envS, pathS] =>
    match decEnv envS with
    | none => badCase "decode"
    | some (os, env) =>
      if !knownEnv env then badCase "character outside the classified samples" else
      if kind = "file-os" then
        match decBytes pathS with
        | some given => fileCase kind os env given implObs
        | none => badCase "decode"
      else
      match decStr pathS with
      | none => badCase "decode"
      | some p =>
        if !known p then badCase "character outside the classified samples" else
        if kind = "rolling" || kind = "rolling-cfg" then
          rollingCase kind os env p { fw := true, appends := 8, pattern := "r.{}.log".toList, time := false } implObs
        else if kind = "file" || kind = "file-cfg" || kind = "file-json" || kind = "file-toml" then
          fileCase kind os env (utf8 p) implObs
        else if kind = "hook" then
          let s := specExpand alnum env p
          let constructs := expand_unfixed alnum env p ≠ .ok s
          let want := "ok:" ++ encStr s
          { model := renderOut (expandOs alnum os p),
            spec := verdict implObs want "expansion" (failSig implObs (foreign os) false false constructs),
            tags := tagsOf kind env p constructs ++ envTags os p }
        else badCase "kind"
  | [kind, envS, pathS, rollerS, appendsS] =>
    rollingFields kind envS pathS rollerS appendsS "-" "size" implObs
  | [kind, envS, pathS, rollerS, appendsS, patS, trigS] =>
    rollingFields kind envS pathS rollerS appendsS patS trigS implObs
  | [kind, envS, patS, baseS, countS, rollsS] =>
    if kind ≠ "roller" && kind ≠ "roller-cfg" then badCase "kind" else
    match decEnv envS, decStr patS, decNat baseS, decNat countS, decNat rollsS with
    | some (os, env), some pat, some base, some count, some rolls =>
      if !(known pat && knownEnv env) then badCase "character outside the classified samples" else
      if rolls > 20 || count > 8 then badCase "size" else
      let idxs := (List.range (count + 1)).map (· + base)
      if idxs.any (fun i => unsafePath (specSlot alnum env pat i)) then badCase "location outside the scratch directory" else
      let constructs := idxs.any (fun i => expand_unfixed alnum env (slotText pat i) ≠ .ok (specSlot alnum env pat i))
      let nonIdem := idxs.any (fun i => reexpands env (slotText pat i))
      let tags := tagsOf kind env (slotText pat base) constructs ++ envTags os (slotText pat base)
      let tags := if nonIdem && !tags.contains "non-idempotent" then tags ++ ["non-idempotent"] else tags
      let tags := tags ++ (if pat.head? = some '$' then ["leading-reference"] else [])
        ++ (if !hasInfix ['{', '}'] pat then ["no-placeholder"] else [])
      { model := renderTree (rollerModel env pat base count rolls),
        spec := verdict implObs (renderTree (rollerSpec env pat base count rolls)) "archive locations"
          (failSig implObs (foreign os) true nonIdem constructs),
        tags }
    | _, _, _, _, _ => badCase "decode"
  | _ => badCase "arity"

def handle : Handler := fun cas obs =>
  match obs with
  | [implObs] => handleFields (if cas.getLast? = some "@bg" then cas.dropLast else cas) implObs
  | _ => badCase "arity"

end Driver.C19
