import Driver.Common
namespace Driver.C19
open Driver

def handle : Handler := fun _ _ => badCase "unimplemented"

end Driver.C19
