import Driver.Common
import Log4rsModel.EnvExpand.Spec
import Log4rsModel.Roller.Model
/-
C19 driver. Case lines (after the id):
  hook    <env> <path>                          observation  ok:<expanded> | PANIC
  file    <env> <path>                          observation  created:<sorted list of files> | err | PANIC
  rolling <env> <path>                          (same)
  roller  <env> <pattern> <base> <count> <rolls>  observation  files:<path>=<k>,… | err | PANIC
  file-cfg / rolling-cfg <env> <path>           the same appenders created from a configuration FILE
                                                (`load_config_file`, `Logger::new`, one record)
  roller-cfg <env> <pattern> <base> <count> <rolls>   rolling appender + fixed-window roller from a
                                                configuration file, one roll per record
  rolling / rolling-cfg <env> <path> <fw|del> <appends>   a HISTORY through the real appender: size
                                                trigger (limit 2 bytes, one byte per record), fixed-window
                                                roller `r.{}.log` count 2 or delete roller; observation
                                                hist:<step>|<step>|…, one step after build and after every
                                                append: <file>=<content>,…;open=<file the appender holds open|->
                                                (the 3-field form means `fw 8`)
<env> = `~` or `,`-joined entries `<name>;<value>` (strings hex-encoded as everywhere) or
`b:<name bytes>;<value bytes>` (contiguous hex, `_` empty): a variable whose name or value need not
be valid UTF-8 (the process environment as the OS holds it).
Paths of the call-site kinds are relative to a fresh scratch directory the harness `cd`s into.
The model of every call site is `location` (EnvExpand/Model.lean); the specification is ONE
application of the single pass to the text the call site was given (`specLocation`).
-/
namespace Driver.C19
open Log4rs.Proto Log4rs.EnvExpand Log4rs Driver

/-- Non-ASCII sample characters of the generator with their `char::is_alphanumeric` value; the
harness asserts at start-up that Rust classifies every one of them as listed here. -/
def sampleTable : List (Nat × Bool) :=
  [ (0xE9, true), (0xDF, true), (0x416, true), (0x4E2D, true), (0x1D4B3, true),
    (0x663, true), (0xB2, true), (0xBD, true),
    (0x20AC, false), (0x2014, false), (0xA0, false), (0x1F600, false), (0x301, false) ]

def alnum (c : Char) : Bool :=
  if c.toNat < 128 then asciiAlnum c
  else match sampleTable.find? (fun e => e.1 = c.toNat) with
    | some (_, b) => b
    | none => false

/-- every character is ASCII or one of the classified samples -/
def known (s : Text) : Bool :=
  s.all (fun c => c.toNat < 128 || sampleTable.any (fun e => e.1 = c.toNat))

def decOsEnv (s : String) : Option OsEnv :=
  mapM? (fun e =>
    if e.startsWith "b:" then
      match splitOnChar ';' (e.drop 2).toString with
      | [k, v] => match decBytes k, decBytes v with
        | some k, some v => some (k, v)
        | _, _ => none
      | _ => none
    else match splitOnChar ';' e with
    | [k, v] => match decStr k, decStr v with
      | some k, some v => some (utf8 k, utf8 v)
      | _, _ => none
    | _ => none) (decList ',' s)

/-- the environment block has unique names (it is a map) -/
def uniqueNames (os : OsEnv) : Bool := (os.map (·.1)).eraseDups.length = os.length

/-- some variable's name or value is not valid UTF-8 -/
def foreign (os : OsEnv) : Bool :=
  os.any (fun e => (decodeUtf8 e.1).isNone || (decodeUtf8 e.2).isNone)

def hasSub (pat s : Text) : Bool :=
  match s with
  | [] => false
  | c :: rest => Log4rs.Str.isPrefix pat (c :: rest) || hasSub pat rest

/-- a variable the path names in a well-formed reference has a value that is not valid Unicode -/
def refNotUnicode (os : OsEnv) (p : Text) : Bool :=
  os.any (fun e => match decodeUtf8 e.1 with
    | some n => (decodeUtf8 e.2).isNone && hasSub (refLit n) p
    | none => false)

def envTags (os : OsEnv) (p : Text) : List String :=
  (if foreign os then ["foreign-env"] else []) ++ (if refNotUnicode os p then ["ref-not-unicode"] else [])

/-- decoded environment: the OS block, what `std::env::var` sees of it -/
def decEnv (s : String) : Option (OsEnv × Env) :=
  match decOsEnv s with
  | some os => if uniqueNames os then some (os, unicodeView os) else none
  | none => none

def siteOf (kind : String) (slot : Nat) : Option CallSite :=
  match kind with
  | "file" => some .fileBuilder
  | "file-cfg" => some .fileConfig
  | "rolling" => some .rollingBuilder
  | "rolling-cfg" => some .rollingConfig
  | "roller" => some (.rollerBuilder slot)
  | "roller-cfg" => some (.rollerConfig slot)
  | _ => none

/-- a second application of the expansion would change the result -/
def reexpands (env : Env) (p : Text) : Bool :=
  let once := specExpand alnum env p
  specExpand alnum env once ≠ once

def renderOut : Outcome Unit Text → String
  | .ok t => "ok:" ++ encStr t
  | .err _ => "err"
  | .panic _ => "PANIC"

/-- number of `$ENV{` occurrences whose reference is well formed / set / … -/
structure Census where
  occ : Nat := 0
  setRefs : List Text := []
  unset : Nat := 0
  malformed : Nat := 0

def census (env : Env) : Text → Census
  | [] => {}
  | c :: rest =>
    let r := census env rest
    if Log4rs.Str.isPrefix envPrefix (c :: rest) then
      match refAt alnum (rest.drop 4) with
      | some n =>
        match lookup env n with
        | some _ => { r with occ := r.occ + 1, setRefs := n :: r.setRefs }
        | none => { r with occ := r.occ + 1, unset := r.unset + 1 }
      | none => { r with occ := r.occ + 1, malformed := r.malformed + 1 }
    else r

def tagsOf (kind : String) (env : Env) (p : Text) (constructs : Bool) : List String :=
  let cs := census env p
  let t := [kind]
  let t := if cs.setRefs.isEmpty then t else t ++ ["subst"]
  let t := if cs.unset > 0 then t ++ ["unset-ref"] else t
  let t := if cs.malformed > 0 then t ++ ["malformed"] else t
  let t := if cs.setRefs.length > cs.setRefs.eraseDups.length then t ++ ["repeated-ref"] else t
  let t := if cs.setRefs.any (fun n => n.any (fun c => c.toNat ≥ 128)) then t ++ ["multibyte-name"] else t
  let t := if p.any (fun c => c.toNat ≥ 128) then t ++ ["non-ascii"] else t
  let t := if hasSub ['$', '$'] p || (p.filter (· = '$')).length > cs.occ then t ++ ["stray-dollar"] else t
  let t := if env.any (fun e => e.2.isEmpty) && !cs.setRefs.isEmpty then t ++ ["empty-value"] else t
  let t := if junctionFree alnum env p then t ++ ["junction-free"] else t ++ ["junction"]
  let t := if constructs then t ++ ["constructs-reference"] else t
  let t := if reexpands env p then t ++ ["non-idempotent"] else t
  if p.all (· ≠ '$') then t ++ ["trivial"] else t

/-- class of the input of a failure: a panic in an environment holding a variable that is not valid
Unicode; at a call site, an input on which a second application of the expansion changes the
result; an input on which the historical replace-all differs (F7); other -/
def failSig (implObs : String) (foreignEnv callSite nonIdem constructs : Bool) : String :=
  if implObs = "PANIC" && foreignEnv then "C19/panics-on-foreign-environment"
  else if callSite && nonIdem then "C19/call-site-not-expanded-exactly-once"
  else if constructs then "C19/substitution-constructs-reference"
  else "C19/expansion-differs-from-single-pass"

/-- file-system friendly relative path: non-empty components, none of them `.` or `..`, no NUL -/
def nicePath (p : Text) : Bool :=
  let comps := Log4rs.Str.splitOn ['/'] p
  !p.isEmpty && comps.all (fun c => !c.isEmpty && c ≠ ['.'] && c ≠ ['.', '.'] && c.all (· ≠ Char.ofNat 0)
    && utf8Len c ≤ 200)

def renderDisk (d : Roller.Disk) : String :=
  let entries := d.files.map (fun e => encStr e.1 ++ "=" ++ ",".intercalate (e.2.map toString))
  "files:" ++ encList "," (entries.toArray.qsort (· < ·)).toList

def curLog : Text := "cur.log".toList

/-- `rolls` times: write the roll number into `cur.log`, then `FixedWindowRoller::roll` -/
def runRolls (name : Nat → Text) (base count : Nat) : Nat → Nat → Roller.Disk → Option Roller.Disk
  | 0, _, d => some d
  | r + 1, k, d =>
    let d := d.set curLog [k]
    match (Roller.fixedWindowRoll { nameOf := name, base, count } curLog (fun _ => false) d).1 with
    | .ok d' => runRolls name base count r (k + 1) d'
    | .error _ => none

def outText : Outcome Unit Text → Option Text
  | .ok t => some t
  | _ => none

/-! ### rolling history (kinds `rolling`, `rolling-cfg`) -/

def archName (i : Nat) : Text := "r.".toList ++ Log4rs.Str.decimal i ++ ".log".toList

def renderStep (d : Roller.Disk) (openAt : Option Text) : String :=
  let entries := d.files.map (fun e =>
    encStr e.1 ++ "=" ++ (if e.2.isEmpty then "_" else String.ofList (e.2.map Char.ofNat)))
  encList "," (entries.toArray.qsort (· < ·)).toList ++ ";open=" ++ (match openAt with
    | some p => encStr p
    | none => "-")

structure Hist where
  disk : Roller.Disk
  writerOpen : Bool
  len : Nat
  steps : List String

/-- one `append` of the record whose text is the digit `k % 10`, every file-system use at `loc` -/
def histAppend (loc : Text) (fw : Bool) (h : Hist) (k : Nat) : Hist :=
  -- get_writer: reopen in append mode after a roll
  let (disk, len) := if h.writerOpen then (h.disk, h.len) else
    match h.disk.get? loc with
    | some c => (h.disk, c.length)
    | none => (h.disk.set loc [], 0)
  let content := (disk.get? loc).getD []
  let disk := disk.set loc (content ++ [48 + k % 10])
  let len := len + 1
  -- SizeTrigger(2): `len > limit`
  if len > 2 then
    let disk := if fw then
        match (Roller.fixedWindowRoll { nameOf := archName, base := 0, count := 2 } loc (fun _ => false) disk).1 with
        | .ok d => d
        | .error _ => disk
      else disk.erase loc
    { disk, writerOpen := false, len := 0, steps := h.steps ++ [renderStep disk none] }
  else { disk, writerOpen := true, len, steps := h.steps ++ [renderStep disk (some loc)] }

def simRolling (loc : Text) (fw : Bool) (appends : Nat) : List String :=
  let d0 := Roller.Disk.empty.set loc []
  let h0 : Hist := { disk := d0, writerOpen := true, len := 0, steps := [renderStep d0 (some loc)] }
  ((List.range appends).foldl (histAppend loc fw) h0).steps

def renderHist (steps : List String) : String := "hist:" ++ "|".intercalate steps

def knownEnv (env : Env) : Bool := env.all (fun e => known e.1 && known e.2)

def rollingCase (kind : String) (os : OsEnv) (env : Env) (p : Text) (fw : Bool) (appends : Nat)
    (implObs : String) : Answer :=
  match siteOf kind 0 with
  | some site =>
    let m := location alnum env site p
    let s := specLocation alnum env site p
    if !(nicePath s && (outText m).all nicePath) then badCase "path not file-system friendly" else
    let constructs := expand_unfixed alnum env p ≠ .ok s
    let tags := tagsOf kind env p constructs ++ envTags os p
      ++ [if fw then "fixed-window" else "delete"] ++ (if appends ≥ 6 then ["two-rolls"] else [])
    let wantSteps := simRolling s fw appends
    let want := renderHist wantSteps
    -- the history agrees until the first roll (after the third append) and differs afterwards
    let implSteps := splitOnChar '|' ((implObs.drop 5).toString)
    let untilRoll := implSteps.take 3 = wantSteps.take 3 && appends ≥ 3 && s ≠ p
    { model := match m with
        | .ok t => renderHist (simRolling t fw appends)
        | _ => "PANIC",
      spec := if implObs = want then "ok" else
        "FAIL:rolling history expected " ++ want ++ ";sig=" ++
          (if implObs ≠ "PANIC" && untilRoll then "C19/location-not-stable-across-rolls"
           else failSig implObs (foreign os) true (reexpands env p) constructs),
      tags }
  | none => badCase "kind"

def handle : Handler := fun cas obs =>
  match cas, obs with
  | [kind, envS, pathS], [implObs] =>
    match decEnv envS, decStr pathS with
    | some (os, env), some p =>
      if !(known p && knownEnv env) then badCase "character outside the classified samples" else
      if kind = "rolling" || kind = "rolling-cfg" then rollingCase kind os env p true 8 implObs else
      let s := specExpand alnum env p
      let constructs := expand_unfixed alnum env p ≠ .ok s
      let tags := tagsOf kind env p constructs ++ envTags os p
      if kind = "hook" then
        let want := "ok:" ++ encStr s
        { model := renderOut (expandOs alnum os p),
          spec := if implObs = want then "ok" else "FAIL:expansion expected " ++ want ++ ";sig=" ++ failSig implObs (foreign os) false false constructs,
          tags }
      else match siteOf kind 0 with
      | some site =>
        if kind = "roller" || kind = "roller-cfg" then badCase "arity" else
        let m := location alnum env site p
        let s := specLocation alnum env site p
        if !(nicePath s && (outText m).all nicePath) then badCase "path not file-system friendly" else
        let want := "created:" ++ encStr s
        { model := match m with
            | .ok t => "created:" ++ encStr t
            | _ => "PANIC",
          spec := if implObs = want then "ok" else "FAIL:file location expected " ++ want ++ ";sig=" ++ failSig implObs (foreign os) true (reexpands env p) constructs,
          tags }
      | none => badCase "kind"
    | _, _ => badCase "decode"
  | [kind, envS, pathS, rollerS, appendsS], [implObs] =>
    if kind ≠ "rolling" && kind ≠ "rolling-cfg" then badCase "kind" else
    match decEnv envS, decStr pathS, decNat appendsS with
    | some (os, env), some p, some appends =>
      if !(known p && knownEnv env) then badCase "character outside the classified samples" else
      if rollerS ≠ "fw" && rollerS ≠ "del" then badCase "roller" else
      if appends > 10 then badCase "appends" else
      rollingCase kind os env p (rollerS = "fw") appends implObs
    | _, _, _ => badCase "decode"
  | [kind, envS, patS, baseS, countS, rollsS], [implObs] =>
    if kind ≠ "roller" && kind ≠ "roller-cfg" then badCase "kind" else
    match decEnv envS, decStr patS, decNat baseS, decNat countS, decNat rollsS with
    | some (os, env), some pat, some base, some count, some rolls =>
      if !(known pat && knownEnv env) then badCase "character outside the classified samples" else
      let idxs := (List.range (count + 1)).map (· + base)
      let site := fun i => (siteOf kind i).getD (.rollerBuilder i)
      let mName := fun i => (outText (location alnum env (site i) pat)).getD []
      let sName := fun i => specLocation alnum env (site i) pat
      if !(idxs.all (fun i => nicePath (mName i) && nicePath (sName i))) then badCase "path not file-system friendly" else
      let constructs := idxs.any (fun i => expand_unfixed alnum env (slotText pat i) ≠ .ok (sName i))
      let nonIdem := idxs.any (fun i => reexpands env (slotText pat i))
      let tags := tagsOf kind env (slotText pat base) constructs ++ envTags os (slotText pat base)
      let tags := if nonIdem && !tags.contains "non-idempotent" then tags ++ ["non-idempotent"] else tags
      match runRolls mName base count rolls 0 Roller.Disk.empty, runRolls sName base count rolls 0 Roller.Disk.empty with
      | some dm, some ds =>
        let want := renderDisk ds
        { model := renderDisk dm,
          spec := if implObs = want then "ok" else "FAIL:archive locations expected " ++ want ++ ";sig=" ++ failSig implObs (foreign os) true nonIdem constructs,
          tags }
      | _, _ => badCase "roll"
    | _, _, _, _, _ => badCase "decode"
  | _, _ => badCase "arity"

end Driver.C19
