import Driver.Common
namespace Driver.C02
open Driver

def handle : Handler := fun _ _ => badCase "unimplemented"

end Driver.C02
