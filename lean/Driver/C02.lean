import Driver.Common
import Driver.C01
import Log4rsModel.Routing.Spec
/-
C02 case:   initPath  targets(,)  first configuration (4 fields as C01: appenders rootLevel rootRefs loggers)
            then 5 fields per further step:  kind  + the 4 configuration fields, kind =
              set                                  Handle::set_config
              reinit-config | reinit-handler | reinit-raw | reinit-file   a further init_* call (must return Err)
observation: steps joined by `/`, per step:  max_level : enabled bits (targets × levels 1..5) : macro deliveries (, per target × level)
             a re-initialisation step is prefixed `E!` (the call returned Err) or `K!` (it returned Ok)
-/
namespace Driver.C02
open Log4rs.Proto Log4rs.Routing Log4rs.Routing.Tree Driver

def decPath (s : String) : Option InitPath :=
  match s with
  | "config" => some .config
  | "handler" => some .configWithErrHandler
  | "raw" => some .rawConfig
  | "file" => some .file
  | _ => none

def decSteps : List String → Option (List Step)
  | [] => some []
  | k :: a :: l :: r :: ls :: rest =>
    match C01.decConfig a l r ls, decSteps rest with
    | some c, some ss =>
      if k = "set" then some (.setConfig c :: ss)
      else if k.startsWith "reinit-" then
        (decPath (k.drop 7).toString).map fun p => .reinit p c :: ss
      else none
    | _, _ => none
  | _ => none

def levels : List Nat := [1, 2, 3, 4, 5]

def probesOf (targets : List Name) : List (Name × Nat) :=
  targets.flatMap fun t => levels.map fun l => (t, l)

def renderStep (max : Nat) (bits : List Bool) (deliv : List (List Name)) : String :=
  toString max ++ ":" ++ String.join (bits.map encBool) ++ ":" ++ C01.renderDeliveries deliv

def modelStep (s : State) (targets : List Name) : String :=
  let ps := probesOf targets
  match mapM? (fun p => enabled s.cfg p.1 p.2) ps, mapM? (fun p => macroLog s p.1 p.2) ps with
  | some bits, some deliv => renderStep s.globalMax bits deliv
  | _, _ => "PANIC"

def specStep (cfg : Config) (targets : List Name) : String :=
  let ps := probesOf targets
  renderStep (specMaxLevel cfg) (ps.map fun p => specEnabled cfg p.1 p.2) (ps.map fun p => specDeliver cfg p.1 p.2)

def reinitMark (ok : Bool) : String := if ok then "K!" else "E!"

def isReinit : Step → Bool
  | .reinit _ _ => true
  | .setConfig _ => false

def stepCfg : Step → Config
  | .reinit _ c => c
  | .setConfig c => c

/-- the configuration in force after each step, as the statement has it: a failed attempt installs nothing -/
def inForce : Config → List Step → List Config
  | _, [] => []
  | _, .setConfig c :: rest => c :: inForce c rest
  | cur, .reinit _ _ :: rest => cur :: inForce cur rest

/-- only a strict descendant is as verbose as the global maximum -/
def deepVerbose (cfg : Config) : Bool :=
  cfg.rootLevel < specMaxLevel cfg &&
  cfg.loggers.all fun l => l.level < specMaxLevel cfg || (parent cfg l).isSome

def stepTags (cfgs : List Config) : List String :=
  let maxes := cfgs.map specMaxLevel
  let pairs := maxes.zip (maxes.drop 1)
  (if pairs.any (fun (a, b) => a < b) then ["max-up"] else []) ++
  (if pairs.any (fun (a, b) => b < a) then ["max-down"] else []) ++
  (if cfgs.any deepVerbose then ["deep-verbose-only"] else []) ++
  (if cfgs.any (fun c => c.rootLevel < specMaxLevel c) then ["descendant-more-verbose"] else []) ++
  (if cfgs.any (fun c => specMaxLevel c = 0) then ["all-off"] else []) ++
  (if cfgs.any C01.hasImplied then ["implied-intermediate"] else [])

def reinitTags (first : Config) (steps : List Step) : List String :=
  let force := first :: inForce first steps
  let pairs := steps.zip force          -- (step, configuration in force before it)
  let re := pairs.filter fun p => isReinit p.1
  (if re.isEmpty then [] else ["failed-reinit"]) ++
  (if re.any (fun p => validB (stepCfg p.1) && specMaxLevel (stepCfg p.1) < specMaxLevel p.2) then ["reinit-quieter"] else []) ++
  (if re.any (fun p => validB (stepCfg p.1) && specMaxLevel p.2 < specMaxLevel (stepCfg p.1)) then ["reinit-louder"] else []) ++
  (if re.any (fun p => !validB (stepCfg p.1)) then ["reinit-invalid"] else []) ++
  (if re.any (fun p => match p.1 with | .reinit .config _ => true | _ => false) then ["reinit:init_config"] else []) ++
  (if re.any (fun p => match p.1 with | .reinit .configWithErrHandler _ => true | _ => false) then ["reinit:init_config_with_err_handler"] else []) ++
  (if re.any (fun p => match p.1 with | .reinit .rawConfig _ => true | _ => false) then ["reinit:init_raw_config"] else []) ++
  (if re.any (fun p => match p.1 with | .reinit .file _ => true | _ => false) then ["reinit:init_file"] else []) ++
  (if ((steps.dropWhile isReinit).any fun s => !isReinit s) && (steps.head?.map isReinit).getD false
    then ["reinit-before-set"] else []) ++
  (if ((steps.dropWhile fun s => !isReinit s).any fun s => !isReinit s) then ["reinit-between-sets"] else []) ++
  (if steps.any (fun s => !isReinit s) then ["reconfig"] else ["no-reconfig"])

def handle : Handler := fun cas obs =>
  match cas, obs with
  | path :: targets :: a :: l :: r :: ls :: stepFields, [obsLine] =>
    let obs := splitOnChar '/' obsLine
    match decPath path, C01.decNames ',' targets, C01.decConfig a l r ls, decSteps stepFields with
    | some path, some targets, some first, some steps =>
      -- the model: state after the first initialisation and after every further step
      let states := (List.range (steps.length + 1)).map fun i =>
        run { path, first, steps := steps.take i }
      let marks := "" :: steps.map fun s => if isReinit s then reinitMark reinitReturnsOk else ""
      let model := (states.zip marks).map fun (st, m) =>
        match st with
        | some s => m ++ modelStep s targets
        | none => "PANIC"
      -- the statement, evaluated on the implementation's observation
      let force := first :: inForce first steps
      let specs := (force.zip marks).map fun (c, m) => m ++ specStep c targets
      let reinitAt := false :: steps.map isReinit
      let installed := first :: steps.filterMap fun
        | .setConfig c => some c
        | .reinit _ _ => none
      let verdict :=
        if !installed.all validB then "FAIL:generator produced an invalid configuration to install;sig=C02/invalid-config"
        else if obs = specs then "ok"
        else
          let idx := ((obs.zip specs).takeWhile (fun (a, b) => a = b)).length
          let o := obs.getD idx "?"
          let s := specs.getD idx "?"
          let strip := fun (x : String) => if x.startsWith "E!" || x.startsWith "K!" then (x.drop 2).toString else x
          let part :=
            if o.startsWith "K!" then "returned-ok" else
            match splitOnChar ':' (strip o), splitOnChar ':' (strip s) with
            | [om, ob, _], [sm, sb, _] =>
              if om ≠ sm then "max-level" else if ob ≠ sb then "enabled" else "macro-delivery"
            | _, _ => "shape"
          let sig :=
            if reinitAt.getD idx false then
              (if part = "max-level" || part = "macro-delivery" then "C02/failed-reinit-changes-max-level"
               else "C02/failed-reinit-" ++ part)
            else "C02/" ++ part
          "FAIL:step " ++ toString idx ++ " " ++ part ++ " expected " ++ (s.take 80).toString ++ " got " ++
            (o.take 80).toString ++ ";sig=" ++ sig
      { model := "/".intercalate model, spec := verdict,
        tags := (match path with
          | .config => "init_config" | .configWithErrHandler => "init_config_with_err_handler"
          | .rawConfig => "init_raw_config" | .file => "init_file") :: (stepTags force ++ reinitTags first steps) }
    | _, _, _, _ => badCase "decode"
  | _, _ => badCase "arity"

end Driver.C02
