import Driver.Common
import Driver.C01
import Log4rsModel.Routing.Spec
/-
C02 case:   initPath  targets(,)  then 4 fields per configuration (as C01): appenders rootLevel rootRefs loggers
            — the first configuration is installed by the init path, the others by Handle::set_config
observation: steps joined by `/`, per step:  max_level : enabled bits (targets × levels 1..5) : macro deliveries (, per target × level)
-/
namespace Driver.C02
open Log4rs.Proto Log4rs.Routing Log4rs.Routing.Tree Driver

def decPath (s : String) : Option InitPath :=
  match s with
  | "config" => some .config
  | "handler" => some .configWithErrHandler
  | "raw" => some .rawConfig
  | "file" => some .file
  | _ => none

def decConfigs : List String → Option (List Config)
  | [] => some []
  | a :: l :: r :: ls :: rest =>
    match C01.decConfig a l r ls, decConfigs rest with
    | some c, some cs => some (c :: cs)
    | _, _ => none
  | _ => none

def levels : List Nat := [1, 2, 3, 4, 5]

def probesOf (targets : List Name) : List (Name × Nat) :=
  targets.flatMap fun t => levels.map fun l => (t, l)

def renderStep (max : Nat) (bits : List Bool) (deliv : List (List Name)) : String :=
  toString max ++ ":" ++ String.join (bits.map encBool) ++ ":" ++ C01.renderDeliveries deliv

def modelStep (s : State) (targets : List Name) : String :=
  let ps := probesOf targets
  match mapM? (fun p => enabled s.cfg p.1 p.2) ps, mapM? (fun p => macroLog s p.1 p.2) ps with
  | some bits, some deliv => renderStep s.globalMax bits deliv
  | _, _ => "PANIC"

def specStep (cfg : Config) (targets : List Name) : String :=
  let ps := probesOf targets
  renderStep (specMaxLevel cfg) (ps.map fun p => specEnabled cfg p.1 p.2) (ps.map fun p => specDeliver cfg p.1 p.2)

/-- only a strict descendant is as verbose as the global maximum -/
def deepVerbose (cfg : Config) : Bool :=
  cfg.rootLevel < specMaxLevel cfg &&
  cfg.loggers.all fun l => l.level < specMaxLevel cfg || (parent cfg l).isSome

def stepTags (cfgs : List Config) : List String :=
  let maxes := cfgs.map specMaxLevel
  let pairs := maxes.zip (maxes.drop 1)
  (if pairs.any (fun (a, b) => a < b) then ["max-up"] else []) ++
  (if pairs.any (fun (a, b) => b < a) then ["max-down"] else []) ++
  (if cfgs.any deepVerbose then ["deep-verbose-only"] else []) ++
  (if cfgs.any (fun c => c.rootLevel < specMaxLevel c) then ["descendant-more-verbose"] else []) ++
  (if cfgs.any (fun c => specMaxLevel c = 0) then ["all-off"] else []) ++
  (if cfgs.any C01.hasImplied then ["implied-intermediate"] else []) ++
  (if cfgs.length = 1 then ["no-reconfig"] else ["reconfig"])

def handle : Handler := fun cas obs =>
  match cas, obs with
  | path :: targets :: cfgFields, [obsLine] =>
    let obs := splitOnChar '/' obsLine
    match decPath path, C01.decNames ',' targets, decConfigs cfgFields with
    | some path, some targets, some (first :: reconfigs) =>
      let cfgs := first :: reconfigs
      let steps := (List.range cfgs.length).map fun i =>
        match run { path, first, reconfigs := reconfigs.take i } with
        | some s => modelStep s targets
        | none => "PANIC"
      let specs := cfgs.map fun c => specStep c targets
      let verdict :=
        if !cfgs.all validB then "FAIL:generator produced an invalid configuration;sig=C02/invalid-config"
        else if obs = specs then "ok"
        else
          let idx := ((obs.zip specs).takeWhile (fun (a, b) => a = b)).length
          let o := obs.getD idx "?"
          let s := specs.getD idx "?"
          let part :=
            match splitOnChar ':' o, splitOnChar ':' s with
            | [om, ob, _], [sm, sb, _] =>
              if om ≠ sm then "max-level" else if ob ≠ sb then "enabled" else "macro-delivery"
            | _, _ => "shape"
          "FAIL:step " ++ toString idx ++ " " ++ part ++ " expected " ++ (s.take 80).toString ++ " got " ++
            (o.take 80).toString ++ ";sig=C02/" ++ part
      { model := "/".intercalate steps, spec := verdict,
        tags := (match path with
          | .config => "init_config" | .configWithErrHandler => "init_config_with_err_handler"
          | .rawConfig => "init_raw_config" | .file => "init_file") :: stepTags cfgs }
    | _, _, _ => badCase "decode"
  | _, _ => badCase "arity"

end Driver.C02
