import Driver.Common
import Driver.C01
import Log4rsModel.Routing.Spec
/-
C02 case:   initPath  targets(,)  first configuration (4 fields as C01: appenders rootLevel rootRefs loggers)
            then 5 fields per further step:  kind  + the 4 configuration fields, kind =
              set | set@0 | set@1 | set@2          Handle::set_config through clone number k of the handle
                                                   (0 = the handle init returned, 1 = a clone taken at init,
                                                   2 = a clone taken at first use and moved to a worker thread)
              reload                               the file reloader (`ConfigReloader::run_once`) applies a rewritten file
              reinit-config | reinit-handler | reinit-raw | reinit-file   a further init_* call (must return Err)
            initPath = config | handler | raw | file, optionally followed by `@` + json|yaml|toml + flag letters
              O (defaults omitted from the document where the configuration has the default) and
              U (upper-case level spellings) — how `raw` / `file` documents are rendered; same meaning.
            inside a name, the token `^n` stands for the n-component name `a::a::…::a` (deep-name class).
observation: `ABORT` (the child process was killed by a signal), or the steps joined by `/`, per step:
             max_level : reported max_log_level() : enabled bits (targets × levels 1..5) : macro deliveries (, per target × level)
             a re-initialisation step is prefixed `E!` (the call returned Err) or `K!` (it returned Ok)
-/
namespace Driver.C02
open Log4rs.Proto Log4rs.Routing Log4rs.Routing.Tree Driver

def decPath (s : String) : Option InitPath :=
  match s with
  | "config" => some .config
  | "handler" => some .configWithErrHandler
  | "raw" => some .rawConfig
  | "file" => some .file
  | _ => none

/-- the rendering suffix of the init path: (format, flags) -/
def decRender (s : String) : Option (String × List Char) :=
  let fmt := (s.take 4).toString
  let flags := (s.drop 4).toString.toList
  if (fmt = "json" || fmt = "yaml" || fmt = "toml") && flags.all (fun c => c = 'O' || c = 'U') then some (fmt, flags)
  else none

def decPathField (s : String) : Option (InitPath × Option (String × List Char)) :=
  match splitOnChar '@' s with
  | [p] => (decPath p).map fun p => (p, none)
  | [p, r] =>
    match decPath p, decRender r with
    | some p, some r => some (p, some r)
    | _, _ => none
  | _ => none

/-- hex spelling of the n-component name `a::a::…::a` -/
def deepHex (n : Nat) : String :=
  "61" ++ String.join (List.replicate (n - 1) ".3a.3a.61")

/-- expand every `^n` token of a field -/
def expandDeep (s : String) : Option String :=
  match s.splitOn "^" with
  | [] => some s
  | first :: rest =>
    (mapM? (fun (piece : String) =>
      let digits := (piece.takeWhile Char.isDigit).toString
      match digits.toNat? with
      | some n => if n = 0 then none else some (deepHex n ++ (piece.drop digits.length).toString)
      | none => none) rest).map fun ps => first ++ String.join ps

def decCfg (a l r ls : String) : Option Config :=
  match expandDeep ls with
  | some ls => C01.decConfig a l r ls
  | none => none

/-- step kinds with the handle index of a `set` -/
def decSteps : List String → Option (List (Step × Nat))
  | [] => some []
  | k :: a :: l :: r :: ls :: rest =>
    match decCfg a l r ls, decSteps rest with
    | some c, some ss =>
      if k = "set" || k = "set@0" then some ((.setConfig c, 0) :: ss)
      else if k = "set@1" then some ((.setConfig c, 1) :: ss)
      else if k = "set@2" then some ((.setConfig c, 2) :: ss)
      else if k = "reload" then some ((.reload c, 0) :: ss)
      else if k.startsWith "reinit-" then
        (decPath (k.drop 7).toString).map fun p => (.reinit p c, 0) :: ss
      else none
    | _, _ => none
  | _ => none

def levels : List Nat := [1, 2, 3, 4, 5]

def probesOf (targets : List Name) : List (Name × Nat) :=
  targets.flatMap fun t => levels.map fun l => (t, l)

def renderStep (max reported : Nat) (bits : List Bool) (deliv : List (List Name)) : String :=
  toString max ++ ":" ++ toString reported ++ ":" ++ String.join (bits.map encBool) ++ ":" ++ C01.renderDeliveries deliv

def modelStep (s : State) (targets : List Name) : String :=
  let ps := probesOf targets
  match maxLogLevel s.cfg, mapM? (fun p => enabled s.cfg p.1 p.2) ps, mapM? (fun p => macroLog s p.1 p.2) ps with
  | some reported, some bits, some deliv => renderStep s.globalMax reported bits deliv
  | _, _, _ => "PANIC"

def specStep (cfg : Config) (targets : List Name) : String :=
  let ps := probesOf targets
  renderStep (specMaxLevel cfg) (specMaxLevel cfg) (ps.map fun p => specEnabled cfg p.1 p.2)
    (ps.map fun p => specDeliver cfg p.1 p.2)

def reinitMark (ok : Bool) : String := if ok then "K!" else "E!"

def isReinit : Step → Bool
  | .reinit _ _ => true
  | _ => false

def isReload : Step → Bool
  | .reload _ => true
  | _ => false

def isSet : Step → Bool
  | .setConfig _ => true
  | _ => false

def stepCfg : Step → Config
  | .reinit _ c => c
  | .setConfig c => c
  | .reload c => c

/-- the configuration in force after each step, as the statement has it: a failed attempt installs nothing -/
def inForce : Config → List Step → List Config
  | _, [] => []
  | cur, st :: rest =>
    match st.installs with
    | some c => c :: inForce c rest
    | none => cur :: inForce cur rest

/-- only a strict descendant is as verbose as the global maximum -/
def deepVerbose (cfg : Config) : Bool :=
  cfg.rootLevel < specMaxLevel cfg &&
  cfg.loggers.all fun l => l.level < specMaxLevel cfg || (parent cfg l).isSome

def nComps (l : LoggerCfg) : Nat := (comps l.name).length

def maxDepth (cfg : Config) : Nat := (cfg.loggers.map nComps).foldl max 0

/-- every logger as verbose as the maximum has the greatest number of components, and the root is quieter -/
def deepestIsLoudest (cfg : Config) : Bool :=
  cfg.rootLevel < specMaxLevel cfg &&
  cfg.loggers.all fun l => l.level < specMaxLevel cfg || nComps l = maxDepth cfg

def stepTags (cfgs : List Config) : List String :=
  let maxes := cfgs.map specMaxLevel
  let pairs := maxes.zip (maxes.drop 1)
  let triples := pairs.zip (maxes.drop 2)
  let d := (cfgs.map maxDepth).foldl max 0
  let n := (cfgs.map (·.loggers.length)).foldl max 0
  (if pairs.any (fun (a, b) => a < b) then ["max-up"] else []) ++
  (if pairs.any (fun (a, b) => b < a) then ["max-down"] else []) ++
  (if triples.any (fun ((a, b), c) => a ≠ b && a = c) then ["max-returns-to-earlier"] else []) ++
  -- (the two tags that walk every prefix of every name are not computed for the deep-name class: quadratic)
  (if d < 100 && cfgs.any deepVerbose then ["deep-verbose-only"] else []) ++
  (if cfgs.any (fun c => c.rootLevel < specMaxLevel c) then ["descendant-more-verbose"] else []) ++
  (if cfgs.any (fun c => c.loggers.all (fun l => l.level < c.rootLevel)) then ["root-alone-is-max"] else []) ++
  (if cfgs.any (fun c => specMaxLevel c = 0) then ["all-off"] else []) ++
  (if d < 100 && cfgs.any C01.hasImplied then ["implied-intermediate"] else []) ++
  (if d ≥ 1000 then ["deep-name>=1000"] else if d ≥ 64 then ["depth>=64"] else if d ≥ 7 then ["depth>=7"]
   else if d ≥ 5 then ["depth>=5"] else []) ++
  (if n ≥ 50 then ["loggers>=50"] else if n ≥ 10 then ["loggers>=10"] else []) ++
  (if cfgs.any (fun c => maxDepth c ≥ 5 && deepestIsLoudest c) then ["deepest-is-loudest"] else [])

def reinitTags (first : Config) (steps : List Step) : List String :=
  let force := first :: inForce first steps
  let pairs := steps.zip force          -- (step, configuration in force before it)
  let re := pairs.filter fun p => isReinit p.1
  (if re.isEmpty then [] else ["failed-reinit"]) ++
  (if re.any (fun p => validB (stepCfg p.1) && specMaxLevel (stepCfg p.1) < specMaxLevel p.2) then ["reinit-quieter"] else []) ++
  (if re.any (fun p => validB (stepCfg p.1) && specMaxLevel p.2 < specMaxLevel (stepCfg p.1)) then ["reinit-louder"] else []) ++
  (if re.any (fun p => !validB (stepCfg p.1)) then ["reinit-invalid"] else []) ++
  (if re.any (fun p => match p.1 with | .reinit .config _ => true | _ => false) then ["reinit:init_config"] else []) ++
  (if re.any (fun p => match p.1 with | .reinit .configWithErrHandler _ => true | _ => false) then ["reinit:init_config_with_err_handler"] else []) ++
  (if re.any (fun p => match p.1 with | .reinit .rawConfig _ => true | _ => false) then ["reinit:init_raw_config"] else []) ++
  (if re.any (fun p => match p.1 with | .reinit .file _ => true | _ => false) then ["reinit:init_file"] else []) ++
  (if ((steps.dropWhile isReinit).any fun s => !isReinit s) && (steps.head?.map isReinit).getD false
    then ["reinit-before-set"] else []) ++
  (if ((steps.dropWhile fun s => !isReinit s).any fun s => !isReinit s) then ["reinit-between-sets"] else []) ++
  (if steps.any isSet then ["reconfig"] else if steps.any isReload then [] else ["no-reconfig"]) ++
  (if steps.any isReload then ["reload"] else []) ++
  (if pairs.any (fun p => isReload p.1 && specMaxLevel p.2 < specMaxLevel (stepCfg p.1)) then ["reload-max-up"] else []) ++
  (if pairs.any (fun p => isReload p.1 && specMaxLevel (stepCfg p.1) < specMaxLevel p.2) then ["reload-max-down"] else []) ++
  (if pairs.any (fun p => isReload p.1 && maxDepth (stepCfg p.1) < 100 && deepVerbose (stepCfg p.1)) then ["reload-deep-verbose-only"] else []) ++
  (if steps.any isReload && steps.any isSet then ["reload-and-set"] else [])

def handleTags (hs : List (Step × Nat)) : List String :=
  let sets := (hs.filter fun p => isSet p.1).map (·.2)
  (if sets.contains 1 then ["handle:clone-at-init"] else []) ++
  (if sets.contains 2 then ["handle:clone-on-worker-thread"] else []) ++
  (if (sets.zip (sets.drop 1)).any (fun (a, b) => a ≠ b) then ["handle-alternation"] else []) ++
  -- the shape X … Y … X with the maximum going M, M', M: handle X is asked to install a maximum it installed before
  (let ms := hs.filterMap fun p => if isSet p.1 then some (p.2, specMaxLevel (stepCfg p.1)) else none
   if (ms.zip (ms.drop 1)).zip (ms.drop 2) |>.any (fun ((a, b), c) => a.1 = c.1 && a.1 ≠ b.1 && a.2 = c.2 && a.2 ≠ b.2)
   then ["same-handle-same-max-after-other-handle"] else [])

def handle : Handler := fun cas obs =>
  match cas, obs with
  | path :: targets :: a :: l :: r :: ls :: stepFields, [obsLine] =>
    let obs := splitOnChar '/' obsLine
    match decPathField path, (expandDeep targets).bind (C01.decNames ','), decCfg a l r ls, decSteps stepFields with
    | some (path, render), some targets, some first, some hsteps =>
      let steps := hsteps.map (·.1)
      -- the model: state after the first initialisation and after every further step
      let states := (List.range (steps.length + 1)).map fun i =>
        run { path, first, steps := steps.take i }
      let marks := "" :: steps.map fun s => if isReinit s then reinitMark reinitReturnsOk else ""
      let model := (states.zip marks).map fun (st, m) =>
        match st with
        | some s => m ++ modelStep s targets
        | none => "PANIC"
      -- the statement, evaluated on the implementation's observation
      let force := first :: inForce first steps
      let specs := (force.zip marks).map fun (c, m) => m ++ specStep c targets
      let kindAt := "" :: steps.map fun s => if isReinit s then "reinit" else if isReload s then "reload" else "set"
      let installed := first :: steps.filterMap Step.installs
      let deepest := ((first :: steps.map stepCfg).map maxDepth).foldl max 0
      let verdict :=
        if !installed.all validB then "FAIL:generator produced an invalid configuration to install;sig=C02/invalid-config"
        else if obs = specs then "ok"
        else if obsLine.startsWith "ABORT" then
          "FAIL:the process was killed (" ++ obsLine ++ ") while initialising / reconfiguring / logging with a valid configuration" ++
            (if deepest ≥ 1000 then " whose deepest logger name has " ++ toString deepest ++ " components;sig=C02/deep-logger-name-stack-overflow"
             else ";sig=C02/abort")
        else
          let idx := ((obs.zip specs).takeWhile (fun (a, b) => a = b)).length
          let o := obs.getD idx "?"
          let s := specs.getD idx "?"
          let strip := fun (x : String) => if x.startsWith "E!" || x.startsWith "K!" then (x.drop 2).toString else x
          let part :=
            if o.startsWith "K!" then "returned-ok" else
            match splitOnChar ':' (strip o), splitOnChar ':' (strip s) with
            | [om, orp, ob, _], [sm, srp, sb, _] =>
              if om ≠ sm then "max-level" else if orp ≠ srp then "reported-max" else if ob ≠ sb then "enabled"
              else "macro-delivery"
            | _, _ => "shape"
          let kind := kindAt.getD idx ""
          let sig :=
            if kind = "reinit" then
              (if part = "max-level" || part = "macro-delivery" then "C02/failed-reinit-changes-max-level"
               else "C02/failed-reinit-" ++ part)
            else if kind = "reload" then "C02/reload-" ++ part
            else "C02/" ++ part
          "FAIL:step " ++ toString idx ++ " " ++ part ++ " expected " ++ (s.take 80).toString ++ " got " ++
            (o.take 80).toString ++ ";sig=" ++ sig
      { model := "/".intercalate model, spec := verdict,
        tags := (match path with
          | .config => "init_config" | .configWithErrHandler => "init_config_with_err_handler"
          | .rawConfig => "init_raw_config" | .file => "init_file") ::
          ((match render with
            | some (fmt, flags) => ["fmt:" ++ fmt] ++ (if flags.contains 'O' then ["defaults-omitted"] else []) ++
                (if flags.contains 'U' then ["upper-case-levels"] else [])
            | none => []) ++ stepTags force ++ reinitTags first steps ++ handleTags hsteps) }
    | _, _, _, _ => badCase "decode"
  | _, _ => badCase "arity"

end Driver.C02
