import Driver.Common
import Driver.C09
import Log4rsModel.System.Spec
/-
System slice (hosted in C01; dispatched to from Driver/C01.lean when the first case field is `sys`).
case (after `sys`):  appenders  rootLevel  rootRefs(,)  loggers(, of name;level;additive;refs(|))  thread?  records  snap
   appenders = `|`-joined  name;mode(a|t);pre(-|bytes);thresholds(digits|~);pattern;ast-tokens(,)   (tokens: Driver/C09.lean)
   records   = `|`-joined  target;level;message;module?;file?;line?;mdc(, of key:value | ~)
observation: debug pid tid result   — result = PANIC | INVALID | snapshots (`/`) of per-appender file bytes (`,`, hex)
The three facts are inputs (environment of the encodes) and are echoed in the model's observation.
Model observation: `sysRun` (snap = 0) / `sysTrace` (snap = 1) of System/Model.lean.
Verdict: `specFiles` of System/Spec.lean evaluated on the prefixes of the history, compared with the
IMPLEMENTATION's snapshots.
-/
namespace Driver.Sys
open Log4rs Log4rs.Proto Log4rs.Routing Log4rs.Routing.Tree Log4rs.Pattern Log4rs.Pattern.Parse Log4rs.System Driver

structure AppCase where
  name : Name
  app : SysAppender
  ast : List Pat

def decMode (s : String) : Option Rolling.OpenMode :=
  if s = "a" then some .append else if s = "t" then some .truncate else none

def decThresholds (s : String) : Option (List Nat) :=
  if s = "~" then some [] else
  mapM? (fun c => if '0' ≤ c ∧ c ≤ '5' then some (c.toNat - '0'.toNat) else none) s.toList

def decApp (s : String) : Option AppCase :=
  match splitOnChar ';' s with
  | [n, m, pre, thr, pat, ast] => do
    let name ← decStr n
    let mode ← decMode m
    let pre ← decOpt decBytes pre
    let thresholds ← decThresholds thr
    let pattern ← decStr pat
    let ast ← C09.decAst ast
    pure { name, app := { thresholds, pattern, mode, pre }, ast }
  | _ => none

def decNames (sep : Char) (s : String) : Option (List Name) := mapM? decStr (decList sep s)

def decLogger (s : String) : Option LoggerCfg :=
  match splitOnChar ';' s with
  | [n, l, a, r] =>
    match decStr n, decNat l, decBool a, decNames '|' r with
    | some name, some level, some additive, some appenders => some { name, level, additive, appenders }
    | _, _, _, _ => none
  | _ => none

def decKV (s : String) : Option (List Char × List Char) :=
  match splitOnChar ':' s with
  | [k, v] => do pure ((← decStr k), (← decStr v))
  | _ => none

structure RecCase where
  record : Record
  mdc : List (List Char × List Char)

def decRecord (s : String) : Option RecCase :=
  match splitOnChar ';' s with
  | [t, l, m, mo, fi, li, md] => do
    let target ← decStr t
    let level ← decNat l
    let message ← decStr m
    let module ← decOpt decStr mo
    let file ← decOpt decStr fi
    let line ← decOpt decNat li
    let mdc ← mapM? decKV (decList ',' md)
    if level < 1 || level > 5 then none else
    pure { record := { level, message, target, module, file, line }, mdc }
  | _ => none

structure Facts where
  debug : Bool
  pid : Nat
  tid : Nat

def envOf (f : Facts) (thread : Option (List Char)) (mdc : List (List Char × List Char)) : Env where
  strftimeOk _ := true
  dateText _ _ := []
  threadName := thread
  threadId := f.tid
  pid := f.pid
  mdc := mdc
  debugBuild := f.debug

def lookupApp (apps : List AppCase) (a : Name) : Option AppCase := apps.find? (fun x => x.name = a)

def mkConfig (apps : List AppCase) (routing : Config) : SysConfig where
  routing := routing
  app a := match lookupApp apps a with
    | some x => x.app
    | none => { thresholds := [], pattern := [], mode := .append, pre := none }
  cc := C11.driverClass
  P := C11.profile
  B := { renderOk := fun _ => true }

def astsOf (apps : List AppCase) (a : Name) : List Pat :=
  match lookupApp apps a with
  | some x => x.ast
  | none => []

def renderSnapshot (files : List (Name × Bytes)) : String := ",".intercalate (files.map fun p => encBytes p.2)

def renderOutcomes (os : List (Outcome Unit FilesState)) : String :=
  if os.any (fun o => (observe o).isNone) then "PANIC"
  else "/".intercalate (os.map fun o => match observe o with | some fs => renderSnapshot fs | none => "PANIC")

def nonAscii (s : List Char) : Bool := s.any (fun c => c.toNat ≥ 128)

/-- first index at which two lists differ (or the shorter length) -/
def firstDiff {α} [DecidableEq α] : List α → List α → Nat → Nat
  | a :: as, b :: bs, k => if a = b then firstDiff as bs (k + 1) else k
  | _, _, k => k

def handle : Handler := fun cas obs =>
  match cas, obs with
  | [appsF, rootLevelF, rootRefsF, loggersF, threadF, recordsF, snapF], [implObs] =>
    match mapM? decApp (splitOnChar '|' appsF), decNat rootLevelF, decNames ',' rootRefsF,
        mapM? decLogger (decList ',' loggersF), decOpt decStr threadF,
        mapM? decRecord (splitOnChar '|' recordsF), decBool snapF with
    | some apps, some rootLevel, some rootAppenders, some loggers, some thread, some recs, some snap =>
      match splitOnChar ' ' implObs with
      | [d, p, t, implResult] =>
        match decBool d, decNat p, decNat t with
        | some debug, some pid, some tid =>
          let facts : Facts := { debug, pid, tid }
          let routing : Config := { appenders := apps.map (·.name), rootLevel, rootAppenders, loggers }
          let cfg := mkConfig apps routing
          let asts := astsOf apps
          let rs : List SysRecord := recs.map fun r => { record := r.record, env := envOf facts thread r.mdc }
          if apps.any (fun a => !C11.classifiable a.app.pattern) then badCase "character outside the sample table" else
          if apps.any (fun a => showPats a.ast ≠ a.app.pattern) then badCase "pattern is not the printed AST" else
          let head := d ++ " " ++ p ++ " " ++ t ++ " "
          let valid := validB routing
          let wf := apps.all (fun a => wfPats C11.profile.wordBits false a.ast)
          -- the model
          let model :=
            if !valid then "INVALID"
            else if snap then renderOutcomes (sysTrace cfg rs)
            else renderOutcomes [sysRun cfg rs]
          -- the specification on the implementation's observation
          let prefixes : List (List SysRecord) :=
            if snap then (List.range rs.length).map (fun k => rs.take (k + 1)) else [rs]
          let want : List (List Bytes) := prefixes.map fun pre => (specFiles cfg asts pre).map (·.2)
          let got : Option (List (List Bytes)) :=
            mapM? (fun s => mapM? decBytes (splitOnChar ',' s)) (splitOnChar '/' implResult)
          let spec :=
            if !valid then "FAIL:generator produced an invalid configuration;sig=C01/sys-invalid-config"
            else if !wf then "FAIL:generator produced a pattern outside WF;sig=C01/sys-pattern-outside-wf"
            else if implResult = "PANIC" then "FAIL:the pipeline panicked;sig=C01/sys-panic"
            else if implResult = "INVALID" then "FAIL:the builder refused a valid configuration;sig=C01/sys-builder-refused"
            else match got with
              | none => "FAIL:unreadable observation;sig=C01/sys-observation"
              | some got =>
                if got = want then "ok"
                else if got.length ≠ want.length then "FAIL:number of snapshots;sig=C01/sys-observation"
                else
                  let k := firstDiff got want 0
                  let g := got.getD k []
                  let w := want.getD k []
                  let i := firstDiff g w 0
                  let gl := (g.getD i []).length
                  let wl := (w.getD i []).length
                  "FAIL:file of appender " ++ toString i ++ " after " ++
                    (if snap then "record " ++ toString k else "the history") ++ " holds " ++ toString gl ++
                    " bytes, the specification says " ++ toString wl ++
                    (if gl = wl then " (same length, other content)" else "") ++ ";sig=C01/sys-files"
          -- coverage tags
          let attachedBy (a : Name) : Nat :=
            (if routing.rootAppenders.contains a then 1 else 0) +
              (routing.loggers.filter fun l => l.appenders.contains a).length
          let copies := apps.map fun a => rs.map fun r => specCopies cfg a.name r
          let onChain (a : Name) (r : SysRecord) : Bool :=
            admits (specLevel routing r.target) r.level &&
              (chain routing (comps r.target).length (effective routing r.target)).contains a
          let delivered := copies.any fun cs => cs.any (· > 0)
          let thrRejects := apps.any fun a => rs.any fun r => onChain a.name r && !specAccepts a.app.thresholds r.level
          let bigLine := apps.any fun a => rs.any fun r =>
            specCopies cfg a.name r > 0 && (specLine asts a.name r).length ≥ 1024
          let tags := ["sys"] ++
            (if apps.any (fun a => attachedBy a.name ≥ 2) then ["shared-appender"] else []) ++
            (if copies.any (fun cs => cs.any (· ≥ 2)) then ["double-attachment"] else []) ++
            (if thrRejects then ["threshold-rejects"] else []) ++
            (if rs.any (fun r => !admits (specLevel routing r.target) r.level) then ["logger-rejects"] else []) ++
            (if apps.any (fun a => a.app.mode == .truncate && (a.app.pre.getD []).length > 0) then ["truncate-pre"] else []) ++
            (if apps.any (fun a => a.app.mode == .append && (a.app.pre.getD []).length > 0) then ["append-pre"] else []) ++
            (if bigLine then ["big-record"] else []) ++
            (if rs.any (fun r => (apps.filter fun a => specCopies cfg a.name r > 0).length ≥ 2) then ["record-in-several-files"] else []) ++
            (if routing.loggers.any (fun l => !l.additive && routing.rootAppenders.any (l.appenders.contains ·))
              then ["root-and-non-additive-child"] else []) ++
            (if rs.any (fun r => nonAscii r.target || nonAscii r.record.message) then ["non-ascii"] else []) ++
            (if rs.any (fun r => routing.loggers.any fun l =>
                Log4rs.Str.isPrefix l.name r.target && !(comps l.name).isPrefixOf (comps r.target))
              then ["textual-prefix-target"] else []) ++
            (if apps.any (fun a => a.app.thresholds.length ≥ 2) then ["several-thresholds"] else []) ++
            (if snap then ["snapshots"] else []) ++
            (if rs.length ≥ 20 then ["long-history"] else []) ++
            (if apps.length ≥ 3 then ["many-appenders"] else []) ++
            (if delivered || thrRejects then [] else ["trivial"])
          { model := head ++ model, spec, tags }
        | _, _, _ => badCase "facts"
      | _ => badCase "observation"
    | _, _, _, _, _, _, _ => badCase "decode"
  | _, _ => badCase "arity"

end Driver.Sys
