import Driver.Common
import Driver.C09
import Log4rsModel.System.Spec
import Log4rsModel.System.ReconfigSpec
import Log4rsModel.Json.Spec
import Log4rsModel.System.RollingSpec
/-
System slice (hosted in C01; dispatched to from Driver/C01.lean when the first case field is `sys`).
case (after `sys`):  appenders  rootLevel  rootRefs(,)  loggers(, of name;level;additive;refs(|))  thread?  records  snap
   appenders = `|`-joined  name;mode(a|t);pre(-|bytes);thresholds(digits|~);pattern;ast-tokens(,)   (tokens: Driver/C09.lean)
   records   = `|`-joined  target;level;message;module?;file?;line?;mdc(, of key:value | ~)
observation: debug pid tid result   — result = PANIC | INVALID | snapshots (`/`) of per-appender file bytes (`,`, hex)
The three facts are inputs (environment of the encodes) and are echoed in the model's observation.
Model observation: `sysRun` (snap = 0) / `sysTrace` (snap = 1) of System/Model.lean.
Verdict: `specFiles` of System/Spec.lean evaluated on the prefixes of the history, compared with the
IMPLEMENTATION's snapshots.
-/
namespace Driver.Sys
open Log4rs Log4rs.Proto Log4rs.Routing Log4rs.Routing.Tree Log4rs.Pattern Log4rs.Pattern.Parse Log4rs.System Driver

structure AppCase where
  name : Name
  app : SysAppender
  ast : List Pat

def decMode (s : String) : Option Rolling.OpenMode :=
  if s = "a" then some .append else if s = "t" then some .truncate else none

def decThresholds (s : String) : Option (List Nat) :=
  if s = "~" then some [] else
  mapM? (fun c => if '0' ≤ c ∧ c ≤ '5' then some (c.toNat - '0'.toNat) else none) s.toList

def activeName : List Char := "active.log".toList
def archPattern : List Char := "arch.{}.log".toList

/-- `R<limit>:d` | `R<limit>:w<base>:<count>` -/
def decRolling (pre : Option Bytes) (s : String) : Option RollSpec :=
  if !s.startsWith "R" then none else
  let dir : Log4rs.Roller.Disk := match pre with | some b => ⟨[(activeName, b)]⟩ | none => ⟨[]⟩
  match splitOnChar ':' (s.drop 1).toString with
  | [l, "d"] => (decNat l).map fun limit => { limit, roller := .delete, active := activeName, dir }
  | [l, b, c] =>
    if !b.startsWith "w" then none else
    match decNat l, decNat (b.drop 1).toString, decNat c with
    | some limit, some base, some count =>
      some { limit, roller := .fixedWindow archPattern base count, active := activeName, dir }
    | _, _, _ => none
  | _ => none

def decApp6 (n m pre thr pat ast : String) : Option AppCase := do
    let name ← decStr n
    let mode ← decMode m
    let pre ← decOpt decBytes pre
    let thresholds ← decThresholds thr
    if pat = "@json" then pure { name, app := { thresholds, pattern := [], mode, pre, kind := .json }, ast := [] } else
    let pattern ← decStr pat
    let ast ← C09.decAst ast
    pure { name, app := { thresholds, pattern, mode, pre }, ast }

def decApp (s : String) : Option AppCase :=
  match splitOnChar ';' s with
  | [n, m, pre, thr, pat, ast] => decApp6 n m pre thr pat ast
  | [n, m, pre, thr, pat, ast, roll] => do
    let a ← decApp6 n m pre thr pat ast
    let rs ← decRolling a.app.pre roll
    pure { a with app := { a.app with rolling := some rs } }
  | _ => none

def decNames (sep : Char) (s : String) : Option (List Name) := mapM? decStr (decList sep s)

def decLogger (s : String) : Option LoggerCfg :=
  match splitOnChar ';' s with
  | [n, l, a, r] =>
    match decStr n, decNat l, decBool a, decNames '|' r with
    | some name, some level, some additive, some appenders => some { name, level, additive, appenders }
    | _, _, _, _ => none
  | _ => none

def decKV (s : String) : Option (List Char × List Char) :=
  match splitOnChar ':' s with
  | [k, v] => do pure ((← decStr k), (← decStr v))
  | _ => none

structure RecCase where
  record : Record
  mdc : List (List Char × List Char)

def decRecord (s : String) : Option RecCase :=
  match splitOnChar ';' s with
  | [t, l, m, mo, fi, li, md] => do
    let target ← decStr t
    let level ← decNat l
    let message ← decStr m
    let module ← decOpt decStr mo
    let file ← decOpt decStr fi
    let line ← decOpt decNat li
    let mdc ← mapM? decKV (decList ',' md)
    if level < 1 || level > 5 then none else
    pure { record := { level, message, target, module, file, line }, mdc }
  | _ => none

structure Facts where
  debug : Bool
  pid : Nat
  tid : Nat

/-- the record's MDC in the iteration order the harness observed (`none`: no such fact, case order) -/
def orderMdc (order : Option (List (List Char))) (mdc : List (List Char × List Char)) : List (List Char × List Char) :=
  match order with
  | none => mdc
  | some ks => ks.filterMap fun k => (mdc.find? (fun kv => kv.1 = k))

def isJson (a : AppCase) : Bool := a.app.kind == .json

def envOf (f : Facts) (thread : Option (List Char)) (mdc : List (List Char × List Char)) : Env where
  strftimeOk _ := true
  -- the harness replaces the JSON `time` value by `T`
  dateText fmt _ := if fmt = jsonTimeKey then ['T'] else []
  threadName := thread
  threadId := f.tid
  pid := f.pid
  mdc := mdc
  debugBuild := f.debug

/-- `k:k:…;k:…;…` — per record the MDC keys in iteration order -/
def decOrders (s : String) : Option (List (List (List Char))) :=
  mapM? (fun r => mapM? decStr (decList ':' r)) (decList ';' s)

def lookupApp (apps : List AppCase) (a : Name) : Option AppCase := apps.find? (fun x => x.name = a)

def mkConfig (apps : List AppCase) (routing : Config) : SysConfig where
  routing := routing
  app a := match lookupApp apps a with
    | some x => x.app
    | none => { thresholds := [], pattern := [], mode := .append, pre := none }
  cc := C11.driverClass
  P := C11.profile
  B := { renderOk := fun _ => true }

def astsOf (apps : List AppCase) (a : Name) : List Pat :=
  match lookupApp apps a with
  | some x => x.ast
  | none => []

def renderDir (d : Log4rs.Roller.Disk) : String :=
  let files := d.files.mergeSort (fun a b => !(String.ofList b.1 < String.ofList a.1))
  "D:" ++ encList ";" (files.map fun f => String.ofList f.1 ++ "=" ++ encBytes f.2)

/-- per appender, in table order: a file appender's bytes, or a rolling appender's directory -/
def renderState (st : FilesState) : String :=
  ",".intercalate (st.apps.map fun p => match p.2.roll with
    | some (_, rst) => renderDir rst.disk
    | none => encBytes p.2.file.disk)

def renderOutcomes (os : List (Outcome Unit FilesState)) : String :=
  if os.any (fun o => (observe o).isNone) then "PANIC"
  else "/".intercalate (os.map fun o => match o with | .ok st => renderState st | _ => "PANIC")

/-- `D:name=bytes;…` of the implementation's observation as a lookup -/
def decDir (s : String) : Option (List (List Char × Bytes)) :=
  if !s.startsWith "D:" then none else
  mapM? (fun e => match splitOnChar '=' e with
    | [n, b] => (decBytes b).map fun bytes => (n.toList, bytes)
    | _ => none) (decList ';' (s.drop 2).toString)

def isRolling (a : AppCase) : Bool := a.app.rolling.isSome

def nonAscii (s : List Char) : Bool := s.any (fun c => c.toNat ≥ 128)

/-- first index at which two lists differ (or the shorter length) -/
def firstDiff {α} [DecidableEq α] : List α → List α → Nat → Nat
  | a :: as, b :: bs, k => if a = b then firstDiff as bs (k + 1) else k
  | _, _, k => k

/-- the lines of a text, each with its terminating `\n` (a last piece without one is a line too) -/
def splitLines (cs : List Char) : List (List Char) :=
  let rec go : List Char → List Char → List (List Char) → List (List Char)
    | [], cur, acc => (if cur.isEmpty then acc else cur.reverse :: acc).reverse
    | c :: rest, cur, acc => if c = '\n' then go rest [] ((c :: cur).reverse :: acc) else go rest (c :: cur) acc
  go cs [] []

instance : BEq AppCase := ⟨fun a b => a.name == b.name⟩

def handle : Handler := fun cas obs =>
  match cas, obs with
  | [appsF, rootLevelF, rootRefsF, loggersF, threadF, recordsF, snapF], [implObs] =>
    match mapM? decApp (splitOnChar '|' appsF), decNat rootLevelF, decNames ',' rootRefsF,
        mapM? decLogger (decList ',' loggersF), decOpt decStr threadF,
        mapM? decRecord (splitOnChar '|' recordsF), decBool snapF with
    | some apps, some rootLevel, some rootAppenders, some loggers, some thread, some recs, some snap =>
      match splitOnChar ' ' implObs with
      | d :: p :: t :: implResult :: ordersF =>
        match decBool d, decNat p, decNat t, mapM? decOrders ordersF with
        | some debug, some pid, some tid, some ordersL =>
          let facts : Facts := { debug, pid, tid }
          let routing : Config := { appenders := apps.map (·.name), rootLevel, rootAppenders, loggers }
          let cfg := mkConfig apps routing
          let asts := astsOf apps
          let orders : Option (List (List (List Char))) := ordersL.head?
          let tail := String.join (ordersF.map (" " ++ ·))
          let rs : List SysRecord := (recs.zipIdx).map fun (r, i) =>
            { record := r.record, env := envOf facts thread (orderMdc (orders.bind (·[i]?)) r.mdc) }
          if ordersF.length > 1 then badCase "observation" else
          if apps.any (fun a => !isJson a && !C11.classifiable a.app.pattern) then badCase "character outside the sample table" else
          if apps.any (fun a => !isJson a && showPats a.ast ≠ a.app.pattern) then badCase "pattern is not the printed AST" else
          if apps.any isJson && orders.isNone && implResult ≠ "PANIC:harness" then badCase "MDC order facts missing" else
          let head := d ++ " " ++ p ++ " " ++ t ++ " "
          let valid := validB routing
          let wf := apps.all (fun a => isJson a || wfB C11.profile a.ast)
          -- the model
          let model :=
            if !valid then "INVALID"
            else if snap then renderOutcomes (sysTrace cfg rs)
            else renderOutcomes [sysRun cfg rs]
          -- the specification on the implementation's observation
          let prefixes : List (List SysRecord) :=
            if snap then (List.range rs.length).map (fun k => rs.take (k + 1)) else [rs]
          let want : List (List Bytes) := prefixes.map fun pre => (specFiles cfg asts pre).map (·.2)
          let want : List (List Bytes) := want.map fun w => (apps.zip w).map fun (a, b) => if isRolling a then [] else b
          let gotRaw : List (List String) := (splitOnChar '/' implResult).map (splitOnChar ',')
          let got : Option (List (List Bytes)) :=
            mapM? (fun (snapshot : List String) => mapM? (fun (e : String) => if e.startsWith "D:" then some [] else decBytes e) snapshot) gotRaw
          -- rolling appenders: the C05 / C06 specification on every snapshot of the directory, for the
          -- stream delivered by the records logged so far
          let rollingVerdict : Option String :=
            (prefixes.zip gotRaw).findSome? fun (pre, snapshot) =>
              (apps.zip snapshot).findSome? fun (a, e) =>
                match a.app.rolling with
                | none => none
                | some rspec =>
                  match decDir e with
                  | none => some "FAIL:rolling appender: unreadable directory snapshot;sig=C01/sys-observation"
                  | some files =>
                    let get : List Char → Option Bytes := fun n => (files.find? (fun f => f.1 = n)).map (·.2)
                    let stream := deliveredStream cfg asts a.name pre
                    if specRollingOk rspec (a.app.mode == .append) stream get then none
                    else some ("FAIL:rolling appender " ++ toString (apps.idxOf a) ++ " after " ++ toString pre.length ++
                      " records: the directory is not the delivered stream minus whole oldest files, or the log file exceeds the limit;sig=C01/sys-rolling")
          -- JSON appenders: every line of the implementation's final file, behind what opening left,
          -- is judged by the C12 specification (`Json.specLine`) for the record it belongs to
          let jsonVerdict : Option String :=
            match got.bind (·.getLast?) with
            | none => none
            | some files =>
              (apps.zip files).findSome? fun (a, content) =>
                if !isJson a || isRolling a then none else
                let pre := Rolling.openContent a.app.mode a.app.pre
                let expected : List SysRecord := rs.flatMap fun r => List.replicate (specCopies cfg a.name r) r
                if content.take pre.length ≠ pre then some "FAIL:JSON appender: the file does not start with what opening left;sig=C01/sys-json-line" else
                match decodeUtf8 (content.drop pre.length) with
                | none => some "FAIL:JSON appender: the file is not UTF-8;sig=C01/sys-json-line"
                | some text =>
                  let lines := splitLines text
                  if lines.length ≠ expected.length then
                    some ("FAIL:JSON appender " ++ toString (apps.idxOf a) ++ ": " ++ toString lines.length ++ " lines for " ++
                      toString expected.length ++ " deliveries;sig=C01/sys-json-line")
                  else (lines.zip expected).findSome? fun (line, r) =>
                    match Log4rs.Json.specLine (jsonEnv r) (jsonRecord r) line with
                    | .ok => none
                    | .fail clause => some ("FAIL:JSON appender: a line violates the C12 specification (" ++ clause ++ ");sig=C01/sys-json-line")
          let spec :=
            if !valid then "FAIL:generator produced an invalid configuration;sig=C01/sys-invalid-config"
            else if !wf then "FAIL:generator produced a pattern outside WF;sig=C01/sys-pattern-outside-wf"
            else if implResult = "PANIC" then "FAIL:the pipeline panicked;sig=C01/sys-panic"
            else if implResult = "INVALID" then "FAIL:the builder refused a valid configuration;sig=C01/sys-builder-refused"
            else match got with
              | none => "FAIL:unreadable observation;sig=C01/sys-observation"
              | some got =>
                if rollingVerdict.isSome then rollingVerdict.getD ""
                else if jsonVerdict.isSome then jsonVerdict.getD ""
                else if got = want then "ok"
                else if got.length ≠ want.length then "FAIL:number of snapshots;sig=C01/sys-observation"
                else
                  let k := firstDiff got want 0
                  let g := got.getD k []
                  let w := want.getD k []
                  let i := firstDiff g w 0
                  let gl := (g.getD i []).length
                  let wl := (w.getD i []).length
                  "FAIL:file of appender " ++ toString i ++ " after " ++
                    (if snap then "record " ++ toString k else "the history") ++ " holds " ++ toString gl ++
                    " bytes, the specification says " ++ toString wl ++
                    (if gl = wl then " (same length, other content)" else "") ++ ";sig=C01/sys-files"
          -- coverage tags
          let attachedBy (a : Name) : Nat :=
            (if routing.rootAppenders.contains a then 1 else 0) +
              (routing.loggers.filter fun l => l.appenders.contains a).length
          let copies := apps.map fun a => rs.map fun r => specCopies cfg a.name r
          let onChain (a : Name) (r : SysRecord) : Bool :=
            admits (specLevel routing r.target) r.level &&
              (chain routing (comps r.target).length (effective routing r.target)).contains a
          let delivered := copies.any fun cs => cs.any (· > 0)
          let thrRejects := apps.any fun a => rs.any fun r => onChain a.name r && !specAccepts a.app.thresholds r.level
          let bigLine := apps.any fun a => rs.any fun r =>
            specCopies cfg a.name r > 0 && (specLine cfg asts a.name r).length ≥ 1024
          let tags := ["sys"] ++
            (if apps.any (fun a => attachedBy a.name ≥ 2) then ["shared-appender"] else []) ++
            (if copies.any (fun cs => cs.any (· ≥ 2)) then ["double-attachment"] else []) ++
            (if thrRejects then ["threshold-rejects"] else []) ++
            (if rs.any (fun r => !admits (specLevel routing r.target) r.level) then ["logger-rejects"] else []) ++
            (if apps.any (fun a => a.app.mode == .truncate && (a.app.pre.getD []).length > 0) then ["truncate-pre"] else []) ++
            (if apps.any (fun a => a.app.mode == .append && (a.app.pre.getD []).length > 0) then ["append-pre"] else []) ++
            (if bigLine then ["big-record"] else []) ++
            (if rs.any (fun r => (apps.filter fun a => specCopies cfg a.name r > 0).length ≥ 2) then ["record-in-several-files"] else []) ++
            (if routing.loggers.any (fun l => !l.additive && routing.rootAppenders.any (l.appenders.contains ·))
              then ["root-and-non-additive-child"] else []) ++
            (if rs.any (fun r => nonAscii r.target || nonAscii r.record.message) then ["non-ascii"] else []) ++
            (if rs.any (fun r => routing.loggers.any fun l =>
                Log4rs.Str.isPrefix l.name r.target && !(comps l.name).isPrefixOf (comps r.target))
              then ["textual-prefix-target"] else []) ++
            (if apps.any (fun a => a.app.thresholds.length ≥ 2) then ["several-thresholds"] else []) ++
            (if snap then ["snapshots"] else []) ++
            (if rs.length ≥ 20 then ["long-history"] else []) ++
            (if apps.length ≥ 3 then ["many-appenders"] else []) ++
            (if delivered || thrRejects then [] else ["trivial"])
          let rotations : Nat := (apps.map fun a => match a.app.rolling with
            | none => 0
            | some rspec =>
              let c := rspec.cfg (a.app.mode == .append)
              ((Rolling.traceX c (Rolling.init c rspec.dir () 0)
                ((deliveredStream cfg asts a.name rs).map fun x => Rolling.XOp.op (.append [x] none))).filter
                  fun e => match e.1 with | some out => out.rolled.isSome | none => false).length).sum
          let tags := tags ++ (if apps.any isJson then ["json-appender"] else []) ++
            (if apps.any isJson && apps.any (fun a => !isJson a) then ["json-and-pattern"] else []) ++
            (if apps.any isRolling then ["rolling-appender", "rotations-" ++ toString (min rotations 7)] else []) ++
            (if apps.any (fun a => isRolling a && rs.any fun r => specCopies cfg a.name r ≥ 2) then ["rolling-double-attachment"] else []) ++
            (if apps.any (fun a => match a.app.rolling with | some r => (match r.roller with | .delete => true | _ => false) | none => false)
              then ["delete-roller"] else []) ++
            (if apps.any (fun a => match a.app.rolling with | some r => (match r.roller with | .fixedWindow _ _ c => c == 0 | _ => false) | none => false)
              then ["window-0"] else []) ++
            (if apps.any isRolling && apps.any (fun a => !isRolling a) then ["rolling-and-file"] else [])
          { model := head ++ model ++ tail, spec, tags }
        | _, _, _, _ => badCase "facts"
      | _ => badCase "observation"
    | _, _, _, _, _, _, _ => badCase "decode"
  | _, _ => badCase "arity"


/-! ### stage 2 (A): `sys2` — histories with runtime reconfigurations

case (after `sys2`):  P  fs0  thread?  snap  K  [appenders rootLevel rootRefs loggers]×K  ops
observation: debug pid tid result; result = PANIC | INVALID | snapshots (`/`) of per-path (`,`) `-` | bytes
Model: `sysRunOps` / `sysTraceOps` (System/Reconfig.lean); verdict: `specOps` (System/ReconfigSpec.lean)
on the prefixes of the history against the implementation's snapshots. -/

structure App2Case where
  a : AppCase
  path : Nat

def decApp2 (s : String) : Option App2Case :=
  match splitOnChar ';' s with
  | [n, pth, m, thr, pat, ast] => do
    let name ← decStr n
    let path ← decNat pth
    let mode ← decMode m
    let thresholds ← decThresholds thr
    if pat = "@json" then
      pure { a := { name, app := { thresholds, pattern := [], mode, pre := none, kind := .json }, ast := [] }, path } else
    let pattern ← decStr pat
    let ast ← C09.decAst ast
    pure { a := { name, app := { thresholds, pattern, mode, pre := none }, ast }, path }
  | _ => none

structure Cfg2 where
  apps : List App2Case
  routing : Config

def decCfg2 : List String → Option Cfg2
  | [appsF, rootLevelF, rootRefsF, loggersF] => do
    let apps ← mapM? decApp2 (splitOnChar '|' appsF)
    let rootLevel ← decNat rootLevelF
    let rootAppenders ← decNames ',' rootRefsF
    let loggers ← mapM? decLogger (decList ',' loggersF)
    pure { apps, routing := { appenders := apps.map (·.a.name), rootLevel, rootAppenders, loggers } }
  | _ => none

def chunk4 : Nat → List String → Option (List (List String) × List String)
  | 0, rest => some ([], rest)
  | k + 1, a :: b :: c :: d :: rest => (chunk4 k rest).map fun (cs, r) => ([a, b, c, d] :: cs, r)
  | _, _ => none

def bundleOf (c : Cfg2) : SpecBundle :=
  { b := { cfg := mkConfig (c.apps.map (·.a)) c.routing,
           paths := fun n => match c.apps.find? (fun x => x.a.name = n) with
             | some x => x.path
             | none => 0 },
    asts := astsOf (c.apps.map (·.a)) }

inductive Op2 where
  | record (r : RecCase)
  | cfg (k : Nat)

def decOp2 (s : String) : Option Op2 :=
  if s.startsWith "r" then (decRecord (s.drop 1).toString).map Op2.record
  else if s.startsWith "c" then (decNat (s.drop 1).toString).map Op2.cfg
  else none

def renderPaths (fs : List (Option Bytes)) : String := ",".intercalate (fs.map fun o => encOpt encBytes o)

def renderWorlds (n : Nat) (os : List (Outcome Unit World)) : String :=
  if os.any (fun o => (observeWorld n o).isNone) then "PANIC"
  else "/".intercalate (os.map fun o => match observeWorld n o with | some fs => renderPaths fs | none => "PANIC")

def pathsInj (c : Cfg2) : Bool := (c.apps.map (·.path)).Nodup

def handle2 : Handler := fun cas obs =>
  match cas, obs with
  | pF :: fs0F :: threadF :: snapF :: kF :: rest, [implObs] =>
    match decNat pF, mapM? (decOpt decBytes) (splitOnChar ',' fs0F), decOpt decStr threadF, decBool snapF, decNat kF with
    | some np, some fs0L, some thread, some snap, some k =>
      match chunk4 k rest with
      | some (cfgFs, [opsF]) =>
        match mapM? decCfg2 cfgFs, mapM? decOp2 (splitOnChar '|' opsF), splitOnChar ' ' implObs with
        | some cfgs, some ops, d :: p :: t :: implResult :: ordersF =>
          match decBool d, decNat p, decNat t, cfgs, mapM? decOrders ordersF with
          | some debug, some pid, some tid, c0 :: _, some ordersL =>
            let facts : Facts := { debug, pid, tid }
            let orders : Option (List (List (List Char))) := ordersL.head?
            let tail := String.join (ordersF.map (" " ++ ·))
            if ordersF.length > 1 then badCase "observation" else
            if ops.any (fun | .cfg i => i ≥ cfgs.length | _ => false) then badCase "configuration index" else
            if fs0L.length ≠ np then badCase "fs0" else
            let allApps := cfgs.flatMap (fun c => c.apps.map (·.a))
            if allApps.any (fun a => !isJson a && !C11.classifiable a.app.pattern) then badCase "character outside the sample table" else
            if allApps.any (fun a => !isJson a && showPats a.ast ≠ a.app.pattern) then badCase "pattern is not the printed AST" else
            if allApps.any isJson && orders.isNone then badCase "MDC order facts missing" else
            -- the k-th record op gets the k-th order fact
            let recIdx : List Nat := (ops.foldl (fun (acc : List Nat × Nat) op =>
              match op with
              | .record _ => (acc.1 ++ [acc.2], acc.2 + 1)
              | .cfg _ => (acc.1 ++ [0], acc.2)) (([] : List Nat), 0)).1
            let mkRec (i : Nat) (r : RecCase) : SysRecord :=
              { record := r.record, env := envOf facts thread (orderMdc (orders.bind (·[recIdx.getD i 0]?)) r.mdc) }
            let fs0 : FS := fun q => (fs0L.getD q none)
            let bundles := cfgs.map bundleOf
            let b0 := bundleOf c0
            let specOpsL : List SpecOp := (ops.zipIdx).filterMap fun
              | (.record r, i) => some (.log (mkRec i r))
              | (.cfg i, _) => (bundles[i]?).map SpecOp.setConfig
            let mops := specOpsL.map SpecOp.toOp
            let head := d ++ " " ++ p ++ " " ++ t ++ " "
            let valid := cfgs.all fun c => validB c.routing && pathsInj c && c.apps.all (fun x => x.path < np)
            let wf := allApps.all (fun a => isJson a || wfB C11.profile a.ast)
            let model :=
              if !valid then "INVALID"
              else if snap then renderWorlds np (sysTraceOps fs0 b0.b mops)
              else renderWorlds np [sysRunOps fs0 b0.b mops]
            let prefixes : List (List SpecOp) :=
              if snap then (List.range specOpsL.length).map (fun i => specOpsL.take (i + 1)) else [specOpsL]
            let want : List (List (Option Bytes)) := prefixes.map fun pre => specObserve np (specOps fs0 b0 [] pre)
            let got : Option (List (List (Option Bytes))) :=
              mapM? (fun s => mapM? (decOpt decBytes) (splitOnChar ',' s)) (splitOnChar '/' implResult)
            let spec :=
              if !valid then "FAIL:generator produced an invalid configuration;sig=C01/sys2-invalid-config"
              else if !wf then "FAIL:generator produced a pattern outside WF;sig=C01/sys2-pattern-outside-wf"
              else if implResult = "PANIC" then "FAIL:the pipeline panicked;sig=C01/sys2-panic"
              else if implResult = "INVALID" then "FAIL:the builder refused a valid configuration;sig=C01/sys2-builder-refused"
              else match got with
                | none => "FAIL:unreadable observation;sig=C01/sys2-observation"
                | some got =>
                  if got = want then "ok"
                  else if got.length ≠ want.length then "FAIL:number of snapshots;sig=C01/sys2-observation"
                  else
                    let i := firstDiff got want 0
                    let g := got.getD i []
                    let w := want.getD i []
                    let q := firstDiff g w 0
                    let len := fun (o : Option Bytes) => match o with | some b => toString b.length ++ " bytes" | none => "no file"
                    "FAIL:path " ++ toString q ++ " after " ++ (if snap then "op " ++ toString i else "the history") ++
                      " holds " ++ len ((g.getD q none)) ++ ", the specification says " ++ len ((w.getD q none)) ++
                      ";sig=C01/sys2-files"
            -- coverage tags: walk the history with the specification's filesystem
            let segs : List (Nat × FS × Nat) :=   -- (configuration installed, filesystem it was built on, previous configuration)
              (ops.foldl (fun (acc : List (Nat × FS × Nat) × Nat × List SpecOp) op =>
                match op with
                | .record r => (acc.1, acc.2.1, acc.2.2 ++ [SpecOp.log { record := r.record, env := envOf facts thread r.mdc }])
                | .cfg i =>
                  let fsNow := specOps fs0 b0 [] acc.2.2
                  (acc.1 ++ [(i, fsNow, acc.2.1)], i, acc.2.2 ++ ((bundles[i]?).map SpecOp.setConfig).toList))
                (([] : List (Nat × FS × Nat)), 0, ([] : List SpecOp))).1
            let cfgAt (i : Nat) : Option Cfg2 := cfgs[i]?
            let anySeg (f : Cfg2 → FS → Cfg2 → Bool) : Bool :=
              segs.any fun (i, fsNow, prev) => match cfgAt i, cfgAt prev with
                | some c, some pc => f c fsNow pc
                | _, _ => false
            let nonEmpty (fsNow : FS) (q : Nat) : Bool := ((fsNow q).getD []).length > 0
            let recs := ops.filterMap fun | .record r => some r | _ => none
            let tags := ["sys2", "reconfig-" ++ toString (min segs.length 4)] ++
              (if anySeg (fun c fsNow _ => c.apps.any fun x => x.a.app.mode == .truncate && nonEmpty fsNow x.path)
                then ["truncate-on-reopen"] else []) ++
              (if anySeg (fun c fsNow _ => c.apps.any fun x => x.a.app.mode == .append && nonEmpty fsNow x.path)
                then ["append-on-reopen"] else []) ++
              (if anySeg (fun c _ pc => c.apps.any fun x => pc.apps.any fun y => y.path = x.path && y.a.name ≠ x.a.name)
                then ["path-under-other-name"] else []) ++
              (if anySeg (fun c _ pc => c.apps.any fun x => pc.apps.any fun y => y.a.name = x.a.name && y.path ≠ x.path)
                then ["name-on-other-path"] else []) ++
              (if anySeg (fun c fsNow pc => pc.apps.any fun y => nonEmpty fsNow y.path && !(c.apps.any fun x => x.path = y.path))
                then ["path-orphaned"] else []) ++
              (if anySeg (fun c _ pc => c.apps.length ≠ pc.apps.length) then ["table-size-changes"] else []) ++
              (if anySeg (fun c _ pc => c.apps.any fun x => pc.apps.any fun y => y.path = x.path && y.a.app.mode != x.a.app.mode)
                then ["mode-changed"] else []) ++
              (if segs.any (fun (i, _, prev) => i = prev) then ["same-config-reinstalled"] else []) ++
              (if (ops.getLast?).any (fun | .cfg _ => true | _ => false) then ["ends-with-setConfig"] else []) ++
              (if snap then ["snapshots"] else []) ++
              (if recs.isEmpty then ["trivial"] else [])
            let tags := tags ++ (if allApps.any isJson then ["json-appender"] else [])
            { model := head ++ model ++ tail, spec, tags }
          | _, _, _, _, _ => badCase "facts"
        | _, _, _ => badCase "decode"
      | _ => badCase "configurations"
    | _, _, _, _, _ => badCase "header"
  | _, _ => badCase "arity"

end Driver.Sys
