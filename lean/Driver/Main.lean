import Driver.Common
import Driver.C01
import Driver.C02
import Driver.C03
import Driver.C04
import Driver.C05
import Driver.C06
import Driver.C07
import Driver.C08
import Driver.C09
import Driver.C10
import Driver.C11
import Driver.C12
import Driver.C13
import Driver.C14
import Driver.C15
import Driver.C16
import Driver.C17
import Driver.C18
import Driver.C19
import Driver.C20
open Driver

def dispatch (id : String) : Option Handler :=
  match id with
  | "C01" => some Driver.C01.handle
  | "C02" => some Driver.C02.handle
  | "C03" => some Driver.C03.handle
  | "C04" => some Driver.C04.handle
  | "C05" => some Driver.C05.handle
  | "C06" => some Driver.C06.handle
  | "C07" => some Driver.C07.handle
  | "C08" => some Driver.C08.handle
  | "C09" => some Driver.C09.handle
  | "C10" => some Driver.C10.handle
  | "C11" => some Driver.C11.handle
  | "C12" => some Driver.C12.handle
  | "C13" => some Driver.C13.handle
  | "C14" => some Driver.C14.handle
  | "C15" => some Driver.C15.handle
  | "C16" => some Driver.C16.handle
  | "C17" => some Driver.C17.handle
  | "C18" => some Driver.C18.handle
  | "C19" => some Driver.C19.handle
  | "C20" => some Driver.C20.handle
  | _ => none

def answerLine (line : String) : String :=
  let fields := Log4rs.Proto.splitOnChar '\t' line
  match fields with
  | id :: rest =>
    match dispatch id with
    | some h => let (cas, obs) := splitObs rest; (h cas obs).render
    | none => (badCase ("unknown property " ++ id)).render
  | [] => (badCase "empty").render

partial def loop (h : IO.FS.Stream) (out : IO.FS.Stream) : IO Unit := do
  let line ← h.getLine
  if line.isEmpty then return ()
  let line := if line.endsWith "\n" then (line.dropEnd 1).toString else line
  out.putStrLn (answerLine line)
  loop h out

def main : IO Unit := do
  let stdin ← IO.getStdin
  let stdout ← IO.getStdout
  loop stdin stdout
  stdout.flush
