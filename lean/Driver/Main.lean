import Driver.Common
import Driver.C20
open Driver

def dispatch (id : String) : Option Handler :=
  match id with
  | "C20" => some Driver.C20.handle
  | _ => none

def answerLine (line : String) : String :=
  let fields := Log4rs.Proto.splitOnChar '\t' line
  match fields with
  | id :: rest =>
    match dispatch id with
    | some h => let (cas, obs) := splitObs rest; (h cas obs).render
    | none => (badCase ("unknown property " ++ id)).render
  | [] => (badCase "empty").render

partial def loop (h : IO.FS.Stream) (out : IO.FS.Stream) : IO Unit := do
  let line ← h.getLine
  if line.isEmpty then return ()
  let line := if line.endsWith "\n" then (line.dropEnd 1).toString else line
  out.putStrLn (answerLine line)
  loop h out

def main : IO Unit := do
  let stdin ← IO.getStdin
  let stdout ← IO.getStdout
  loop stdin stdout
  stdout.flush
