import Driver.Common
namespace Driver.C04
open Driver

def handle : Handler := fun _ _ => badCase "unimplemented"

end Driver.C04
