import Driver.Common
import Log4rsModel.Rolling.Spec
/-
C04 driver. Case kinds

  seq  <mode a|t> <pre: - | hex bytes> <ops>          ops  = `,`-joined, see `decOp`: restart, build, foreign append, external truncation `T`,
                                                             [k>]{e<n>!|p<n>!|mw!|mf!}record
  conc <mode a|t> <pre> <amplifier 0|1|2> <threads> [<A>]   threads = `|`-joined, each a `,`-joined record list;
                                                      with `A`: A FileAppenders on the one path (thread i uses appender i mod A)
                                                      and a reader taking snapshots while the writers run

record = `b<id>:<n1>+<n2>+…`  scripted encoder: slices of these sizes (`b<id>:` = no slice at all),
                              content = `genBytes id (n1+n2+…)` (deterministic, starts with the id)
       | `t<id>:<string>`     text message (one slice, UTF-8 of the string)

observation
  seq : `,`-joined hex file contents, one per op (read by a second thread right after the op returned)
  conc: <hex of the final file> `/` <`|`-joined per thread: `,`-joined ids of acknowledged records> `/`
        <number of acknowledged records an independent reader could not find right after the ack>
        [`/` <`;`-joined hex snapshots a reader took while the writers ran>   (cases with `A`)]
-/
namespace Driver.C04
open Log4rs.Proto Log4rs.Rolling Driver

def hex (b : Bytes) : String := Log4rs.Proto.encBytes b
def recBytes (r : Rec) : Bytes := Log4rs.Rolling.encBytes r

/-- byte `k` of the generated record `id` (mirrored in `harness/src/c04.rs::gen_byte`) -/
def genByte (id k : Nat) : Nat :=
  if k = 0 then 0x5B
  else if k = 1 then id / 65536 % 256
  else if k = 2 then id / 256 % 256
  else if k = 3 then id % 256
  else (id * 7 + k * 13 + k / 251) % 256

def genBytes (id n : Nat) : Bytes := (List.range n).map (genByte id)

/-- split `bs` into consecutive slices of the given sizes -/
def chunksOf : List Nat → Bytes → List Bytes
  | [], _ => []
  | n :: ns, bs => bs.take n :: chunksOf ns (bs.drop n)

/-- tail-recursive hex decoder (files of several MB) -/
def decBytesBig (s : String) : Option Bytes :=
  if s = "_" then some [] else
  let rec go (cs : List Char) (acc : List Nat) : Option Bytes :=
    match cs with
    | [] => some acc.reverse
    | [_] => none
    | a :: b :: rest =>
      match hexDigit? a, hexDigit? b with
      | some x, some y => go rest ((x * 16 + y) :: acc)
      | _, _ => none
  go s.toList []

structure RecSpec where
  id : Nat
  chunks : Rec
  text : Bool
  deriving Repr

def utf8Of (cs : List Char) : Bytes := (String.ofList cs).toUTF8.toList.map UInt8.toNat

def decRec (s : String) : Option RecSpec :=
  match splitOnChar ':' s with
  | [hd, body] =>
    match hd.toList with
    | 'b' :: ds =>
      match (String.ofList ds).toNat? with
      | none => none
      | some id =>
        if body = "" then some { id, chunks := [], text := false } else
        match mapM? decNat (splitOnChar '+' body) with
        | none => none
        | some sizes => some { id, chunks := chunksOf sizes (genBytes id sizes.sum), text := false }
    | 't' :: ds =>
      match (String.ofList ds).toNat?, decStr body with
      | some id, some cs => some { id, chunks := [utf8Of cs], text := true }
      | _, _ => none
    | _ => none
  | _ => none

def decMode (s : String) : Option OpenMode :=
  if s = "a" then some .append else if s = "t" then some .truncate else none

/-- `e<n>!<record>`: the scripted encoder writes the first `n` slices, then returns `Err` -/
def decFailRec (s : String) : Option (RecSpec × Option Nat) :=
  match s.toList with
  | 'e' :: rest =>
    match splitOnChar '!' (String.ofList rest) with
    | [n, r] =>
      match decNat n, decRec r with
      | some n, some r => some (r, some n)
      | _, _ => none
    | _ => none
  | _ => (decRec s).map (fun r => (r, none))

/-- the ASCII image of a byte: what the scripted encoder hands to `write_fmt` (which takes text) -/
def asciiImage (b : Nat) : Nat := 0x30 + b % 64

/-- `{<prefix>!}*<record>` — prefixes of a scripted record:
  `e<n>` the encoder returns `Err` after `n` slices;  `p<n>` the encoder PANICS after `n` slices (the
  harness catches the unwinding and goes on using the appender);
  `mw` the slices are emitted with a `write` loop, `mf` with `write_fmt` (of their ASCII image),
  default `write_all` -/
def decScripted (s : String) : Option (RecSpec × Option Nat) :=
  let parts := splitOnChar '!' s
  match parts.getLast?, parts.dropLast with
  | some r, pfx =>
    match decRec r with
    | none => none
    | some r =>
      pfx.foldl (fun acc p =>
        match acc with
        | none => none
        | some (r, f) =>
          match p.toList with
          | ['m', 'w'] => some (r, f)
          | ['m', 'a'] => some (r, f)
          | ['m', 'f'] => if r.text then none else some ({ r with chunks := r.chunks.map (·.map asciiImage) }, f)
          | 'e' :: ds => match (String.ofList ds).toNat? with | some n => if f.isSome then none else some (r, some n) | none => none
          | 'p' :: ds => match (String.ofList ds).toNat? with | some n => if f.isSome then none else some (r, some n) | none => none
          | _ => none) (some (r, none))
  | none, _ => none

/-- operations of a sequential history:
  `r` / `r<k>` restart appender 0 / k;  `n` build one more appender on the path;
  `x<id>:<size>` a foreign `O_APPEND` handle appends `genBytes id size`;
  `T` another process truncates the file to length 0;
  `[<k>>]{prefix!}*record` appender `k` (default 0) handles the record (`decScripted`) -/
def decOp (s : String) : Option MOp :=
  if s = "r" then some (.restart 0) else if s = "n" then some .build else if s = "T" then some .truncate else
  match s.toList with
  | 'r' :: ds => ((String.ofList ds).toNat?).map MOp.restart
  | 'x' :: rest =>
    match splitOnChar ':' (String.ofList rest) with
    | [i, n] => match decNat i, decNat n with
      | some i, some n => some (.foreign (genBytes i n))
      | _, _ => none
    | _ => none
  | _ =>
    match splitOnChar '>' s with
    | [k, body] => match decNat k, decScripted body with
      | some k, some (r, f) => some (.append k r.chunks f)
      | _, _ => none
    | [body] => (decScripted body).map (fun (r, f) => .append 0 r.chunks f)
    | _ => none

/-- tags read off the op strings: how the scripted encoder emitted / failed -/
def scriptTags (ops : List String) : List String :=
  let has (p : String) := ops.any (fun o => (splitOnChar '!' ((splitOnChar '>' o).getLast?.getD "")).dropLast.any (fun x => x.startsWith p))
  (if has "p" then ["encoder-panic"] else []) ++ (if has "mw" then ["emit-write-loop"] else []) ++
  (if has "mf" then ["emit-write-fmt"] else [])

/-- size class of a record (the sizes a change of the staging / write path would be sensitive to) -/
def sizeTags (n : Nat) : List String :=
  (if n = 4095 ∨ n = 4096 ∨ n = 4097 then ["size-4k±1"] else []) ++
  (if n = 65535 ∨ n = 65536 ∨ n = 65537 then ["size-64k±1"] else []) ++
  (if n ≥ 1048576 then ["size-1MiB"] else [])

/-- which branches of the BufWriter rule a history exercises -/
def chunkTags (w : BufFile) : List Bytes → List String
  | [] => []
  | c :: cs =>
    let spare := CAP - w.buf.length
    let t :=
      (if c.isEmpty then ["empty-slice"] else []) ++
      (if c.length ≥ CAP then ["write-through"] else []) ++
      (if c.length = CAP then ["exactly-cap"] else []) ++
      (if c.length = spare ∧ c.length < CAP ∧ ¬ c.isEmpty then ["fills-buffer"] else []) ++
      (if c.length > spare ∧ ¬ w.buf.isEmpty then ["spill"] else [])
    t ++ chunkTags (w.writeAll c) cs

def opTags (m : OpenMode) (s : Handles) : List MOp → List String
  | [] => []
  | .append k r f :: ops =>
    (if r.isEmpty then ["no-slice"] else if (recBytes r).isEmpty then ["empty-record"] else []) ++
    (if r.length > 1 then ["multi-chunk"] else []) ++
    (if k != 0 then ["second-appender"] else []) ++
    (match s.off k with | some o => (if o != s.file.length then ["stale-offset"] else ["private-offset"]) | none => []) ++
    sizeTags (recBytes r).length ++
    (match f with
     | none => chunkTags (s.view k) [recBytes r]
     | some _ => if (MOp.append k r f).torn then ["encoder-error", "encoder-error-after-slices"] else ["encoder-error"]) ++
    opTags m (s.applyOp m (.append k r f)) ops
  | .restart k :: ops => "restart" :: opTags m (s.applyOp m (.restart k)) ops
  | .foreign x :: ops => "foreign-append" :: opTags m (s.applyOp m (.foreign x)) ops
  | .build :: ops => "multi-handle" :: opTags m (s.applyOp m .build) ops
  | .truncate :: ops => "external-truncate" :: opTags m (s.applyOp m .truncate) ops

def dedup (xs : List String) : List String := xs.foldl (fun acc x => if acc.contains x then acc else acc ++ [x]) []

def firstDiff : Nat → List String → List String → Option Nat
  | _, [], [] => none
  | k, a :: as, b :: bs => if a = b then firstDiff (k + 1) as bs else some k
  | k, _, _ => some k

def opKind : MOp → String
  | .append _ _ none => "append"
  | .append _ _ (some _) => "failed-append"
  | .foreign _ => "foreign"
  | .truncate => "external-truncate"
  | .build => "build"
  | .restart _ => "restart"

/-- `sigPrefix`: the property and case kind the signatures name; `C05` runs the same histories on rolling
appenders that never rotate (`seqx`, `Driver/C05.lean`) with `C05/seqx-` -/
def handleSeq (mS preS opsS : String) (obs : List String) (sigPrefix : String := "C04/seq-") : Answer :=
  match decMode mS, decOpt decBytesBig preS, mapM? decOp (decList ',' opsS), obs with
  | some m, some pre, some ops, [implObs] =>
    if !validOps 1 ops then badCase "appender index" else
    let s0 := Handles.init m pre
    let modelL := (Handles.trace m s0 ops).map hex
    let model := encList "," modelL
    let expect := (Spec.expectedTraceM m pre ops).map hex
    let got := decList ',' implObs
    let modeName := if m = .append then "append" else "truncate"
    let spec := match firstDiff 0 expect got with
      | none => "ok"
      | some k =>
        let kind := match ops[k]? with | some op => opKind op | none => "arity"
        -- input class of the former finding: truncate mode, an append that follows another writer /
        -- appender / truncation of the path (the descriptor had a private offset)
        let cls := if m = .truncate ∧ kind = "append" ∧ (ops.take k).any MOp.multi then "truncate-private-offset" else modeName ++ "-" ++ kind
        "FAIL:file after op " ++ toString k ++ " is not what the last open/truncation left ++ whole acknowledged records and foreign appends in call order;sig=" ++ sigPrefix ++ cls
    let tags := dedup ([modeName, if pre.isSome then "pre-existing" else "fresh"] ++
      (if m = .truncate ∧ ops.any MOp.multi then ["truncate-mode-shared-path"] else []) ++
      scriptTags (decList ',' opsS) ++ opTags m s0 ops)
    { model, spec, tags := if ops.isEmpty then "trivial" :: tags else "seq" :: tags }
  | _, _, _, _ => badCase "seq"

def handleConc (mS preS ampS thS : String) (appsS : Option String) (obs : List String) : Answer :=
  let thr := (decList '|' thS).map (fun t => mapM? decRec (decList ',' t))
  match decMode mS, decOpt decBytesBig preS, decNat ampS, mapM? id thr, obs, (match appsS with | none => some 1 | some a => decNat a) with
  | some m, some pre, some amp, some threads, [implObs], some napps =>
    if napps = 0 then badCase "appenders" else
    let (fileS, acksS, invS, snapsS) := match splitOnChar '/' implObs, appsS with
      | [a, b, c], none => (a, b, c, "~")
      | [a, b, c, d], some _ => (a, b, c, d)
      | _, _ => ("", "", "", "~")
    if fileS = "PANIC" then
      { model := "no-panic", spec := "FAIL:panic in a concurrent run;sig=C04/conc-panic", tags := ["panic"] } else
    match decBytesBig fileS, mapM? (fun t => mapM? decNat (decList ',' t)) (decList '|' acksS) with
    | some file, some acks =>
      if acks.length ≠ threads.length then badCase "acks arity" else
      -- several truncate-mode appenders: each open truncates, all opens precede the first write
      let initial := openContent m pre
      -- snapshots a reader took while the writers ran: whole records ++ a prefix of one record
      let snapsOk := match mapM? decBytesBig (decList ';' snapsS) with
        | none => false
        | some snaps => snaps.all (fun sn => Spec.isMergePrefix initial (threads.map (fun t => t.map (fun r => recBytes r.chunks))) sn)
      -- the records each thread had acknowledged, in that thread's order
      let acked : List (List Bytes) := (threads.zip acks).map fun (t, ids) =>
        (t.filter (fun r => ids.contains r.id)).map (fun r => recBytes r.chunks)
      let wellAcked := (threads.zip acks).all fun (t, ids) => (t.map (·.id)).take ids.length == ids
      let merged := wellAcked && Spec.isMergeOfWhole initial acked file
      -- every acknowledged record was readable by an independent reader at the moment of its
      -- acknowledgement (theorem C04_schedule_serial: the flush precedes the return)
      let visible := invS = "0"
      let ok := merged && visible && snapsOk
      -- any outcome the lock machine admits (theorem C04_schedule_serial: exactly the merges) is the
      -- model's observation; otherwise the serial schedule thread 0, thread 1, … is shown
      let serial := initial ++ (threads.flatMap (fun t => t.flatMap (fun r => recBytes r.chunks)))
      let allAcks := encList "|" (threads.map (fun t => encList "," (t.map (fun r => toString r.id))))
      let sfx := if appsS.isSome then "/" ++ (if ok then snapsS else "~") else ""
      let model := if ok then fileS ++ "/" ++ acksS ++ "/0" ++ sfx else hex serial ++ "/" ++ allAcks ++ "/0" ++ sfx
      let modeName := if m = .append then "append" else "truncate"
      let total := (threads.map List.length).sum
      let spec := if ok then "ok" else if !merged then
        "FAIL:final file is not initial ++ an order-preserving merge of whole acknowledged records;sig=C04/conc-" ++ modeName
        else if !visible then "FAIL:" ++ invS ++ " acknowledged record(s) were not readable from the file right after append returned;sig=C04/conc-visibility"
        else "FAIL:a snapshot read while the writers ran is not initial ++ whole records in per-thread order ++ a prefix of one record;sig=C04/conc-snapshot"
      let big := threads.any (fun t => t.any (fun r => (recBytes r.chunks).length > CAP))
      let multi := threads.any (fun t => t.any (fun r => r.chunks.length > 1))
      let tags := ["conc", modeName, "threads-" ++ toString threads.length, "amp-" ++ toString amp] ++
        (if big then ["record>cap"] else []) ++ (if multi then ["multi-chunk"] else []) ++
        (if pre.isSome then ["pre-existing"] else []) ++
        (if napps > 1 then ["appenders-" ++ toString napps] else []) ++
        (if appsS.isSome ∧ snapsS != "~" then ["reader-snapshots"] else [])
      { model, spec, tags := if total = 0 then "trivial" :: tags else tags }
    | _, _ => badCase "conc obs"
  | _, _, _, _, _, _ => badCase "conc"

def handle : Handler := fun cas obs =>
  match cas with
  | ["seq", m, pre, ops] => handleSeq m pre ops obs
  | ["conc", m, pre, amp, ths] => handleConc m pre amp ths none obs
  | ["conc", m, pre, amp, ths, apps] => handleConc m pre amp ths (some apps) obs
  | _ => badCase "arity"

end Driver.C04
