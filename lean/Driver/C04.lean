import Driver.Common
import Log4rsModel.Rolling.Spec
/-
C04 driver. Case kinds

  seq  <mode a|t> <pre: - | hex bytes> <ops>          ops  = `,`-joined, see `decOp`: restart, build, foreign append, [k>][e<n>!]record
  conc <mode a|t> <pre> <amplifier 0|1|2> <threads>   threads = `|`-joined, each a `,`-joined record list

record = `b<id>:<n1>+<n2>+…`  scripted encoder: slices of these sizes (`b<id>:` = no slice at all),
                              content = `genBytes id (n1+n2+…)` (deterministic, starts with the id)
       | `t<id>:<string>`     text message (one slice, UTF-8 of the string)

observation
  seq : `,`-joined hex file contents, one per op (read by a second thread right after the op returned)
  conc: <hex of the final file> `/` <`|`-joined per thread: `,`-joined ids of acknowledged records> `/`
        <number of acknowledged records an independent reader could not find right after the ack>
-/
namespace Driver.C04
open Log4rs.Proto Log4rs.Rolling Driver

def hex (b : Bytes) : String := Log4rs.Proto.encBytes b
def recBytes (r : Rec) : Bytes := Log4rs.Rolling.encBytes r

/-- byte `k` of the generated record `id` (mirrored in `harness/src/c04.rs::gen_byte`) -/
def genByte (id k : Nat) : Nat :=
  if k = 0 then 0x5B
  else if k = 1 then id / 65536 % 256
  else if k = 2 then id / 256 % 256
  else if k = 3 then id % 256
  else (id * 7 + k * 13 + k / 251) % 256

def genBytes (id n : Nat) : Bytes := (List.range n).map (genByte id)

/-- split `bs` into consecutive slices of the given sizes -/
def chunksOf : List Nat → Bytes → List Bytes
  | [], _ => []
  | n :: ns, bs => bs.take n :: chunksOf ns (bs.drop n)

/-- tail-recursive hex decoder (files of several MB) -/
def decBytesBig (s : String) : Option Bytes :=
  if s = "_" then some [] else
  let rec go (cs : List Char) (acc : List Nat) : Option Bytes :=
    match cs with
    | [] => some acc.reverse
    | [_] => none
    | a :: b :: rest =>
      match hexDigit? a, hexDigit? b with
      | some x, some y => go rest ((x * 16 + y) :: acc)
      | _, _ => none
  go s.toList []

structure RecSpec where
  id : Nat
  chunks : Rec
  text : Bool
  deriving Repr

def utf8Of (cs : List Char) : Bytes := (String.ofList cs).toUTF8.toList.map UInt8.toNat

def decRec (s : String) : Option RecSpec :=
  match splitOnChar ':' s with
  | [hd, body] =>
    match hd.toList with
    | 'b' :: ds =>
      match (String.ofList ds).toNat? with
      | none => none
      | some id =>
        if body = "" then some { id, chunks := [], text := false } else
        match mapM? decNat (splitOnChar '+' body) with
        | none => none
        | some sizes => some { id, chunks := chunksOf sizes (genBytes id sizes.sum), text := false }
    | 't' :: ds =>
      match (String.ofList ds).toNat?, decStr body with
      | some id, some cs => some { id, chunks := [utf8Of cs], text := true }
      | _, _ => none
    | _ => none
  | _ => none

def decMode (s : String) : Option OpenMode :=
  if s = "a" then some .append else if s = "t" then some .truncate else none

/-- `e<n>!<record>`: the scripted encoder writes the first `n` slices, then returns `Err` -/
def decFailRec (s : String) : Option (RecSpec × Option Nat) :=
  match s.toList with
  | 'e' :: rest =>
    match splitOnChar '!' (String.ofList rest) with
    | [n, r] =>
      match decNat n, decRec r with
      | some n, some r => some (r, some n)
      | _, _ => none
    | _ => none
  | _ => (decRec s).map (fun r => (r, none))

/-- operations of a sequential history:
  `r` / `r<k>` restart appender 0 / k;  `n` build one more appender on the path;
  `x<id>:<size>` a foreign `O_APPEND` handle appends `genBytes id size`;
  `[<k>>][e<n>!]record` appender `k` (default 0) handles the record, the encoder failing after `n` slices -/
def decOp (s : String) : Option MOp :=
  if s = "r" then some (.restart 0) else if s = "n" then some .build else
  match s.toList with
  | 'r' :: ds => ((String.ofList ds).toNat?).map MOp.restart
  | 'x' :: rest =>
    match splitOnChar ':' (String.ofList rest) with
    | [i, n] => match decNat i, decNat n with
      | some i, some n => some (.foreign (genBytes i n))
      | _, _ => none
    | _ => none
  | _ =>
    match splitOnChar '>' s with
    | [k, body] => match decNat k, decFailRec body with
      | some k, some (r, f) => some (.append k r.chunks f)
      | _, _ => none
    | [body] => (decFailRec body).map (fun (r, f) => .append 0 r.chunks f)
    | _ => none

/-- which branches of the BufWriter rule a history exercises -/
def chunkTags (w : BufFile) : List Bytes → List String
  | [] => []
  | c :: cs =>
    let spare := CAP - w.buf.length
    let t :=
      (if c.isEmpty then ["empty-slice"] else []) ++
      (if c.length ≥ CAP then ["write-through"] else []) ++
      (if c.length = CAP then ["exactly-cap"] else []) ++
      (if c.length = spare ∧ c.length < CAP ∧ ¬ c.isEmpty then ["fills-buffer"] else []) ++
      (if c.length > spare ∧ ¬ w.buf.isEmpty then ["spill"] else [])
    t ++ chunkTags (w.writeAll c) cs

def opTags (m : OpenMode) (s : Handles) : List MOp → List String
  | [] => []
  | .append k r f :: ops =>
    (if r.isEmpty then ["no-slice"] else if (recBytes r).isEmpty then ["empty-record"] else []) ++
    (if r.length > 1 then ["multi-chunk"] else []) ++
    (if k != 0 then ["second-appender"] else []) ++
    (match f with
     | none => chunkTags (s.view k) [recBytes r]
     | some _ => if (MOp.append k r f).torn then ["encoder-error", "encoder-error-after-slices"] else ["encoder-error"]) ++
    opTags m (s.applyOp m (.append k r f)) ops
  | .restart k :: ops => "restart" :: opTags m (s.applyOp m (.restart k)) ops
  | .foreign x :: ops => "foreign-append" :: opTags m (s.applyOp m (.foreign x)) ops
  | .build :: ops => "multi-handle" :: opTags m (s.applyOp m .build) ops

def dedup (xs : List String) : List String := xs.foldl (fun acc x => if acc.contains x then acc else acc ++ [x]) []

def firstDiff : Nat → List String → List String → Option Nat
  | _, [], [] => none
  | k, a :: as, b :: bs => if a = b then firstDiff (k + 1) as bs else some k
  | k, _, _ => some k

def opKind : MOp → String
  | .append _ _ none => "append"
  | .append _ _ (some _) => "failed-append"
  | .foreign _ => "foreign"
  | .build => "build"
  | .restart _ => "restart"

def handleSeq (mS preS opsS : String) (obs : List String) : Answer :=
  match decMode mS, decOpt decBytesBig preS, mapM? decOp (decList ',' opsS), obs with
  | some m, some pre, some ops, [implObs] =>
    if !validOps 1 ops then badCase "appender index" else
    if m = .truncate ∧ ops.any MOp.multi then badCase "several handles are modelled in append mode only" else
    let s0 := Handles.init m pre
    let modelL := (Handles.trace m s0 ops).map hex
    let model := encList "," modelL
    let expect := (Spec.expectedTraceM m pre ops).map hex
    let got := decList ',' implObs
    let modeName := if m = .append then "append" else "truncate"
    let spec := match firstDiff 0 expect got with
      | none => "ok"
      | some k =>
        let kind := match ops[k]? with | some op => opKind op | none => "arity"
        "FAIL:file after op " ++ toString k ++ " is not initial ++ whole acknowledged records and foreign appends in call order;sig=C04/seq-" ++ modeName ++ "-" ++ kind
    let tags := dedup ([modeName, if pre.isSome then "pre-existing" else "fresh"] ++ opTags m s0 ops)
    { model, spec, tags := if ops.isEmpty then "trivial" :: tags else "seq" :: tags }
  | _, _, _, _ => badCase "seq"

def handleConc (mS preS ampS thS : String) (obs : List String) : Answer :=
  let thr := (decList '|' thS).map (fun t => mapM? decRec (decList ',' t))
  match decMode mS, decOpt decBytesBig preS, decNat ampS, mapM? id thr, obs with
  | some m, some pre, some amp, some threads, [implObs] =>
    let (fileS, acksS, invS) := match splitOnChar '/' implObs with
      | [a, b, c] => (a, b, c)
      | _ => ("", "", "")
    if fileS = "PANIC" then
      { model := "no-panic", spec := "FAIL:panic in a concurrent run;sig=C04/conc-panic", tags := ["panic"] } else
    match decBytesBig fileS, mapM? (fun t => mapM? decNat (decList ',' t)) (decList '|' acksS) with
    | some file, some acks =>
      if acks.length ≠ threads.length then badCase "acks arity" else
      let initial := openContent m pre
      -- the records each thread had acknowledged, in that thread's order
      let acked : List (List Bytes) := (threads.zip acks).map fun (t, ids) =>
        (t.filter (fun r => ids.contains r.id)).map (fun r => recBytes r.chunks)
      let wellAcked := (threads.zip acks).all fun (t, ids) => (t.map (·.id)).take ids.length == ids
      let merged := wellAcked && Spec.isMergeOfWhole initial acked file
      -- every acknowledged record was readable by an independent reader at the moment of its
      -- acknowledgement (theorem C04_schedule_serial: the flush precedes the return)
      let visible := invS = "0"
      let ok := merged && visible
      -- any outcome the lock machine admits (theorem C04_schedule_serial: exactly the merges) is the
      -- model's observation; otherwise the serial schedule thread 0, thread 1, … is shown
      let serial := initial ++ (threads.flatMap (fun t => t.flatMap (fun r => recBytes r.chunks)))
      let allAcks := encList "|" (threads.map (fun t => encList "," (t.map (fun r => toString r.id))))
      let model := if ok then fileS ++ "/" ++ acksS ++ "/0" else hex serial ++ "/" ++ allAcks ++ "/0"
      let modeName := if m = .append then "append" else "truncate"
      let total := (threads.map List.length).sum
      let spec := if ok then "ok" else if !merged then
        "FAIL:final file is not initial ++ an order-preserving merge of whole acknowledged records;sig=C04/conc-" ++ modeName
        else "FAIL:" ++ invS ++ " acknowledged record(s) were not readable from the file right after append returned;sig=C04/conc-visibility"
      let big := threads.any (fun t => t.any (fun r => (recBytes r.chunks).length > CAP))
      let multi := threads.any (fun t => t.any (fun r => r.chunks.length > 1))
      let tags := ["conc", modeName, "threads-" ++ toString threads.length, "amp-" ++ toString amp] ++
        (if big then ["record>cap"] else []) ++ (if multi then ["multi-chunk"] else []) ++
        (if pre.isSome then ["pre-existing"] else [])
      { model, spec, tags := if total = 0 then "trivial" :: tags else tags }
    | _, _ => badCase "conc obs"
  | _, _, _, _, _ => badCase "conc"

def handle : Handler := fun cas obs =>
  match cas with
  | ["seq", m, pre, ops] => handleSeq m pre ops obs
  | ["conc", m, pre, amp, ths] => handleConc m pre amp ths obs
  | _ => badCase "arity"

end Driver.C04
