import Driver.Common
namespace Driver.C09
open Driver

def handle : Handler := fun _ _ => badCase "unimplemented"

end Driver.C09
