import Driver.Common
import Driver.C11
import Log4rsModel.Pattern.Ast
/-
C09 driver. The case carries the pattern AST as a prefix token list and the pattern string the
harness printed from it; the driver prints the AST with `showPats` and refuses the case when the
strings differ. Model observation: the C11 model run on the pattern string. Spec verdict: the
implementation's text and style calls against `denotePats` / `stylesPats` of the AST.
-/
namespace Driver.C09
open Log4rs Log4rs.Proto Log4rs.Pattern Log4rs.Pattern.Parse Driver

def decEsc (s : String) : Option Esc :=
  if s = "p" then some .plain else if s = "d" then some .doubled else if s = "b" then some .backslash else none

def decChar (h : String) : Option Char :=
  match hexNat? h with
  | some n => if h : n.isValidChar then some (Char.ofNatAux n h) else none
  | none => none

def decLit (t : String) : Option Lit :=
  match splitOnChar ':' (t.drop 1).toString with
  | [h, e] => do pure { c := (← decChar h), esc := (← decEsc e) }
  | _ => none

def decDigit (c : Char) : Option (Fin 10) :=
  if h : '0'.toNat ≤ c.toNat ∧ c.toNat - '0'.toNat < 10 then some ⟨c.toNat - '0'.toNat, h.2⟩ else none

def decDigits (s : String) : Option (Option Digits) :=
  if s = "-" then some none else (mapM? decDigit s.toList).map some

def decSpec (t : String) : Option (Option FormatSpec) :=
  if t = "s~" then some none else
  match splitOnChar ':' (t.drop 1).toString with
  | [f, a, mn, mx] => do
    let fill ← decOpt decChar f
    let align ← if a = "-" then some none else if a = "l" then some (some false) else if a = "r" then some (some true) else none
    let minW ← decDigits mn
    let maxW ← decDigits mx
    pure (some { fill, align, minW, maxW })
  | _ => none

def decLeafKind (s : String) : Option LeafKind :=
  match s with
  | "level" => some .level | "message" => some .message | "module" => some .module
  | "file" => some .file | "line" => some .line | "thread" => some .thread
  | "threadId" => some .threadId | "pid" => some .pid | "tid" => some .tid
  | "target" => some .target | "newline" => some .newline
  | _ => none

def decGroupKind (s : String) : Option GroupKind :=
  match s with
  | "a" => some .align | "h" => some .highlight | "d" => some .debug | "r" => some .release
  | _ => none

/-- `[` lits `]` -/
def decLitsAux : List String → List Lit → Option (List Lit × List String)
  | [], _ => none
  | t :: rest, acc =>
    if t = "]" then some (acc.reverse, rest)
    else match decLit t with
      | some l => decLitsAux rest (l :: acc)
      | none => none

def decLits (ts : List String) : Option (List Lit × List String) :=
  match ts with
  | t :: rest => if t = "[" then decLitsAux rest [] else none
  | [] => none

/-- pats until `)` or the end; the rest starts at the `)` -/
def decPats : Nat → List String → Option (List Pat × List String)
  | 0, _ => none
  | _ + 1, [] => some ([], [])
  | f + 1, t :: rest =>
    if t = ")" then some ([], t :: rest)
    else if t.startsWith "L" then do
      let l ← decLit t
      let (ps, r) ← decPats f rest
      pure (.lit l :: ps, r)
    else
      match rest with
      | [] => none
      | st :: rest =>
        match decSpec st with
        | none => none
        | some spec =>
          let hd := splitOnChar ':' (t.drop 1).toString
          if t.startsWith "F" then
            match hd with
            | [k, l] => do
              let k ← decLeafKind k
              let long ← decBool l
              let (ps, r) ← decPats f rest
              pure (.leaf k long spec :: ps, r)
            | _ => none
          else if t.startsWith "D" then
            match hd with
            | [l, mode, z] => do
              let long ← decBool l
              let utc ← decBool z
              if mode = "0" then
                let (ps, r) ← decPats f rest
                pure (.date long none spec :: ps, r)
              else
                let (fm, rest) ← decLits rest
                let zone ← if mode = "1" then some none else if mode = "2" then some (some utc) else none
                let (ps, r) ← decPats f rest
                pure (.date long (some (fm, zone)) spec :: ps, r)
            | _ => none
          else if t.startsWith "X" then
            match hd with
            | [l, d] => do
              let long ← decBool l
              let hasD ← decBool d
              let (key, rest) ← decLits rest
              if hasD then
                let (dflt, rest) ← decLits rest
                let (ps, r) ← decPats f rest
                pure (.mdc long key (some dflt) spec :: ps, r)
              else
                let (ps, r) ← decPats f rest
                pure (.mdc long key none spec :: ps, r)
            | _ => none
          else if t.startsWith "G" then
            match hd, rest with
            | [k, l], op :: rest => do
              let k ← decGroupKind k
              let long ← decBool l
              if op ≠ "(" then none else
              let (body, rest) ← decPats f rest
              match rest with
              | cl :: rest =>
                if cl ≠ ")" then none else
                let (ps, r) ← decPats f rest
                pure (.group k long body spec :: ps, r)
              | [] => none
            | _, _ => none
          else none

def decAst (s : String) : Option (List Pat) :=
  let toks := decList ',' s
  match decPats (toks.length + 1) toks with
  | some (ps, []) => some ps
  | _ => none

/-! classification of an AST outside `WF` (the input classes of the findings) -/

def doubledClose (l : Lit) : Bool := l.c == ')' && l.esc == .doubled

mutual
/-- a doubled `)` inside a parenthesised argument -/
def hasDoubledCloseInArg (inArg : Bool) : Pat → Bool
  | .lit l => inArg && doubledClose l
  | .date _ (some (f, _)) _ => f.any doubledClose
  | .mdc _ key dflt _ => key.any doubledClose || (match dflt with | some d => d.any doubledClose | none => false)
  | .group _ _ body _ => hasDoubledCloseInArgL true body
  | _ => false
def hasDoubledCloseInArgL (inArg : Bool) : List Pat → Bool
  | [] => false
  | p :: ps => hasDoubledCloseInArg inArg p || hasDoubledCloseInArgL inArg ps
end

mutual
def depthOf : Pat → Nat
  | .group _ _ body _ => depthOfL body + 1
  | _ => 0
def depthOfL : List Pat → Nat
  | [] => 0
  | p :: ps => max (depthOf p) (depthOfL ps)
end

mutual
def featuresOf : Pat → List String
  | .lit l => if l.esc == .plain then [] else [if l.esc == .doubled then "esc-doubled" else "esc-backslash"]
  | .leaf k long spec => (if long then ["alias"] else []) ++ (if spec.isSome then ["spec"] else []) ++
      (if k == .threadId && long then ["thread_id"] else [])
  | .date long args spec => "date" :: (if long then ["alias"] else []) ++ (if spec.isSome then ["spec"] else []) ++
      (match args with | some (_, some _) => ["zone"] | _ => [])
  | .mdc long key dflt spec => "mdc" :: (if long then ["alias"] else []) ++ (if spec.isSome then ["spec"] else []) ++
      (if dflt.isSome then ["mdc-default"] else []) ++
      (if key.any (fun l => l.esc != .plain) || (match dflt with | some d => d.any (fun l => l.esc != .plain) | none => false)
        then ["mdc-escaped"] else [])
  | .group k long body spec =>
    (match k with | .align => "unnamed" | .highlight => "highlight" | .debug => "debug" | .release => "release") ::
      (if long then ["alias"] else []) ++ (if spec.isSome then ["spec"] else []) ++ featuresOfL body
def featuresOfL : List Pat → List String
  | [] => []
  | p :: ps => featuresOf p ++ featuresOfL ps
end

mutual
/-- an MDC formatter with an empty key or an explicitly empty default (input class of the finding
`C09/mdc-empty-argument`, repaired in round 6) -/
def hasEmptyMdcArg : Pat → Bool
  | .mdc _ key dflt _ => key.isEmpty || dflt == some []
  | .group _ _ body _ => hasEmptyMdcArgL body
  | _ => false
def hasEmptyMdcArgL : List Pat → Bool
  | [] => false
  | p :: ps => hasEmptyMdcArg p || hasEmptyMdcArgL ps
end

/-- `wf`; `too-deep` = well-formed but for the nesting limit (parenthesised arguments nested deeper
than `Profile.maxDepth` = the code's `MAX_DEPTH`): the code answers with an error marker, see
`wantPrefix`; `outside-wf` otherwise -/
def classOf (P : Profile) (ast : List Pat) : String :=
  if wfB P ast then "wf" else if wfPats P.wordBits false ast then "too-deep" else "outside-wf"

/-- what the code is specified to do beyond the nesting limit (`C09_depth_limit`, and C11's "errors
surface as markers"): the top-level elements before the first one that goes too deep render as
usual, then `{ERROR: expected '}'}` (the rest of the pattern is swallowed) -/
def wantPrefix (P : Profile) (ast : List Pat) : List Pat × Bool :=
  if depthPats ast ≤ P.maxDepth then (ast, false)
  else (okPrefix P ast, true)

mutual
/-- (format, zone) requests of all date formatters, any depth -/
def dateReqs : Pat → List (List Char × Bool)
  | .date _ args _ => [dateRequest args]
  | .group _ _ body _ => dateReqsL body
  | _ => []
def dateReqsL : List Pat → List (List Char × Bool)
  | [] => []
  | p :: ps => dateReqs p ++ dateReqsL ps
end

/-- the same format text is asked for in both zones -/
def sameFormatBothZones (ast : List Pat) : Bool :=
  let rs := dateReqsL ast
  rs.any (fun (f, z) => rs.any (fun (f', z') => f = f' && z ≠ z'))

mutual
/-- the meaning of a pattern outside `DatesOk`: a date formatter whose format chrono rejects (the
construction-time trial rendering, `Build.dateOk`) renders its error marker — no spec applied, the
chunk `dateChunkOf` builds is `.error (eInvalidDateFormat fmt)` —, everything else as `denotePat` -/
def denotePatRej (B : Build) (env : Env) (r : Record) : Pat → List Char
  | .date long args spec =>
    if B.dateOk (dateRequest args).1 then denotePat env r (.date long args spec)
    else errorMarker (eInvalidDateFormat (dateRequest args).1)
  | .group k _ body spec =>
    applySpec spec (match k with
      | .align => denotePatsRej B env r body
      | .highlight => denotePatsRej B env r body
      | .debug => if env.debugBuild then denotePatsRej B env r body else []
      | .release => if env.debugBuild then [] else denotePatsRej B env r body)
  | p => denotePat env r p
def denotePatsRej (B : Build) (env : Env) (r : Record) : List Pat → List Char
  | [] => []
  | p :: ps => denotePatRej B env r p ++ denotePatsRej B env r ps
end

/-! ### ITEM 3 families: `threads`, `tz-change`, `nodebug` (begin) -/

/-- environment of one encode of the new families: everything is an input reported per encode -/
def envFor (name : Option (List Char)) (tid pid : Nat) (mdc : List (List Char × List Char)) (debug : Bool)
    (dates : List (List Char × Bool × List Char)) : Env where
  strftimeOk _ := true
  dateText fmt utc := ((dates.find? (fun d => d.1 = fmt && d.2.1 = utc)).map (·.2.2)).getD []
  threadName := name
  threadId := tid
  pid := pid
  mdc := mdc
  debugBuild := debug

/-- the C11 model (parse + compile + encode) in one environment, rendered like the harness renders -/
def modelOpsIn (env : Env) (r : Record) (pattern : List Char) : String :=
  match parse C11.driverClass C11.profile pattern with
  | .ok ps =>
    match encList env r (compileL (C11.buildFor env) ps) with
    | .ok o => C11.renderOps false o
    | _ => "PANIC"
  | _ => "PANIC"

/-- the statement on one encode: text and style calls are the pattern's meaning in THAT encode's environment -/
def judgeOpsIn (env : Env) (r : Record) (ast : List Pat) (ops : String) : Option String :=
  match C11.implText ops, C11.implStyles ops with
  | some txt, some sty =>
    if txt ≠ denotePats env r ast then some "text"
    else if sty ≠ stylesPats env r ast then some "style calls"
    else none
  | _, _ => some ("outcome " ++ ops)

def nodebugClash (isNodebug debug : Bool) : Option String :=
  if isNodebug && debug then
    some "FAIL:an @nodebug case was executed by a binary with debug assertions;sig=C09/harness-nodebug-not-applied"
  else if !isNodebug && !debug then
    some "FAIL:a plain case was executed by a binary without debug assertions;sig=C09/harness-nodebug-not-applied"
  else none

def familyTags (ast : List Pat) (family : String) (isNodebug : Bool) : List String :=
  classOf C11.profile ast :: ("depth" ++ toString (min (depthOfL ast) 6)) :: family ::
    (featuresOfL ast).eraseDups ++ (if isNodebug then ["nodebug"] else [])

/-- per participant: name, tid, the operation streams of its encodes -/
def decParticipants : Nat → List String → Option (List (Option (List Char) × Nat × List String))
  | 0, [] => some []
  | n + 1, nm :: td :: o1 :: o2 :: rest => do
    let name ← decOpt decStr nm
    let tid ← decNat td
    let more ← decParticipants n rest
    pure ((name, tid, [o1, o2]) :: more)
  | _, _ => none

/-- `threads` family: one encoder shared by the main thread and k >= 2 simultaneously alive threads -/
def handleThreads (isNodebug : Bool) (cas obs : List String) : Answer :=
  match cas with
  | astField :: rest =>
    match decAst astField, C11.decCase (rest.take 9), rest.drop 10 with
    | some ast, some c, [namesF, msgsF, mdcsF] =>
      if showPats ast ≠ c.pattern then badCase "pattern is not the printed AST" else
      if !C11.classifiable c.pattern then badCase "character outside the sample table" else
      match mapM? (decOpt decStr) (decList ',' namesF), mapM? decStr (decList ',' msgsF),
            mapM? (fun m => mapM? C11.decKV (decList ',' m)) (splitOnChar '|' mdcsF) with
      | some names, some msgs, some mdcs =>
        if names.length < 2 || msgs.length ≠ names.length || mdcs.length ≠ names.length then badCase "threads arity" else
        -- what each participant should show: main first
        let wanted : List (Option (List Char) × List Char × List (List Char × List Char)) :=
          (c.thread, c.record.message, c.mdc) :: (names.zip (msgs.zip mdcs))
        let tags := familyTags ast "threads" isNodebug ++ ["threads" ++ toString wanted.length]
        match obs.flatMap (splitOnChar ' ') with
        | "threads" :: d :: p :: "PANIC:new" :: [] =>
          { model := "threads " ++ d ++ " " ++ p ++ " model-does-not-panic", spec := "FAIL:panic at construction;sig=C09/threads-panic", tags }
        | "threads" :: d :: p :: n :: partFields =>
          match decBool d, decNat p, decNat n with
          | some debug, some pid, some cnt =>
            match decParticipants cnt partFields with
            | none => badCase "threads observation"
            | some parts =>
              if parts.length ≠ wanted.length then badCase "threads count" else
              let judged := (parts.zip wanted).map (fun ((_, tid, opss), (wname, wmsg, wmdc)) =>
                let env := envFor wname tid pid wmdc debug []
                let r : Record := { c.record with message := wmsg }
                let m := modelOpsIn env r c.pattern
                let bad := opss.filterMap (judgeOpsIn env r ast)
                (encOpt encStr wname ++ " " ++ toString tid ++ " " ++ " ".intercalate (opss.map (fun _ => m)), bad))
              let model := "threads " ++ d ++ " " ++ p ++ " " ++ n ++ " " ++ " ".intercalate (judged.map (·.1))
              let tids := parts.map (·.2.1)
              let namesSeen := parts.map (·.1)
              let spec :=
                match nodebugClash isNodebug debug with
                | some e => e
                | none =>
                  if tids.eraseDups.length ≠ tids.length then
                    "FAIL:the simultaneously alive threads do not report pairwise distinct thread ids;sig=C09/harness-threads"
                  else if namesSeen ≠ wanted.map (·.1) then
                    "FAIL:the threads do not carry the names of the case;sig=C09/harness-threads"
                  else match (judged.map (·.2)).flatten with
                    | [] => "ok"
                    | what :: _ =>
                      "FAIL:an encode on one of several threads sharing the encoder does not show that thread's own environment (" ++
                        what ++ ");sig=C09/thread-env-confused"
              { model, spec, tags }
          | _, _, _ => badCase "threads facts"
        | _ => badCase "threads observation"
      | _, _, _ => badCase "threads fields"
    | _, _, _ => badCase "threads case"
  | [] => badCase "arity"

def decDate3 (s : String) : Option (List Char × Bool × List Char) :=
  match splitOnChar ';' s with
  | [f, u, t] => do pure ((← decStr f), (← decBool u), (← decStr t))
  | _ => none

/-- `tz-change` family: the local zone changes between two encodes of one encoder; each encode is judged against
the date texts (offset-only formats) chrono gave the harness right after THAT encode -/
def handleTz (isNodebug : Bool) (cas obs : List String) : Answer :=
  match cas with
  | astField :: rest =>
    match decAst astField, C11.decCase (rest.take 9), rest.drop 9 with
    | some ast, some c, [marker] =>
      if showPats ast ≠ c.pattern then badCase "pattern is not the printed AST" else
      if !C11.classifiable c.pattern then badCase "character outside the sample table" else
      match splitOnChar ':' marker with
      | ["tz", z1, z2, mode] =>
        match decStr z1, decStr z2 with
        | some _, some _ =>
          let tags := familyTags ast "tz-change" isNodebug ++ [if mode = "s" then "tz-same-thread" else "tz-fresh-thread"]
          match obs.flatMap (splitOnChar ' ') with
          | ["tz", d, p, t1, o1, ops1, ds1, t2, o2, ops2, ds2] =>
            match decBool d, decNat p, decNat t1, decNat t2,
                  mapM? decDate3 (decList ',' ds1), mapM? decDate3 (decList ',' ds2) with
            | some debug, some pid, some tid1, some tid2, some dates1, some dates2 =>
              let env1 := envFor c.thread tid1 pid c.mdc debug dates1
              let env2 := envFor c.thread tid2 pid c.mdc debug dates2
              let head := "tz " ++ d ++ " " ++ p ++ " "
              let model := head ++ t1 ++ " " ++ o1 ++ " " ++ modelOpsIn env1 c.record c.pattern ++ " " ++ ds1 ++ " " ++
                t2 ++ " " ++ o2 ++ " " ++ modelOpsIn env2 c.record c.pattern ++ " " ++ ds2
              let missing := (allDatesPats ast).any (fun fm =>
                [dates1, dates2].any (fun ds => [false, true].any (fun u => !(ds.any (fun e => e.1 = fm && e.2.1 = u)))))
              let spec :=
                match nodebugClash isNodebug debug with
                | some e => e
                | none =>
                  if o1 = o2 then
                    "FAIL:the local offset did not change between the two encodes (zone change not applied);sig=C09/harness-tz-change"
                  else if missing then
                    "FAIL:a date format of the pattern has no fact;sig=C09/harness-tz-change"
                  else match judgeOpsIn env1 c.record ast ops1, judgeOpsIn env2 c.record ast ops2 with
                    | none, none => "ok"
                    | some what, _ =>
                      "FAIL:the first encode does not show the local offset in force at that encode (" ++ what ++ ");sig=C09/local-offset-stale"
                    | none, some what =>
                      "FAIL:the encode after the zone change does not show the local offset in force at that encode (" ++ what ++
                        ");sig=C09/local-offset-stale"
              { model, spec, tags }
            | _, _, _, _, _, _ => badCase "tz facts"
          | "tz" :: w :: _ =>
            { model := "tz model-ran-to-the-end", spec := "FAIL:the child process of a zone-change case ended with " ++ w ++ ";sig=C09/tz-change-outcome", tags }
          | _ => badCase "tz observation"
        | _, _ => badCase "tz zones"
      | _ => badCase "tz marker"
    | _, _, _ => badCase "tz case"
  | [] => badCase "arity"

/-! ### ITEM 3 families (end) -/

def handle : Handler := fun cas obs =>
  -- ITEM 3 families: a trailing `@nodebug` routes the case to the build without debug assertions; the
  -- `threads` and `tz-change` families carry their marker in the eleventh field
  let isNodebug := cas.getLast? = some "@nodebug"
  let cas := if isNodebug then cas.dropLast else cas
  if cas.length = 14 && cas[10]? = some "threads" then handleThreads isNodebug cas obs else
  if cas.length = 11 && ((cas[10]?).map (·.startsWith "tz:")).getD false then handleTz isNodebug cas obs else
  -- the fork family carries a marker field after the case and ` fork <pid> <tid> <ops>` after the
  -- parent's observation
  let isFork := cas.getLast? = some "fork"
  let cas := if isFork then cas.dropLast else cas
  match cas with
  | astField :: rest =>
    match decAst astField, C11.decCase rest with
    | some ast, some c =>
      if showPats ast ≠ c.pattern then badCase "pattern is not the printed AST" else
      let parts := obs.flatMap (splitOnChar ' ')
      let (parts, forkPart) :=
        if isFork then (parts.takeWhile (· ≠ "fork"), (parts.dropWhile (· ≠ "fork")).drop 1) else (parts, [])
      match parts with
      | implOutcome :: implOps :: factFields =>
        match C11.decFacts factFields with
        | none => badCase "facts"
        | some f =>
          if !C11.classifiable c.pattern then badCase "character outside the sample table" else
          let env := C11.envOf c f
          let model := C11.modelObs c f
          let build := C11.buildFor env
          let itemsRejected := (allDatesPats ast).any (fun fm => !build.dateOk fm)
          let cls := classOf C11.profile ast
          let (astOk, cut) := wantPrefix C11.profile ast
          let depthTag :=
            if cut then "depth>limit"
            else if depthPats ast + 1 ≥ C11.profile.maxDepth then "depth-at-limit"
            else "depth" ++ toString (min (depthOfL ast) 6)
          let bothZones := sameFormatBothZones ast
          let feats := (featuresOfL ast).eraseDups ++
            (if hasDoubledCloseInArgL false ast then ["doubled-close-paren-in-arg"] else []) ++
            (if bothZones then ["same-format-both-zones"] else []) ++
            (if isFork then ["fork"] else [])
          let tags := cls :: depthTag :: feats ++
            (if hasEmptyMdcArgL ast then ["mdc-empty-arg"] else []) ++
            (if itemsRejected then ["date-format-rejected"] else []) ++
            (if feats.isEmpty then ["trivial"] else [])
          let sigOf (what : String) : String :=
            if hasEmptyMdcArgL ast then "C09/mdc-empty-argument" else
            if cls = "wf" then "C09/" ++ what else if cls = "too-deep" then "C09/" ++ what ++ "-beyond-nesting-limit" else "C09/" ++ cls
          let spec :=
            if f.tzOffset = 0 then
              "FAIL:the exec process runs with local zone = UTC (harness zone not applied);sig=C09/harness-local-zone-is-utc"
            else if implOutcome.startsWith "PANIC" then
              let bad := (datesPats env ast).any (fun (fm, _) => !env.strftimeOk fm)
              if bad then "FAIL:panic at encode;sig=C09/invalid-strftime" else "FAIL:panic;sig=" ++ sigOf "panic"
            else if implOutcome = "ok" then
              match C11.implText implOps, C11.implStyles implOps with
              | some txt, some sty =>
                -- exact comparison (dates included: rendered by chrono at the instant of the encode)
                let want := denotePats env c.record astOk ++ (if cut then errorMarker eExpectedClose else [])
                if itemsRejected && !cut then
                  -- outside `DatesOk`: the rejected formatter renders its marker, the rest as specified
                  if txt ≠ denotePatsRej build env c.record ast then
                    "FAIL:text differs from the pattern's meaning (a rejected date format renders its error marker, everything else as specified);sig=" ++ sigOf "meaning-date-rejected"
                  else if sty ≠ stylesPats env c.record ast then "FAIL:style calls;sig=" ++ sigOf "styles"
                  else "ok"
                else if txt ≠ want then
                  -- each date formatter renders its own zone
                  if bothZones then "FAIL:text differs from the pattern's meaning (same format in both zones);sig=C09/date-zone-confused"
                  else "FAIL:text differs from the pattern's meaning;sig=" ++ sigOf "meaning"
                else if sty ≠ stylesPats env c.record astOk then "FAIL:style calls;sig=" ++ sigOf "styles"
                else "ok"
              | _, _ => "FAIL:unreadable operation stream;sig=C09/ops"
            else "FAIL:outcome " ++ implOutcome ++ ";sig=" ++ sigOf "outcome"
          -- nodebug family: the debug-profile fact must be the one the case's routing asks for
          let spec := (nodebugClash isNodebug f.debug).getD spec
          let tags := tags ++ (if isNodebug then ["nodebug"] else [])
          if !isFork then { model, spec, tags } else
          -- the child's encode: same pattern, same record, the child's own pid
          match forkPart with
          | [cp, ct, cops] =>
            match decNat cp, decNat ct with
            | some cpid, some ctid =>
              let fc : C11.Facts := { f with pid := cpid, tid := ctid }
              let envC := C11.envOf c fc
              let childModel :=
                match encList envC c.record (compileL (C11.buildFor envC) ((match parse C11.driverClass C11.profile c.pattern with | .ok ps => ps | _ => []))) with
                | .ok o => C11.renderOps false o
                | _ => "PANIC"
              let model := model ++ " fork " ++ cp ++ " " ++ ct ++ " " ++ childModel
              let specFork :=
                if spec ≠ "ok" then spec
                else if cpid = f.pid then "FAIL:the child reports the parent's pid (fork did not happen);sig=C09/harness-fork"
                else match C11.implText cops with
                  | some txt =>
                    if txt = denotePats envC c.record ast then "ok"
                    else "FAIL:the child's rendering does not show the child's environment;sig=C09/pid-stale-after-fork"
                  | none => "FAIL:child outcome " ++ cops ++ ";sig=C09/fork-child-outcome"
              { model, spec := specFork, tags }
            | _, _ => badCase "fork pids"
          | _ => badCase "fork observation"
      | _ => badCase "observation"
    | none, _ => badCase "ast"
    | _, none => badCase "case"
  | [] => badCase "arity"

end Driver.C09
