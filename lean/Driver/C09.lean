import Driver.Common
import Driver.C11
import Log4rsModel.Pattern.Ast
/-
C09 driver. The case carries the pattern AST as a prefix token list and the pattern string the
harness printed from it; the driver prints the AST with `showPats` and refuses the case when the
strings differ. Model observation: the C11 model run on the pattern string. Spec verdict: the
implementation's text and style calls against `denotePats` / `stylesPats` of the AST.
-/
namespace Driver.C09
open Log4rs Log4rs.Proto Log4rs.Pattern Log4rs.Pattern.Parse Driver

def decEsc (s : String) : Option Esc :=
  if s = "p" then some .plain else if s = "d" then some .doubled else if s = "b" then some .backslash else none

def decChar (h : String) : Option Char :=
  match hexNat? h with
  | some n => if h : n.isValidChar then some (Char.ofNatAux n h) else none
  | none => none

def decLit (t : String) : Option Lit :=
  match splitOnChar ':' (t.drop 1).toString with
  | [h, e] => do pure { c := (← decChar h), esc := (← decEsc e) }
  | _ => none

def decDigit (c : Char) : Option (Fin 10) :=
  if h : '0'.toNat ≤ c.toNat ∧ c.toNat - '0'.toNat < 10 then some ⟨c.toNat - '0'.toNat, h.2⟩ else none

def decDigits (s : String) : Option (Option Digits) :=
  if s = "-" then some none else (mapM? decDigit s.toList).map some

def decSpec (t : String) : Option (Option FormatSpec) :=
  if t = "s~" then some none else
  match splitOnChar ':' (t.drop 1).toString with
  | [f, a, mn, mx] => do
    let fill ← decOpt decChar f
    let align ← if a = "-" then some none else if a = "l" then some (some false) else if a = "r" then some (some true) else none
    let minW ← decDigits mn
    let maxW ← decDigits mx
    pure (some { fill, align, minW, maxW })
  | _ => none

def decLeafKind (s : String) : Option LeafKind :=
  match s with
  | "level" => some .level | "message" => some .message | "module" => some .module
  | "file" => some .file | "line" => some .line | "thread" => some .thread
  | "threadId" => some .threadId | "pid" => some .pid | "tid" => some .tid
  | "target" => some .target | "newline" => some .newline
  | _ => none

def decGroupKind (s : String) : Option GroupKind :=
  match s with
  | "a" => some .align | "h" => some .highlight | "d" => some .debug | "r" => some .release
  | _ => none

/-- `[` lits `]` -/
def decLitsAux : List String → List Lit → Option (List Lit × List String)
  | [], _ => none
  | t :: rest, acc =>
    if t = "]" then some (acc.reverse, rest)
    else match decLit t with
      | some l => decLitsAux rest (l :: acc)
      | none => none

def decLits (ts : List String) : Option (List Lit × List String) :=
  match ts with
  | t :: rest => if t = "[" then decLitsAux rest [] else none
  | [] => none

/-- pats until `)` or the end; the rest starts at the `)` -/
def decPats : Nat → List String → Option (List Pat × List String)
  | 0, _ => none
  | _ + 1, [] => some ([], [])
  | f + 1, t :: rest =>
    if t = ")" then some ([], t :: rest)
    else if t.startsWith "L" then do
      let l ← decLit t
      let (ps, r) ← decPats f rest
      pure (.lit l :: ps, r)
    else
      match rest with
      | [] => none
      | st :: rest =>
        match decSpec st with
        | none => none
        | some spec =>
          let hd := splitOnChar ':' (t.drop 1).toString
          if t.startsWith "F" then
            match hd with
            | [k, l] => do
              let k ← decLeafKind k
              let long ← decBool l
              let (ps, r) ← decPats f rest
              pure (.leaf k long spec :: ps, r)
            | _ => none
          else if t.startsWith "D" then
            match hd with
            | [l, mode, z] => do
              let long ← decBool l
              let utc ← decBool z
              if mode = "0" then
                let (ps, r) ← decPats f rest
                pure (.date long none spec :: ps, r)
              else
                let (fm, rest) ← decLits rest
                let zone ← if mode = "1" then some none else if mode = "2" then some (some utc) else none
                let (ps, r) ← decPats f rest
                pure (.date long (some (fm, zone)) spec :: ps, r)
            | _ => none
          else if t.startsWith "X" then
            match hd with
            | [l, d] => do
              let long ← decBool l
              let hasD ← decBool d
              let (key, rest) ← decLits rest
              if hasD then
                let (dflt, rest) ← decLits rest
                let (ps, r) ← decPats f rest
                pure (.mdc long key (some dflt) spec :: ps, r)
              else
                let (ps, r) ← decPats f rest
                pure (.mdc long key none spec :: ps, r)
            | _ => none
          else if t.startsWith "G" then
            match hd, rest with
            | [k, l], op :: rest => do
              let k ← decGroupKind k
              let long ← decBool l
              if op ≠ "(" then none else
              let (body, rest) ← decPats f rest
              match rest with
              | cl :: rest =>
                if cl ≠ ")" then none else
                let (ps, r) ← decPats f rest
                pure (.group k long body spec :: ps, r)
              | [] => none
            | _, _ => none
          else none

def decAst (s : String) : Option (List Pat) :=
  let toks := decList ',' s
  match decPats (toks.length + 1) toks with
  | some (ps, []) => some ps
  | _ => none

/-! classification of an AST outside `WF` (the input classes of the findings) -/

def doubledClose (l : Lit) : Bool := l.c == ')' && l.esc == .doubled

mutual
/-- a doubled `)` inside a parenthesised argument -/
def hasDoubledCloseInArg (inArg : Bool) : Pat → Bool
  | .lit l => inArg && doubledClose l
  | .date _ (some (f, _)) _ => f.any doubledClose
  | .mdc _ key dflt _ => key.any doubledClose || (match dflt with | some d => d.any doubledClose | none => false)
  | .group _ _ body _ => hasDoubledCloseInArgL true body
  | _ => false
def hasDoubledCloseInArgL (inArg : Bool) : List Pat → Bool
  | [] => false
  | p :: ps => hasDoubledCloseInArg inArg p || hasDoubledCloseInArgL inArg ps
end

mutual
def depthOf : Pat → Nat
  | .group _ _ body _ => depthOfL body + 1
  | _ => 0
def depthOfL : List Pat → Nat
  | [] => 0
  | p :: ps => max (depthOf p) (depthOfL ps)
end

mutual
def featuresOf : Pat → List String
  | .lit l => if l.esc == .plain then [] else [if l.esc == .doubled then "esc-doubled" else "esc-backslash"]
  | .leaf k long spec => (if long then ["alias"] else []) ++ (if spec.isSome then ["spec"] else []) ++
      (if k == .threadId && long then ["thread_id"] else [])
  | .date long args spec => "date" :: (if long then ["alias"] else []) ++ (if spec.isSome then ["spec"] else []) ++
      (match args with | some (_, some _) => ["zone"] | _ => [])
  | .mdc long key dflt spec => "mdc" :: (if long then ["alias"] else []) ++ (if spec.isSome then ["spec"] else []) ++
      (if dflt.isSome then ["mdc-default"] else []) ++
      (if key.any (fun l => l.esc != .plain) || (match dflt with | some d => d.any (fun l => l.esc != .plain) | none => false)
        then ["mdc-escaped"] else [])
  | .group k long body spec =>
    (match k with | .align => "unnamed" | .highlight => "highlight" | .debug => "debug" | .release => "release") ::
      (if long then ["alias"] else []) ++ (if spec.isSome then ["spec"] else []) ++ featuresOfL body
def featuresOfL : List Pat → List String
  | [] => []
  | p :: ps => featuresOf p ++ featuresOfL ps
end

def classOf (bits : Nat) (ast : List Pat) : String :=
  if wfPats bits false ast then "wf" else "outside-wf"

mutual
/-- (format, zone) requests of all date formatters, any depth -/
def dateReqs : Pat → List (List Char × Bool)
  | .date _ args _ => [dateRequest args]
  | .group _ _ body _ => dateReqsL body
  | _ => []
def dateReqsL : List Pat → List (List Char × Bool)
  | [] => []
  | p :: ps => dateReqs p ++ dateReqsL ps
end

/-- the same format text is asked for in both zones -/
def sameFormatBothZones (ast : List Pat) : Bool :=
  let rs := dateReqsL ast
  rs.any (fun (f, z) => rs.any (fun (f', z') => f = f' && z ≠ z'))

def handle : Handler := fun cas obs =>
  -- the fork family carries a marker field after the case and ` fork <pid> <tid> <ops>` after the
  -- parent's observation
  let isFork := cas.getLast? = some "fork"
  let cas := if isFork then cas.dropLast else cas
  match cas with
  | astField :: rest =>
    match decAst astField, C11.decCase rest with
    | some ast, some c =>
      if showPats ast ≠ c.pattern then badCase "pattern is not the printed AST" else
      let parts := obs.flatMap (splitOnChar ' ')
      let (parts, forkPart) :=
        if isFork then (parts.takeWhile (· ≠ "fork"), (parts.dropWhile (· ≠ "fork")).drop 1) else (parts, [])
      match parts with
      | implOutcome :: implOps :: factFields =>
        match C11.decFacts factFields with
        | none => badCase "facts"
        | some f =>
          if !C11.classifiable c.pattern then badCase "character outside the sample table" else
          let env := C11.envOf c f
          let model := C11.modelObs c f
          let build := Build.current env
          let itemsRejected := (allDatesPats ast).any (fun fm => !build.dateOk fm)
          let cls := classOf C11.profile.wordBits ast
          let bothZones := sameFormatBothZones ast
          let feats := (featuresOfL ast).eraseDups ++
            (if hasDoubledCloseInArgL false ast then ["doubled-close-paren-in-arg"] else []) ++
            (if bothZones then ["same-format-both-zones"] else []) ++
            (if isFork then ["fork"] else [])
          let tags := cls :: ("depth" ++ toString (min (depthOfL ast) 6)) :: feats ++
            (if f.masked then ["masked"] else []) ++
            (if itemsRejected then ["date-format-rejected"] else []) ++
            (if feats.isEmpty then ["trivial"] else [])
          let sigOf (what : String) : String :=
            if cls = "wf" then "C09/" ++ what else "C09/" ++ cls
          let spec :=
            if f.tzOffset = 0 then
              "FAIL:the exec process runs with local zone = UTC (harness zone not applied);sig=C09/harness-local-zone-is-utc"
            else if implOutcome.startsWith "PANIC" then
              let bad := (datesPats env ast).any (fun (fm, _) => !env.strftimeOk fm)
              if bad then "FAIL:panic at encode;sig=C09/invalid-strftime" else "FAIL:panic;sig=" ++ sigOf "panic"
            else if implOutcome = "ok" then
              match C11.implText implOps, C11.implStyles implOps with
              | some txt, some sty =>
                let want := C11.maskDigits f.masked (denotePats env c.record ast)
                if itemsRejected then "ok"   -- outside `DatesOk`: C11's territory
                else if txt ≠ want then
                  -- each date formatter renders its own zone
                  if bothZones then "FAIL:text differs from the pattern's meaning (same format in both zones);sig=C09/date-zone-confused"
                  else "FAIL:text differs from the pattern's meaning;sig=" ++ sigOf "meaning"
                else if sty ≠ stylesPats env c.record ast then "FAIL:style calls;sig=" ++ sigOf "styles"
                else "ok"
              | _, _ => "FAIL:unreadable operation stream;sig=C09/ops"
            else "FAIL:outcome " ++ implOutcome ++ ";sig=" ++ sigOf "outcome"
          if !isFork then { model, spec, tags } else
          -- the child's encode: same pattern, same record, the child's own pid
          match forkPart with
          | [cp, ct, cops] =>
            match decNat cp, decNat ct with
            | some cpid, some ctid =>
              let fc : C11.Facts := { f with pid := cpid, tid := ctid }
              let envC := C11.envOf c fc
              let childModel :=
                match encList envC c.record (compileL (Build.current envC) ((match parse C11.driverClass C11.profile c.pattern with | .ok ps => ps | _ => []))) with
                | .ok o => C11.renderOps false o
                | _ => "PANIC"
              let model := model ++ " fork " ++ cp ++ " " ++ ct ++ " " ++ childModel
              let specFork :=
                if spec ≠ "ok" then spec
                else if cpid = f.pid then "FAIL:the child reports the parent's pid (fork did not happen);sig=C09/harness-fork"
                else match C11.implText cops with
                  | some txt =>
                    if txt = denotePats envC c.record ast then "ok"
                    else "FAIL:the child's rendering does not show the child's environment;sig=C09/pid-stale-after-fork"
                  | none => "FAIL:child outcome " ++ cops ++ ";sig=C09/fork-child-outcome"
              { model, spec := specFork, tags }
            | _, _ => badCase "fork pids"
          | _ => badCase "fork observation"
      | _ => badCase "observation"
    | none, _ => badCase "ast"
    | _, none => badCase "case"
  | [] => badCase "arity"

end Driver.C09
