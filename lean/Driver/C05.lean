import Driver.Common
namespace Driver.C05
open Driver

def handle : Handler := fun _ _ => badCase "unimplemented"

end Driver.C05
