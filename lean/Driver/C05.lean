import Driver.Common
import Driver.C04
import Log4rsModel.Rolling.Model
import Log4rsModel.Rolling.Spec
/-
Driver for the rolling appender; the case format is shared by C05, C06 and C17.

  seq  <mode a|t> <preActive: - | size> <preArchives: `,`-joined idx:size> <trigger> <roller> <clock0> <ops>
  conc <mode> <preActive> <preArchives> <trigger> <roller> <clock0> <amplifier> <threads `|`-joined record lists>
  seqx <mode a|t> <pre: - | hex bytes> <ops> [pre|post]   C04's `seq` language (`Driver/C04.lean`) on rolling appenders whose
                                                          trigger always answers false (consulted before / after the write): `handleSeqx`

  trigger = size:N | startup:M | time:<s|m>:<n>:<modulate 0|1> | spre:<answers> | spost:<answers>
            (answers: a word over y n e, `-` = empty script; exhausted script answers n)
  roller  = delete | fw:<base>:<count>:<pattern 0..4>
  ops     = `,`-joined:  record | r (restart) | c<dt> (clock advances) | f<k>!record (step k of the rotation fails)
            | g!record (the roller does its work and then reports Err) | e<n>!record (the encoder fails after n slices)
  pre-existing content: active = genBytes 999000 size, archive idx = genBytes (998000+idx) size
  patterns: 0 app.log.{}   1 arch/app.{}.log   2 app.log.{}.gz   3 arch/{}/app.log.zst   4 app.{}.{}.log

observation
  seq : `,`-joined, first the state after build, then one entry per op:  <res>!<consult>!<calls>!<snapshot>
        calls = number of `Roll::roll` invocations during the op (counted by the harness's roller wrapper)
        res = ok | err | PANIC | - ; consult = <shown>=<actual> | - ; snapshot = `;`-joined name=hex (sorted), `~` if empty
  conc: <acks `|`-joined per thread>!<calls>!<snapshot>
-/
namespace Driver.C05
open Log4rs.Proto Log4rs.Rolling Driver
open Log4rs.Roller (Disk Path RollerCfg deleteRoll fixedWindowRoll FsErr)
open Driver.C04 (genBytes decRec RecSpec hex recBytes dedup)

inductive TrigSpec where
  | size (n : Nat)
  | startup (m : Nat)
  | time (c : TimeCfg)
  | scripted (pre : Bool) (answers : List TrigAns)
  deriving Repr

inductive RollSpec where
  | delete
  | fw (base count pat : Nat)
  deriving Repr

def activePath : Path := "app.log".toList

def patName (pat i : Nat) : Path :=
  let d := toString i
  (match pat with
   | 0 => "app.log." ++ d
   | 1 => "arch/app." ++ d ++ ".log"
   | 2 => "app.log." ++ d ++ ".gz"
   | 3 => "arch/" ++ d ++ "/app.log.zst"
   | _ => "app." ++ d ++ "." ++ d ++ ".log").toList

def rollerCfg (base count pat : Nat) : RollerCfg :=
  { nameOf := patName pat, base, count,
    comp := if pat = 2 then .gzip else if pat = 3 then .zstd else .none, codec := id }

/-- fault index used for "the roller does all its work and then reports `Err`" (the harness's
roller wrapper fails once after the real roller returned `Ok`) -/
def LATE : Nat := 1000000

/-- the rollers as the code has them: the delete roller, and the fixed-window roller whose
compressing final step has three sub-steps (`fixedWindowRollC`, fault index `count` = the
`remove_file(src)` sub-step) -/
def rollFnPlain : RollSpec → RollFn
  | .delete => fun p f d => deleteRoll p f d
  | .fw b c pat => fun p f d => fixedWindowRollC compressLeavesCopyDefault (rollerCfg b c pat) p f d

def rollFn (rs : RollSpec) : RollFn := lateRoll (rollFnPlain rs) LATE

/-- every roller can be made to fail: fixed window through `rotate_point`, the delete roller and
`count = 0` through the harness's roller wrapper (fault index 0 = `remove_file` fails) -/
def RollSpec.hasHook : RollSpec → Bool := fun _ => true

/-- the fault hits the `remove_file(src)` sub-step of a compressing rotation -/
def RollSpec.isCompressFault (rs : RollSpec) (k : Nat) : Bool :=
  match rs with
  | .fw _ c pat => c > 0 && (pat == 2 || pat == 3) && k == c
  | .delete => false

def decAnswers (s : String) : Option (List TrigAns) :=
  if s = "-" then some [] else
  mapM? (fun c => if c = 'y' then some TrigAns.yes else if c = 'n' then some .no else if c = 'e' then some .err else none) s.toList

def decTrig (s : String) : Option TrigSpec :=
  match splitOnChar ':' s with
  | ["size", n] => (decNat n).map .size
  | ["startup", m] => (decNat m).map .startup
  | ["time", u, n, m] =>
    match (if u = "s" then some 1 else if u = "m" then some 60 else none), decNat n, decBool m with
    | some unit, some n, some modulate => some (.time { unit, n, modulate })
    | _, _, _ => none
  | ["spre", a] => (decAnswers a).map (.scripted true)
  | ["spost", a] => (decAnswers a).map (.scripted false)
  | _ => none

def decRoll (s : String) : Option RollSpec :=
  match splitOnChar ':' s with
  | ["delete"] => some .delete
  | ["fw", b, c, p] =>
    match decNat b, decNat c, decNat p with
    | some b, some c, some p => if p ≤ 4 then some (.fw b c p) else none
    | _, _, _ => none
  | _ => none

structure OpSpec where
  op : Op
  rec? : Option RecSpec
  /-- `some n`: the encoder fails after `n` slices (the op is then run as `XOp.appendFail`) -/
  fail : Option Nat := none
  deriving Repr

def OpSpec.xop (o : OpSpec) : XOp :=
  match o.fail, o.op with
  | some n, .append r f => .appendFail r n f
  | _, op => .op op

/-- a failing encoder that has written something -/
def OpSpec.torn (o : OpSpec) : Bool :=
  match o.fail, o.rec? with
  | some n, some r => !(r.chunks.take n).flatten.isEmpty
  | _, _ => false

def decOp (hook : Bool) (s : String) : Option OpSpec :=
  if s = "r" then some { op := .restart, rec? := none } else
  match s.toList with
  | 'c' :: ds => ((String.ofList ds).toNat?).map (fun dt => { op := .tick dt, rec? := none })
  | 'f' :: rest =>
    match splitOnChar '!' (String.ofList rest) with
    | [k, r] =>
      match decNat k, decRec r with
      | some k, some r => some { op := .append r.chunks (if hook then some k else none), rec? := some r }
      | _, _ => none
    | _ => none
  -- `F<k>!rec`: the same fault, produced by a really full disk (EFBIG on every write from step k on)
  -- instead of an injected `Err`; generated only where k is the compressing final step
  | 'F' :: rest =>
    match splitOnChar '!' (String.ofList rest) with
    | [k, r] =>
      match decNat k, decRec r with
      | some k, some r => some { op := .append r.chunks (if hook then some k else none), rec? := some r }
      | _, _ => none
    | _ => none
  | 'g' :: '!' :: rest => (decRec (String.ofList rest)).map (fun r => { op := .append r.chunks (some LATE), rec? := some r })
  | 'e' :: rest =>
    match splitOnChar '!' (String.ofList rest) with
    | [n, r] =>
      match decNat n, decRec r with
      | some n, some r => some { op := .append r.chunks none, rec? := some r, fail := some n }
      | _, _ => none
    | _ => none
  | _ => (decRec s).map (fun r => { op := .append r.chunks none, rec? := some r })

structure Case where
  appendMode : Bool
  preActive : Option Nat
  preArch : List (Nat × Nat)
  trig : TrigSpec
  roll : RollSpec
  clock0 : Nat

def decPreArch (s : String) : Option (List (Nat × Nat)) :=
  mapM? (fun e => match splitOnChar ':' e with
    | [i, n] => match decNat i, decNat n with
      | some i, some n => some (i, n)
      | _, _ => none
    | _ => none) (decList ',' s)

def decCase (mS preS archS trigS rollS clockS : String) : Option Case :=
  match (if mS = "a" then some true else if mS = "t" then some false else none),
        decOpt decNat preS, decPreArch archS, decTrig trigS, decRoll rollS, decNat clockS with
  | some appendMode, some preActive, some preArch, some trig, some roll, some clock0 =>
    some { appendMode, preActive, preArch, trig, roll, clock0 }
  | _, _, _, _, _, _ => none

def preActiveBytes (n : Nat) : Bytes := genBytes 999000 n
def preArchBytes (idx n : Nat) : Bytes := genBytes (998000 + idx) n

def Case.archName (c : Case) (i : Nat) : Path :=
  match c.roll with
  | .fw _ _ pat => patName pat i
  | .delete => patName 0 i

def Case.disk0 (c : Case) : Disk :=
  let d := c.preArch.foldl (fun d (i, n) => d.set (c.archName i) (preArchBytes i n)) Disk.empty
  match c.preActive with
  | some n => d.set activePath (preActiveBytes n)
  | none => d

/-- (base, count) of the retention window; the delete roller keeps nothing -/
def Case.window (c : Case) : Nat × Nat :=
  match c.roll with
  | .fw b n _ => (b, n)
  | .delete => (0, 0)

/-- run the model: the state after build, then after every op -/
def Case.trace (c : Case) (ops : List XOp) : List (Option Out × Disk) :=
  let d0 := c.disk0
  let go {σ : Type} (trig : Trigger σ) (t0 : σ) : List (Option Out × Disk) :=
    let cfg : Cfg σ := { path := activePath, appendMode := c.appendMode, trig, roll := rollFn c.roll }
    let s0 := init cfg d0 t0 c.clock0
    (none, s0.disk) :: (Log4rs.Rolling.traceX cfg s0 ops).map (fun (o, s) => (o, s.disk))
  match c.trig with
  | .size n => go (sizeTrigger n) ()
  | .startup m => go (onStartupTrigger m) false
  | .time tc => go (timeTrigger tc) 0
  | .scripted pre ans => go (scriptedTrigger pre) ans

def renderSnap (files : List (Path × Bytes)) : String :=
  let named := files.map (fun (p, b) => (String.ofList p, b))
  let sorted := (named.toArray.qsort (fun a b => a.1 < b.1)).toList
  encList ";" (sorted.map (fun (n, b) => n ++ "=" ++ hex b))

def renderRes : Option Out → String
  | none => "-"
  | some o => if o.res = .ok then "ok" else "err"

def renderConsult : Option Out → String
  | some { consult := some (a, b), .. } => toString a ++ "=" ++ toString b
  | _ => "-"

/-- how often the roller is invoked by the op: once iff the trigger fired -/
def callsOf : Option Out → Nat
  | some o => if o.rolled.isSome then 1 else 0
  | none => 0

def renderEntry (e : Option Out × Disk) : String :=
  renderRes e.1 ++ "!" ++ renderConsult e.1 ++ "!" ++ toString (callsOf e.1) ++ "!" ++ renderSnap e.2.files

/-! ### parsing the implementation's observation -/

structure ObsEntry where
  res : String
  consult : Option (Nat × Nat)
  snap : Spec.Snap
  snapS : String
  calls : Nat

def decSnap (s : String) : Option Spec.Snap :=
  mapM? (fun e => match splitOnChar '=' e with
    | [n, h] => (C04.decBytesBig h).map (fun b => (n.toList, b))
    | _ => none) (decList ';' s)

def decEntry (s : String) : Option ObsEntry :=
  match splitOnChar '!' s with
  | [res, cons, callsS, snap] =>
    let consult : Option (Option (Nat × Nat)) :=
      if cons = "-" then some none else
      match splitOnChar '=' cons with
      | [a, b] => match decNat a, decNat b with
        | some a, some b => some (some (a, b))
        | _, _ => none
      | _ => none
    match consult, decSnap snap, decNat callsS with
    | some consult, some snap', some calls => some { res, consult, snap := snap', snapS := snap, calls }
    | _, _, _ => none
  | _ => none

/-! ### C05 specification on the implementation's observation -/

/-- pre-existing contents that belong to the stream: archives inside the window (oldest first),
then the active file when the appender opens in append mode -/
def Case.preItems (c : Case) : List Spec.Item :=
  let (b, n) := c.window
  let arch := (c.preArch.filter (fun (i, _) => b ≤ i ∧ i < b + n)).toArray.qsort (fun x y => x.1 > y.1) |>.toList
  arch.map (fun (i, sz) => { bytes := preArchBytes i sz, must := true }) ++
    (match c.preActive, c.appendMode with
     | some sz, true => [{ bytes := preActiveBytes sz, must := true }]
     | _, _ => [])

def Case.files (c : Case) (snap : Spec.Snap) : List Bytes :=
  let (b, n) := c.window
  Spec.diskFiles c.archName b n activePath snap.get?

/-- walk the history. After every op (1) the retained files consist of whole items of the stream,
in stream order, each at most once, files ending at item boundaries (`suffixOfWhole`), and (2)
relative to the snapshot before the op nothing has disappeared except whole oldest files, at most
one per observed call of the roller (`stepOk` / `restartOk`) -/
def specC05Go (c : Case) : Nat → List Spec.Item → List Bytes → List OpSpec → List ObsEntry → Option String
  | _, _, _, [], [] => none
  | k, stream, prev, op :: ops, e :: es =>
    let cur := c.files e.snap
    let stream := match op.op, op.rec? with
      | .append _ _, some r => stream ++ [{ bytes := recBytes r.chunks, must := e.res = "ok" && op.fail.isNone }]
      | .restart, _ => if c.appendMode then stream else stream.map (fun it => { it with must := false })
      | _, _ => stream
    let step : Bool := match op.op, op.rec? with
      | .append _ _, some r =>
        if op.fail.isSome then e.res != "ok" && Spec.stepOk e.calls prev cur [] false
        else Spec.stepOk e.calls prev cur (recBytes r.chunks) (e.res = "ok")
      | .restart, _ => Spec.restartOk c.appendMode prev cur
      | _, _ => prev.flatten == cur.flatten
    if e.res = "PANIC" then some ("panic at op " ++ toString k)
    else if !step then
      some ("op " ++ toString k ++ " lost, duplicated or moved data: beyond whole oldest files (at most one per roller call, " ++
        toString e.calls ++ " observed) the retained bytes must be the previous ones followed by the record")
    else if Spec.suffixOfWhole stream cur then specC05Go c (k + 1) stream cur ops es
    else some ("after op " ++ toString k ++ " the retained files are not whole records of the stream in order")
  | k, _, _, _, _ => some ("observation arity at op " ++ toString k)

def trigKind : TrigSpec → String
  | .size _ => "size" | .startup _ => "startup" | .time _ => "time"
  | .scripted true _ => "user-pre" | .scripted false _ => "user-post"

def rollKind : RollSpec → String
  | .delete => "delete"
  | .fw _ c p => "fw-c" ++ toString (min c 4) ++ (if p = 2 then "-gz" else if p = 3 then "-zst" else "")

def Case.sig (c : Case) (pid : String) : String :=
  pid ++ "/" ++ (if c.appendMode then "append" else "truncate") ++ "-" ++ trigKind c.trig ++ "-" ++
    (match c.roll with | .delete => "delete" | .fw _ _ _ => "fixed-window")

def modelTags (c : Case) (ops : List OpSpec) (tr : List (Option Out × Disk)) : List String :=
  let outs := tr.filterMap (·.1)
  let rolls := (outs.filter (fun o => o.rolled = some true)).length
  let (_, cnt) := c.window
  dedup ([if c.appendMode then "append" else "truncate", "trig-" ++ trigKind c.trig, "roller-" ++ rollKind c.roll] ++
    (if c.preActive.isSome then ["pre-existing"] else []) ++
    (if !c.preArch.isEmpty then ["pre-archives"] else []) ++
    (if rolls > 0 then ["rolled"] else []) ++
    (if rolls > cnt ∧ rolls > 0 then ["evict"] else []) ++
    (if outs.any (fun o => o.rolled = some false) then ["roll-failed"] else []) ++
    (if outs.any (fun o => o.res = .errTrigger) then ["trigger-err"] else []) ++
    (if outs.any (fun o => o.res != .ok && !(match c.trig with | .scripted p _ => p | .size _ => false | _ => true)) then ["err-after-write"] else []) ++
    (if ops.any (fun o => match o.op with | .restart => true | _ => false) then ["restart"] else []) ++
    (if ops.any (fun o => match o.op with | .tick _ => true | _ => false) then ["tick"] else []) ++
    (if ops.any (fun o => match o.rec? with | some r => (recBytes r.chunks).length > CAP | none => false) then ["record>cap"] else []) ++
    (if ops.any (fun o => match o.rec? with | some r => r.text | none => false) then ["text"] else []))

/-- decode a sequential case; `k` continues with the decoded parts -/
def withSeq (cas obs : List String)
    (k : Case → List OpSpec → List (Option Out × Disk) → List ObsEntry → Answer) : Answer :=
  match cas, obs with
  | "seq" :: m :: pre :: arch :: trig :: roll :: clock :: opsS :: rest, [implObs] =>
    -- a trailing `@bg` routes the case to the harness built with `background_rotation`; the
    -- expected behaviour at quiescence is the same
    if rest ≠ [] ∧ rest ≠ ["@bg"] then badCase "arity" else
    match decCase m pre arch trig roll clock with
    | none => badCase "case"
    | some c =>
      match mapM? (decOp c.roll.hasHook) (decList ',' opsS) with
      | none => badCase "ops"
      | some ops =>
        let tr := c.trace (ops.map (·.xop))
        if implObs = "PANIC" then
          { model := encList "," (tr.map renderEntry), spec := "FAIL:panic;sig=" ++ c.sig "C05" ++ "-panic", tags := ["panic"] }
        else match mapM? decEntry (decList ',' implObs) with
        | none => badCase "observation"
        | some es => k c ops tr es
  | _, _ => badCase "arity"

/-! ### concurrent writers -/

/-- per-thread cursor of the suffix matcher: `none` = no record of the thread seen yet -/
def findRec (recs : List Bytes) (cur : Bytes) : Nat → Option Nat
  | i => match recs[i]? with
    | none => none
    | some r => if r.isPrefixOf cur then some i else
      if i + 1 < recs.length then findRec recs cur (i + 1) else none
  termination_by i => recs.length - i

/-- one step: which thread's record starts `cur`? threads already seen must continue with their
next record, unseen threads may start anywhere (their older records were in discarded files) -/
def concStep (threads : List (List Bytes)) (ptrs : List (Option Nat)) (cur : Bytes) : Option (Nat × Nat) :=
  (List.range threads.length).findSome? fun t =>
    match threads[t]?, ptrs[t]? with
    | some recs, some (some i) =>
      match recs[i]? with
      | some r => if r.isPrefixOf cur then some (t, i) else none
      | none => none
    | some recs, some none => (findRec recs cur 0).map (fun i => (t, i))
    | _, _ => none

def concFile (threads : List (List Bytes)) : Nat → List (Option Nat) → Bytes → Option (List (Option Nat))
  | 0, _, _ => none
  | fuel + 1, ptrs, cur =>
    if cur.isEmpty then some ptrs else
    match concStep threads ptrs cur with
    | none => none
    | some (t, i) =>
      match threads[t]? >>= (·[i]?) with
      | none => none
      | some r => concFile threads fuel (ptrs.set t (some (i + 1))) (cur.drop r.length)

/-- Concurrent writers: every retained file is a concatenation of whole records; per thread the
records present are in that thread's order, without repetition, and are a suffix of what the
thread had acknowledged (older ones may have left with whole discarded files). The last thread is
the pre-existing content (tried last: a tiny pre-existing file may be a prefix of a record). Empty records are dropped beforehand. -/
def mergeSuffixOfWhole (threads : List (List Bytes)) (files : List Bytes) : Bool :=
  let ths := threads.map (fun t => t.filter (fun r => !r.isEmpty))
  let total := (ths.map List.length).sum
  let final := files.foldl (fun (st : Option (List (Option Nat))) f => st.bind (fun p => concFile ths (total + 1) p f))
    (some (ths.map (fun _ => none)))
  match final with
  | none => false
  | some ptrs => (ths.zip ptrs).all (fun (t, p) => match p with | none => true | some i => i == t.length)

structure ConcCase where
  c : Case
  amp : Nat
  threads : List (List RecSpec)
  acks : List (List Nat)
  snapS : String
  acksS : String
  snap : Spec.Snap
  calls : Nat

def withConc (cas obs : List String) (k : ConcCase → Answer) : Answer :=
  match cas, obs with
  | ["conc", m, pre, arch, trig, roll, clock, ampS, thS], [implObs] =>
    let thr := (decList '|' thS).map (fun t => mapM? decRec (decList ',' t))
    match decCase m pre arch trig roll clock, decNat ampS, mapM? id thr, splitOnChar '!' implObs with
    | some c, some _, some _, ["PANIC", _, _] =>
      -- a writer thread (or the appender) panicked: an observation, never a protocol error
      { model := "no-panic", spec := "FAIL:panic in a concurrent run;sig=" ++ c.sig "C05" ++ "-conc-panic", tags := ["panic"] }
    | some c, some amp, some threads, [acksS, callsS, snapS] =>
      match mapM? (fun t => mapM? decNat (decList ',' t)) (decList '|' acksS), decSnap snapS, decNat callsS with
      | some acks, some snap, some calls =>
        if acks.length ≠ threads.length then badCase "acks arity"
        else k { c, amp, threads, acks, snapS, acksS, snap, calls }
      | _, _, _ => badCase "conc observation"
    | _, _, _, _ => badCase "conc case"
  | _, _ => badCase "arity"

/-- acknowledged records of every thread, in the thread's order -/
def ConcCase.acked (cc : ConcCase) : List (List Bytes) :=
  (cc.threads.zip cc.acks).map fun (t, ids) => (t.filter (fun r => ids.contains r.id)).map (fun r => recBytes r.chunks)

def ConcCase.wellAcked (cc : ConcCase) : Bool :=
  (cc.threads.zip cc.acks).all fun (t, ids) => (t.map (·.id)).take ids.length == ids

/-- the serial schedule thread 0, thread 1, … through the model (shown when the observation is not admitted) -/
def ConcCase.serial (cc : ConcCase) : String :=
  let ops := cc.threads.flatMap (fun t => t.map (fun r => XOp.op (Op.append r.chunks none)))
  let tr := cc.c.trace ops
  let allAcks := encList "|" (cc.threads.map (fun t => encList "," (t.map (fun r => toString r.id))))
  let calls := (tr.map (fun e => callsOf e.1)).sum
  allAcks ++ "!" ++ toString calls ++ "!" ++ (match tr.getLast? with | some e => renderSnap e.2.files | none => "~")

/-- echo of an admitted observation -/
def ConcCase.echo (cc : ConcCase) : String := cc.acksS ++ "!" ++ toString cc.calls ++ "!" ++ cc.snapS

def ConcCase.tags (cc : ConcCase) : List String :=
  ["conc", "threads-" ++ toString cc.threads.length, "amp-" ++ toString cc.amp,
   if cc.c.appendMode then "append" else "truncate", "trig-" ++ trigKind cc.c.trig, "roller-" ++ rollKind cc.c.roll]

def dedupNat (xs : List Nat) : List Nat := xs.foldl (fun acc x => if acc.contains x then acc else acc ++ [x]) []

def handleSeq (cas obs : List String) : Answer :=
  withSeq cas obs fun c ops tr es =>
    let model := encList "," (tr.map renderEntry)
    let compressFault := ops.any (fun o => match o.op with | .append _ (some k) => c.roll.isCompressFault k | _ => false)
    -- entry 0 is the state after build; ops start at entry 1
    let spec := match es with
      | [] => "FAIL:empty observation;sig=" ++ c.sig "C05"
      | e0 :: rest =>
        let files0 := c.files e0.snap
        if !(Spec.suffixOfWhole c.preItems files0 && files0.flatten == (c.preItems.map (·.bytes)).flatten) then
          "FAIL:after build the retained files are not exactly the pre-existing contents;sig=" ++ c.sig "C05" ++ "-open"
        else match specC05Go c 0 c.preItems files0 ops rest with
          | none => "ok"
          | some why =>
            -- the known defect: the code does what the model says after a failed `remove_file(src)`
            if compressFault ∧ obs = [model] then
              "FAIL:" ++ why ++ " (compress wrote the archive, failed to remove the log file: segment in both);sig=C05/compress-failure-duplicates"
            else "FAIL:" ++ why ++ ";sig=" ++ c.sig "C05"
    let tags := modelTags c ops tr ++ (if ops.any OpSpec.torn then ["encoder-error-after-slices"] else []) ++
      (if ops.any (fun o => o.fail.isSome) then ["encoder-error"] else []) ++
      (if compressFault then ["compress-remove-fault"] else []) ++
      (if cas.getLast? = some "@bg" then ["background-rotation"] else []) ++
      (if ops.any (fun o => match o.op with | .append _ (some k) => k == LATE | _ => false) then ["roller-late-err"] else [])
    { model, spec, tags := if ops.isEmpty then "trivial" :: tags else "seq" :: tags }

def handleConc (cas obs : List String) : Answer :=
  withConc cas obs fun cc =>
    let pre := cc.c.preItems.map (·.bytes)
    let ok := cc.wellAcked && mergeSuffixOfWhole (cc.acked ++ [pre]) (cc.c.files cc.snap)
    { model := if ok then cc.echo else cc.serial,
      spec := if ok then "ok" else
        "FAIL:retained files are not whole acknowledged records in per-thread order (suffix by whole files);sig=" ++ cc.c.sig "C05" ++ "-conc",
      tags := cc.tags }

/-! ### concurrent writers in phases (`par`), judged and replayed

  par <mode> <preActive> <preArchives> <trigger> <roller> <clock0> <amp> <faults> <phases>
  faults = `,`-joined ordinal:step (the ordinal-th `Roll::roll` call of the case fails at step), `~` none
  phases = `/`-joined (a restart in between); threads `|`-joined; a thread = `,`-joined record | e<n>!record
  observation: <events>!<calls>!<snapshot>;  events mirror the phases: id.start.ack | id.start.x  (global tickets) -/

structure PEv where
  id : Nat
  start : Nat
  ack : Option Nat
  deriving Repr

structure POp where
  r : RecSpec
  fail : Option Nat
  phase : Nat
  thread : Nat
  idx : Nat
  ev : PEv

def decPEv (s : String) : Option PEv :=
  match splitOnChar '.' s with
  | [i, st, a] =>
    match decNat i, decNat st with
    | some id, some start => if a = "x" then some { id, start, ack := none } else (decNat a).map (fun k => { id, start, ack := some k })
    | _, _ => none
  | _ => none

def decParRec (s : String) : Option (RecSpec × Option Nat) :=
  match (decOp true s) with
  | some o => match o.op, o.rec? with
    | .append _ none, some r => some (r, o.fail)
    | _, _ => none
  | none => none

def decFaults (s : String) : Option (List (Nat × Nat)) :=
  mapM? (fun e => match splitOnChar ':' e with
    | [a, b] => match decNat a, decNat b with
      | some a, some b => some (a, b)
      | _, _ => none
    | _ => none) (decList ',' s)

/-- candidates for explaining file contents: (key, bytes); keys ≥ `preKey` are pre-existing items -/
def preKey : Nat := 1000000000

/-- cut a file into whole candidates, greedily (records carry unique ids; pre-existing items are
tried last: a tiny pre-existing file may be a prefix of a record) -/
def cutFile (cands : List (Nat × Bytes)) : Nat → Bytes → Option (List Nat)
  | 0, cur => if cur.isEmpty then some [] else none
  | fuel + 1, cur =>
    if cur.isEmpty then some [] else
    match cands.find? (fun c => !c.2.isEmpty && c.2.isPrefixOf cur) with
    | none => none
    | some c => (cutFile cands fuel (cur.drop c.2.length)).map (c.1 :: ·)

def posOf (xs : List Nat) (k : Nat) : Option Nat := xs.findIdx? (· == k)

/-- replay a concurrent case sequentially in the order `phases` (records with their encoder
failure), applying roller faults by the ordinal of the call; returns (total calls, final disk) -/
def Case.replay (c : Case) (phases : List (List (RecSpec × Option Nat))) (faults : List (Nat × Nat)) : Nat × Disk :=
  let go {σ : Type} (trig : Trigger σ) (t0 : σ) : Nat × Disk :=
    let cfg : Cfg σ := { path := activePath, appendMode := c.appendMode, trig, roll := rollFn c.roll }
    let s0 := init cfg c.disk0 t0 c.clock0
    let runPhase := fun (acc : Nat × St σ) (ph : List (RecSpec × Option Nat)) =>
      ph.foldl (fun (acc : Nat × St σ) (rf : RecSpec × Option Nat) =>
        let fault := (faults.find? (fun e => e.1 == acc.1)).map (·.2)
        let xop : XOp := match rf.2 with
          | some n => .appendFail rf.1.chunks n fault
          | none => .op (.append rf.1.chunks fault)
        let (o, s') := applyX cfg acc.2 xop
        (acc.1 + callsOf o, s')) acc
    let fin := (phases.zip (List.range phases.length)).foldl (fun (acc : Nat × St σ) (ph : List (RecSpec × Option Nat) × Nat) =>
      let acc := if ph.2 = 0 then acc else (acc.1, restart cfg acc.2)
      runPhase acc ph.1) (0, s0)
    (fin.1, fin.2.disk)
  match c.trig with
  | .size n => go (sizeTrigger n) ()
  | .startup m => go (onStartupTrigger m) false
  | .time tc => go (timeTrigger tc) 0
  | .scripted pre ans => go (scriptedTrigger pre) ans

def isPreTrig : TrigSpec → Bool
  | .size _ => false
  | .scripted p _ => p
  | _ => true

def handlePar (cas obs : List String) : Answer :=
  match cas, obs with
  | ["par", m, pre, arch, trig, roll, clock, ampS, faultsS, phasesS], [implObs] =>
    let phasesRaw := (splitOnChar '/' phasesS).map (fun ph => (decList '|' ph).map (fun t => mapM? decParRec (decList ',' t)))
    match decCase m pre arch trig roll clock, decNat ampS, decFaults faultsS,
          mapM? (fun ph => mapM? id ph) phasesRaw, splitOnChar '!' implObs with
    | some c, some _, some _, some _, ["PANIC", _, _] =>
      { model := "no-panic", spec := "FAIL:panic in a concurrent run;sig=" ++ c.sig "C05" ++ "-conc-panic", tags := ["panic"] }
    | some c, some amp, some faults, some phases, [evS, callsS, snapS] =>
      let evRaw := (splitOnChar '/' evS).map (fun ph => (decList '|' ph).map (fun t => mapM? decPEv (decList ',' t)))
      match mapM? (fun ph => mapM? id ph) evRaw, decNat callsS, decSnap snapS with
      | some evs, some calls, some snap =>
        -- all appended records with their events
        let ops : List POp := (phases.zip (List.range phases.length)).flatMap fun (ph, pi) =>
          (ph.zip (List.range ph.length)).flatMap fun (th, ti) =>
            (th.zip (List.range th.length)).filterMap fun ((r, fail), k) =>
              ((evs[pi]? >>= (·[ti]?)) >>= (·[k]?)).map (fun ev => { r, fail, phase := pi, thread := ti, idx := k, ev })
        let nOps := (phases.map (fun ph => (ph.map List.length).sum)).sum
        let shapeOk := ops.length == nOps && ops.all (fun o => o.ev.id == o.r.id) &&
          ops.all (fun o => o.fail.isNone || o.ev.ack.isNone)
        -- pre-existing items and record candidates
        let preItems := c.preItems
        let preC : List (Nat × Bytes) := (preItems.zip (List.range preItems.length)).map (fun (it, i) => (preKey + i, it.bytes))
        let recC : List (Nat × Bytes) := (ops.filter (fun o => o.fail.isNone)).map (fun o => (o.r.id, recBytes o.r.chunks))
        let cands := recC ++ preC
        let files := c.files snap
        let fuel := cands.length + 2
        let cut := mapM? (cutFile cands fuel) files
        let spec : Option String := match cut with
          | none => some "a retained file is not a concatenation of whole records (or holds a record whose encoder failed)"
          | some perFile =>
            let present := perFile.flatten
            let pos := fun (k : Nat) => posOf present k
            let nodup := present.length == (dedupNat present).length
            -- pre-existing items first, in their order
            let prePresent := present.filter (· ≥ preKey)
            let preOrder := prePresent == (prePresent.toArray.qsort (· < ·)).toList &&
              (present.take prePresent.length) == prePresent
            let lastPhase := phases.length - 1
            -- a record that must not be lost: acknowledged, non-empty; in truncate mode only the last phase
            let must := fun (o : POp) => o.ev.ack.isSome && !(recBytes o.r.chunks).isEmpty && (c.appendMode || o.phase == lastPhase)
            let presentOps : List (POp × Nat) := ops.filterMap (fun o => (pos o.r.id).map (fun k => (o, k)))
            let missing := ops.filter (fun o => must o && (pos o.r.id).isNone)
            -- order: phases in order, per-thread program order, and real time (acknowledged before the
            -- other started => earlier in the files)
            let orderOk := presentOps.all fun (x, px) => presentOps.all fun (y, py) =>
              let before := px < py
              (!(x.phase < y.phase) || before) &&
              (!(x.phase == y.phase && x.thread == y.thread && x.idx < y.idx) || before) &&
              (match x.ev.ack with | some a => !(a < y.ev.start) || before | none => true)
            -- loss: a missing record must not have started after a present one was acknowledged
            let lossOrder := missing.all fun x => presentOps.all fun (y, _) =>
              match y.ev.ack with | some a => !(a < x.ev.start) | none => true
            -- how many whole files the retention window may have discarded
            let (_, cnt) := c.window
            let evictable := match c.roll with
              | .delete => calls
              | .fw _ _ _ => (calls + (preItems.length - (if c.appendMode && c.preActive.isSome then 1 else 0))) - cnt
            let preMissing := (List.range preItems.length).filter (fun i => (pos (preKey + i)).isNone && !((preItems[i]?.map (·.bytes)).getD []).isEmpty)
            if !shapeOk then some "events do not match the programs"
            else if !nodup then some "a record is stored twice"
            else if !preOrder then some "pre-existing content is not ahead of the new records"
            else if !orderOk then some "records are not in write order (phase, per-thread or real-time order violated)"
            else if !lossOrder then some "an acknowledged record is missing although a record written before it is retained (loss from the middle)"
            else if evictable == 0 ∧ (!missing.isEmpty ∨ !preMissing.isEmpty) ∧ (c.appendMode ∨ phases.length == 1) then
              some (toString (missing.length + preMissing.length) ++ " acknowledged item(s) missing although the retention window cannot have discarded anything (" ++ toString calls ++ " roller calls)")
            else none
        -- replay: when every written record is visible in the files, their order there IS the write
        -- order; the model, run sequentially in that order, must produce the same directory and the
        -- same number of roller calls
        let exact : Option (List (List (RecSpec × Option Nat))) := match cut with
          | none => none
          | some perFile =>
            let present := perFile.flatten
            -- an op whose place in the order cannot be seen in the files must be one whose place
            -- does not matter: a failed encode under a post-process trigger consults nothing (an
            -- empty record does consult the policy, so its place matters: such cases are not replayed)
            let allVisible := ops.all (fun o =>
              (posOf present o.r.id).isSome || (o.fail.isSome && !isPreTrig c.trig))
            let preVisible := (List.range c.preItems.length).all (fun i => (posOf present (preKey + i)).isSome || ((c.preItems[i]?.map (·.bytes)).getD []).isEmpty)
            if allVisible && preVisible && spec.isNone then
              some ((List.range phases.length).map fun pi =>
                let here := ops.filter (fun o => o.phase == pi)
                let vis := (present.filterMap (fun k => here.find? (fun o => o.r.id == k && o.fail.isNone))).map (fun o => (o.r, (none : Option Nat)))
                let failing := (here.filter (fun o => o.fail.isSome)).map (fun o => (o.r, o.fail))
                vis ++ failing)
            else none
        let model := match exact with
          | some order =>
            let (mc, md) := c.replay order faults
            -- the place of an op that leaves no bytes (failed encode, empty record) is not visible in the
            -- files, but such an op re-creates the log file when it follows a rotation: whether an EMPTY
            -- log file exists at the end is taken from the observation in such cases
            let blind := ops.any (fun o => o.fail.isSome)
            let mfiles := if blind then
                let others := md.files.filter (fun e => !(e.1 == activePath && e.2.isEmpty))
                if snap.get? activePath == some [] then others ++ [(activePath, [])] else others
              else md.files
            evS ++ "!" ++ toString mc ++ "!" ++ renderSnap mfiles
          | none => evS ++ "!" ++ callsS ++ "!" ++ snapS
        let tags := ["par", "phases-" ++ toString phases.length, "amp-" ++ toString amp,
          if c.appendMode then "append" else "truncate", "trig-" ++ trigKind c.trig, "roller-" ++ rollKind c.roll,
          if exact.isSome then "replayed" else "not-replayed"] ++
          (if !faults.isEmpty then ["roller-faults"] else []) ++
          (if ops.any (fun o => o.fail.isSome) then ["encoder-error"] else []) ++
          (if calls > 0 then ["rolled"] else [])
        { model, spec := match spec with
            | none => "ok"
            | some why => "FAIL:" ++ why ++ ";sig=" ++ c.sig "C05" ++ "-conc",
          tags }
      | _, _, _ => badCase "par observation"
    | _, _, _, _, _ => badCase "par case"
  | _, _ => badCase "arity"

/-- `seqx <mode> <pre> <ops> [pre|post]`: C04's multi-handle histories on real rolling appenders whose
policy never rotates (`harness/src/c05.rs::exec_seqx`). While nothing rotates the rolling appender is the
file appender (same `BufWriter` capacity — `C05_gen_bufwriter_capacity_rolling_file_appender` —, record
encoded into memory first, `O_APPEND` at the first open since 3018b7b), so model and spec are C04's,
unchanged: model observation = `Handles.trace` (= `traceV true`, the repaired variant), verdict =
`Spec.expectedTraceM` on the implementation's observation; theorem `C04_multi_trace_eq_spec`
(re-exported as `C05_no_rotation_is_file_appender_spec`). Signature of the input class of the defect
3018b7b repaired: `C05/seqx-truncate-private-offset`. -/
def handleSeqx (cas : List String) (obs : List String) : Answer :=
  let go (m pre ops when : String) : Answer :=
    let a := Driver.C04.handleSeq m pre ops obs "C05/seqx-"
    if a.spec = "bad-case" then a else
    { a with tags := ["seqx", "no-rotation", "trigger-" ++ when] ++ a.tags.filter (· != "seq") }
  match cas with
  | [_, m, pre, ops] => go m pre ops "post"
  | [_, m, pre, ops, "post"] => go m pre ops "post"
  | [_, m, pre, ops, "pre"] => go m pre ops "pre"
  | _ => badCase "seqx"

def handle : Handler := fun cas obs =>
  match cas with
  | "seqx" :: _ => handleSeqx cas obs
  | "seq" :: _ => handleSeq cas obs
  | "par" :: _ => handlePar cas obs
  | "conc" :: _ => handleConc cas obs
  | _ => badCase "kind"

end Driver.C05
