import Driver.Common
import Driver.C04
import Log4rsModel.Rolling.Model
import Log4rsModel.Rolling.Spec
/-
Driver for the rolling appender; the case format is shared by C05, C06 and C17.

  seq  <mode a|t> <preActive: - | size> <preArchives: `,`-joined idx:size> <trigger> <roller> <clock0> <ops>
  conc <mode> <preActive> <preArchives> <trigger> <roller> <clock0> <amplifier> <threads `|`-joined record lists>

  trigger = size:N | startup:M | time:<s|m>:<n>:<modulate 0|1> | spre:<answers> | spost:<answers>
            (answers: a word over y n e, `-` = empty script; exhausted script answers n)
  roller  = delete | fw:<base>:<count>:<pattern 0..4>
  ops     = `,`-joined:  record | r (restart) | c<dt> (clock advances) | f<k>!record (step k of the rotation fails)
            | g!record (the roller does its work and then reports Err) | e<n>!record (the encoder fails after n slices)
  pre-existing content: active = genBytes 999000 size, archive idx = genBytes (998000+idx) size
  patterns: 0 app.log.{}   1 arch/app.{}.log   2 app.log.{}.gz   3 arch/{}/app.log.zst   4 app.{}.{}.log

observation
  seq : `,`-joined, first the state after build, then one entry per op:  <res>!<consult>!<calls>!<snapshot>
        calls = number of `Roll::roll` invocations during the op (counted by the harness's roller wrapper)
        res = ok | err | PANIC | - ; consult = <shown>=<actual> | - ; snapshot = `;`-joined name=hex (sorted), `~` if empty
  conc: <acks `|`-joined per thread>!<calls>!<snapshot>
-/
namespace Driver.C05
open Log4rs.Proto Log4rs.Rolling Driver
open Log4rs.Roller (Disk Path RollerCfg deleteRoll fixedWindowRoll FsErr)
open Driver.C04 (genBytes decRec RecSpec hex recBytes dedup)

inductive TrigSpec where
  | size (n : Nat)
  | startup (m : Nat)
  | time (c : TimeCfg)
  | scripted (pre : Bool) (answers : List TrigAns)
  deriving Repr

inductive RollSpec where
  | delete
  | fw (base count pat : Nat)
  deriving Repr

def activePath : Path := "app.log".toList

def patName (pat i : Nat) : Path :=
  let d := toString i
  (match pat with
   | 0 => "app.log." ++ d
   | 1 => "arch/app." ++ d ++ ".log"
   | 2 => "app.log." ++ d ++ ".gz"
   | 3 => "arch/" ++ d ++ "/app.log.zst"
   | _ => "app." ++ d ++ "." ++ d ++ ".log").toList

def rollerCfg (base count pat : Nat) : RollerCfg :=
  { nameOf := patName pat, base, count,
    comp := if pat = 2 then .gzip else if pat = 3 then .zstd else .none, codec := id }

/-- fault index used for "the roller does all its work and then reports `Err`" (the harness's
roller wrapper fails once after the real roller returned `Ok`) -/
def LATE : Nat := 1000000

def rollFnPlain : RollSpec → RollFn
  | .delete => fun p f d => deleteRoll p f d
  | .fw b c pat => fun p f d => fixedWindowRoll (rollerCfg b c pat) p f d

def rollFn (rs : RollSpec) : RollFn := fun p f d =>
  if f LATE then
    match rollFnPlain rs p (fun _ => false) d with
    | (.ok _, d') => (.error (.injected LATE), d')
    | e => e
  else rollFnPlain rs p f d

/-- the harness can inject a fault only where `rotate_point` is called -/
def RollSpec.hasHook : RollSpec → Bool
  | .fw _ c _ => c > 0
  | .delete => false

def decAnswers (s : String) : Option (List TrigAns) :=
  if s = "-" then some [] else
  mapM? (fun c => if c = 'y' then some TrigAns.yes else if c = 'n' then some .no else if c = 'e' then some .err else none) s.toList

def decTrig (s : String) : Option TrigSpec :=
  match splitOnChar ':' s with
  | ["size", n] => (decNat n).map .size
  | ["startup", m] => (decNat m).map .startup
  | ["time", u, n, m] =>
    match (if u = "s" then some 1 else if u = "m" then some 60 else none), decNat n, decBool m with
    | some unit, some n, some modulate => some (.time { unit, n, modulate })
    | _, _, _ => none
  | ["spre", a] => (decAnswers a).map (.scripted true)
  | ["spost", a] => (decAnswers a).map (.scripted false)
  | _ => none

def decRoll (s : String) : Option RollSpec :=
  match splitOnChar ':' s with
  | ["delete"] => some .delete
  | ["fw", b, c, p] =>
    match decNat b, decNat c, decNat p with
    | some b, some c, some p => if p ≤ 4 then some (.fw b c p) else none
    | _, _, _ => none
  | _ => none

structure OpSpec where
  op : Op
  rec? : Option RecSpec
  /-- `some n`: the encoder fails after `n` slices (the op is then run as `XOp.appendFail`) -/
  fail : Option Nat := none
  deriving Repr

def OpSpec.xop (o : OpSpec) : XOp :=
  match o.fail, o.op with
  | some n, .append r f => .appendFail r n f
  | _, op => .op op

/-- a failing encoder that has written something -/
def OpSpec.torn (o : OpSpec) : Bool :=
  match o.fail, o.rec? with
  | some n, some r => !(r.chunks.take n).flatten.isEmpty
  | _, _ => false

def decOp (hook : Bool) (s : String) : Option OpSpec :=
  if s = "r" then some { op := .restart, rec? := none } else
  match s.toList with
  | 'c' :: ds => ((String.ofList ds).toNat?).map (fun dt => { op := .tick dt, rec? := none })
  | 'f' :: rest =>
    match splitOnChar '!' (String.ofList rest) with
    | [k, r] =>
      match decNat k, decRec r with
      | some k, some r => some { op := .append r.chunks (if hook then some k else none), rec? := some r }
      | _, _ => none
    | _ => none
  | 'g' :: '!' :: rest => (decRec (String.ofList rest)).map (fun r => { op := .append r.chunks (some LATE), rec? := some r })
  | 'e' :: rest =>
    match splitOnChar '!' (String.ofList rest) with
    | [n, r] =>
      match decNat n, decRec r with
      | some n, some r => some { op := .append r.chunks none, rec? := some r, fail := some n }
      | _, _ => none
    | _ => none
  | _ => (decRec s).map (fun r => { op := .append r.chunks none, rec? := some r })

structure Case where
  appendMode : Bool
  preActive : Option Nat
  preArch : List (Nat × Nat)
  trig : TrigSpec
  roll : RollSpec
  clock0 : Nat

def decPreArch (s : String) : Option (List (Nat × Nat)) :=
  mapM? (fun e => match splitOnChar ':' e with
    | [i, n] => match decNat i, decNat n with
      | some i, some n => some (i, n)
      | _, _ => none
    | _ => none) (decList ',' s)

def decCase (mS preS archS trigS rollS clockS : String) : Option Case :=
  match (if mS = "a" then some true else if mS = "t" then some false else none),
        decOpt decNat preS, decPreArch archS, decTrig trigS, decRoll rollS, decNat clockS with
  | some appendMode, some preActive, some preArch, some trig, some roll, some clock0 =>
    some { appendMode, preActive, preArch, trig, roll, clock0 }
  | _, _, _, _, _, _ => none

def preActiveBytes (n : Nat) : Bytes := genBytes 999000 n
def preArchBytes (idx n : Nat) : Bytes := genBytes (998000 + idx) n

def Case.archName (c : Case) (i : Nat) : Path :=
  match c.roll with
  | .fw _ _ pat => patName pat i
  | .delete => patName 0 i

def Case.disk0 (c : Case) : Disk :=
  let d := c.preArch.foldl (fun d (i, n) => d.set (c.archName i) (preArchBytes i n)) Disk.empty
  match c.preActive with
  | some n => d.set activePath (preActiveBytes n)
  | none => d

/-- (base, count) of the retention window; the delete roller keeps nothing -/
def Case.window (c : Case) : Nat × Nat :=
  match c.roll with
  | .fw b n _ => (b, n)
  | .delete => (0, 0)

/-- run the model: the state after build, then after every op -/
def Case.trace (c : Case) (ops : List XOp) : List (Option Out × Disk) :=
  let d0 := c.disk0
  let go {σ : Type} (trig : Trigger σ) (t0 : σ) : List (Option Out × Disk) :=
    let cfg : Cfg σ := { path := activePath, appendMode := c.appendMode, trig, roll := rollFn c.roll }
    let s0 := init cfg d0 t0 c.clock0
    (none, s0.disk) :: (Log4rs.Rolling.traceX cfg s0 ops).map (fun (o, s) => (o, s.disk))
  match c.trig with
  | .size n => go (sizeTrigger n) ()
  | .startup m => go (onStartupTrigger m) false
  | .time tc => go (timeTrigger tc) 0
  | .scripted pre ans => go (scriptedTrigger pre) ans

def renderSnap (files : List (Path × Bytes)) : String :=
  let named := files.map (fun (p, b) => (String.ofList p, b))
  let sorted := (named.toArray.qsort (fun a b => a.1 < b.1)).toList
  encList ";" (sorted.map (fun (n, b) => n ++ "=" ++ hex b))

def renderRes : Option Out → String
  | none => "-"
  | some o => if o.res = .ok then "ok" else "err"

def renderConsult : Option Out → String
  | some { consult := some (a, b), .. } => toString a ++ "=" ++ toString b
  | _ => "-"

/-- how often the roller is invoked by the op: once iff the trigger fired -/
def callsOf : Option Out → Nat
  | some o => if o.rolled.isSome then 1 else 0
  | none => 0

def renderEntry (e : Option Out × Disk) : String :=
  renderRes e.1 ++ "!" ++ renderConsult e.1 ++ "!" ++ toString (callsOf e.1) ++ "!" ++ renderSnap e.2.files

/-! ### parsing the implementation's observation -/

structure ObsEntry where
  res : String
  consult : Option (Nat × Nat)
  snap : Spec.Snap
  snapS : String
  calls : Nat

def decSnap (s : String) : Option Spec.Snap :=
  mapM? (fun e => match splitOnChar '=' e with
    | [n, h] => (C04.decBytesBig h).map (fun b => (n.toList, b))
    | _ => none) (decList ';' s)

def decEntry (s : String) : Option ObsEntry :=
  match splitOnChar '!' s with
  | [res, cons, callsS, snap] =>
    let consult : Option (Option (Nat × Nat)) :=
      if cons = "-" then some none else
      match splitOnChar '=' cons with
      | [a, b] => match decNat a, decNat b with
        | some a, some b => some (some (a, b))
        | _, _ => none
      | _ => none
    match consult, decSnap snap, decNat callsS with
    | some consult, some snap', some calls => some { res, consult, snap := snap', snapS := snap, calls }
    | _, _, _ => none
  | _ => none

/-! ### C05 specification on the implementation's observation -/

/-- pre-existing contents that belong to the stream: archives inside the window (oldest first),
then the active file when the appender opens in append mode -/
def Case.preItems (c : Case) : List Spec.Item :=
  let (b, n) := c.window
  let arch := (c.preArch.filter (fun (i, _) => b ≤ i ∧ i < b + n)).toArray.qsort (fun x y => x.1 > y.1) |>.toList
  arch.map (fun (i, sz) => { bytes := preArchBytes i sz, must := true }) ++
    (match c.preActive, c.appendMode with
     | some sz, true => [{ bytes := preActiveBytes sz, must := true }]
     | _, _ => [])

def Case.files (c : Case) (snap : Spec.Snap) : List Bytes :=
  let (b, n) := c.window
  Spec.diskFiles c.archName b n activePath snap.get?

/-- walk the history: after every op the retained files must be a whole-file suffix of the stream -/
def specC05Go (c : Case) : Nat → List Spec.Item → List OpSpec → List ObsEntry → Option String
  | _, _, [], [] => none
  | k, stream, op :: ops, e :: es =>
    let stream := match op.op, op.rec? with
      | .append _ _, some r => stream ++ [{ bytes := recBytes r.chunks, must := e.res = "ok" }]
      | .restart, _ => if c.appendMode then stream else stream.map (fun it => { it with must := false })
      | _, _ => stream
    if e.res = "PANIC" then some ("panic at op " ++ toString k)
    else if Spec.suffixOfWhole stream (c.files e.snap) then specC05Go c (k + 1) stream ops es
    else some ("after op " ++ toString k ++ " the retained files are not a whole-file suffix of the acknowledged stream")
  | k, _, _, _ => some ("observation arity at op " ++ toString k)

def trigKind : TrigSpec → String
  | .size _ => "size" | .startup _ => "startup" | .time _ => "time"
  | .scripted true _ => "user-pre" | .scripted false _ => "user-post"

def rollKind : RollSpec → String
  | .delete => "delete"
  | .fw _ c p => "fw-c" ++ toString (min c 4) ++ (if p = 2 then "-gz" else if p = 3 then "-zst" else "")

def Case.sig (c : Case) (pid : String) : String :=
  pid ++ "/" ++ (if c.appendMode then "append" else "truncate") ++ "-" ++ trigKind c.trig ++ "-" ++
    (match c.roll with | .delete => "delete" | .fw _ _ _ => "fixed-window")

def modelTags (c : Case) (ops : List OpSpec) (tr : List (Option Out × Disk)) : List String :=
  let outs := tr.filterMap (·.1)
  let rolls := (outs.filter (fun o => o.rolled = some true)).length
  let (_, cnt) := c.window
  dedup ([if c.appendMode then "append" else "truncate", "trig-" ++ trigKind c.trig, "roller-" ++ rollKind c.roll] ++
    (if c.preActive.isSome then ["pre-existing"] else []) ++
    (if !c.preArch.isEmpty then ["pre-archives"] else []) ++
    (if rolls > 0 then ["rolled"] else []) ++
    (if rolls > cnt ∧ rolls > 0 then ["evict"] else []) ++
    (if outs.any (fun o => o.rolled = some false) then ["roll-failed"] else []) ++
    (if outs.any (fun o => o.res = .errTrigger) then ["trigger-err"] else []) ++
    (if outs.any (fun o => o.res != .ok && !(match c.trig with | .scripted p _ => p | .size _ => false | _ => true)) then ["err-after-write"] else []) ++
    (if ops.any (fun o => match o.op with | .restart => true | _ => false) then ["restart"] else []) ++
    (if ops.any (fun o => match o.op with | .tick _ => true | _ => false) then ["tick"] else []) ++
    (if ops.any (fun o => match o.rec? with | some r => (recBytes r.chunks).length > CAP | none => false) then ["record>cap"] else []) ++
    (if ops.any (fun o => match o.rec? with | some r => r.text | none => false) then ["text"] else []))

/-- decode a sequential case; `k` continues with the decoded parts -/
def withSeq (cas obs : List String)
    (k : Case → List OpSpec → List (Option Out × Disk) → List ObsEntry → Answer) : Answer :=
  match cas, obs with
  | ["seq", m, pre, arch, trig, roll, clock, opsS], [implObs] =>
    match decCase m pre arch trig roll clock with
    | none => badCase "case"
    | some c =>
      match mapM? (decOp c.roll.hasHook) (decList ',' opsS) with
      | none => badCase "ops"
      | some ops =>
        let tr := c.trace (ops.map (·.xop))
        if implObs = "PANIC" then
          { model := encList "," (tr.map renderEntry), spec := "FAIL:panic;sig=" ++ c.sig "C05" ++ "-panic", tags := ["panic"] }
        else match mapM? decEntry (decList ',' implObs) with
        | none => badCase "observation"
        | some es => k c ops tr es
  | _, _ => badCase "arity"

/-! ### concurrent writers -/

/-- per-thread cursor of the suffix matcher: `none` = no record of the thread seen yet -/
def findRec (recs : List Bytes) (cur : Bytes) : Nat → Option Nat
  | i => match recs[i]? with
    | none => none
    | some r => if r.isPrefixOf cur then some i else
      if i + 1 < recs.length then findRec recs cur (i + 1) else none
  termination_by i => recs.length - i

/-- one step: which thread's record starts `cur`? threads already seen must continue with their
next record, unseen threads may start anywhere (their older records were in discarded files) -/
def concStep (threads : List (List Bytes)) (ptrs : List (Option Nat)) (cur : Bytes) : Option (Nat × Nat) :=
  (List.range threads.length).findSome? fun t =>
    match threads[t]?, ptrs[t]? with
    | some recs, some (some i) =>
      match recs[i]? with
      | some r => if r.isPrefixOf cur then some (t, i) else none
      | none => none
    | some recs, some none => (findRec recs cur 0).map (fun i => (t, i))
    | _, _ => none

def concFile (threads : List (List Bytes)) : Nat → List (Option Nat) → Bytes → Option (List (Option Nat))
  | 0, _, _ => none
  | fuel + 1, ptrs, cur =>
    if cur.isEmpty then some ptrs else
    match concStep threads ptrs cur with
    | none => none
    | some (t, i) =>
      match threads[t]? >>= (·[i]?) with
      | none => none
      | some r => concFile threads fuel (ptrs.set t (some (i + 1))) (cur.drop r.length)

/-- Concurrent writers: every retained file is a concatenation of whole records; per thread the
records present are in that thread's order, without repetition, and are a suffix of what the
thread had acknowledged (older ones may have left with whole discarded files). The last thread is
the pre-existing content (tried last: a tiny pre-existing file may be a prefix of a record). Empty records are dropped beforehand. -/
def mergeSuffixOfWhole (threads : List (List Bytes)) (files : List Bytes) : Bool :=
  let ths := threads.map (fun t => t.filter (fun r => !r.isEmpty))
  let total := (ths.map List.length).sum
  let final := files.foldl (fun (st : Option (List (Option Nat))) f => st.bind (fun p => concFile ths (total + 1) p f))
    (some (ths.map (fun _ => none)))
  match final with
  | none => false
  | some ptrs => (ths.zip ptrs).all (fun (t, p) => match p with | none => true | some i => i == t.length)

structure ConcCase where
  c : Case
  amp : Nat
  threads : List (List RecSpec)
  acks : List (List Nat)
  snapS : String
  acksS : String
  snap : Spec.Snap
  calls : Nat

def withConc (cas obs : List String) (k : ConcCase → Answer) : Answer :=
  match cas, obs with
  | ["conc", m, pre, arch, trig, roll, clock, ampS, thS], [implObs] =>
    let thr := (decList '|' thS).map (fun t => mapM? decRec (decList ',' t))
    match decCase m pre arch trig roll clock, decNat ampS, mapM? id thr, splitOnChar '!' implObs with
    | some c, some _, some _, ["PANIC", _, _] =>
      -- a writer thread (or the appender) panicked: an observation, never a protocol error
      { model := "no-panic", spec := "FAIL:panic in a concurrent run;sig=" ++ c.sig "C05" ++ "-conc-panic", tags := ["panic"] }
    | some c, some amp, some threads, [acksS, callsS, snapS] =>
      match mapM? (fun t => mapM? decNat (decList ',' t)) (decList '|' acksS), decSnap snapS, decNat callsS with
      | some acks, some snap, some calls =>
        if acks.length ≠ threads.length then badCase "acks arity"
        else k { c, amp, threads, acks, snapS, acksS, snap, calls }
      | _, _, _ => badCase "conc observation"
    | _, _, _, _ => badCase "conc case"
  | _, _ => badCase "arity"

/-- acknowledged records of every thread, in the thread's order -/
def ConcCase.acked (cc : ConcCase) : List (List Bytes) :=
  (cc.threads.zip cc.acks).map fun (t, ids) => (t.filter (fun r => ids.contains r.id)).map (fun r => recBytes r.chunks)

def ConcCase.wellAcked (cc : ConcCase) : Bool :=
  (cc.threads.zip cc.acks).all fun (t, ids) => (t.map (·.id)).take ids.length == ids

/-- the serial schedule thread 0, thread 1, … through the model (shown when the observation is not admitted) -/
def ConcCase.serial (cc : ConcCase) : String :=
  let ops := cc.threads.flatMap (fun t => t.map (fun r => XOp.op (Op.append r.chunks none)))
  let tr := cc.c.trace ops
  let allAcks := encList "|" (cc.threads.map (fun t => encList "," (t.map (fun r => toString r.id))))
  let calls := (tr.map (fun e => callsOf e.1)).sum
  allAcks ++ "!" ++ toString calls ++ "!" ++ (match tr.getLast? with | some e => renderSnap e.2.files | none => "~")

/-- echo of an admitted observation -/
def ConcCase.echo (cc : ConcCase) : String := cc.acksS ++ "!" ++ toString cc.calls ++ "!" ++ cc.snapS

def ConcCase.tags (cc : ConcCase) : List String :=
  ["conc", "threads-" ++ toString cc.threads.length, "amp-" ++ toString cc.amp,
   if cc.c.appendMode then "append" else "truncate", "trig-" ++ trigKind cc.c.trig, "roller-" ++ rollKind cc.c.roll]

def handleSeq (cas obs : List String) : Answer :=
  withSeq cas obs fun c ops tr es =>
    let model := encList "," (tr.map renderEntry)
    -- entry 0 is the state after build; ops start at entry 1
    let spec := match es with
      | [] => "FAIL:empty observation;sig=" ++ c.sig "C05"
      | e0 :: rest =>
        if !Spec.suffixOfWhole c.preItems (c.files e0.snap) then
          "FAIL:after build the retained files are not the pre-existing contents;sig=" ++ c.sig "C05" ++ "-open"
        else match specC05Go c 0 c.preItems ops rest with
          | none => "ok"
          | some why =>
            "FAIL:" ++ why ++ ";sig=" ++ c.sig "C05"
    let tags := modelTags c ops tr ++ (if ops.any OpSpec.torn then ["encoder-error-after-slices"] else []) ++
      (if ops.any (fun o => o.fail.isSome) then ["encoder-error"] else []) ++
      (if ops.any (fun o => match o.op with | .append _ (some k) => k == LATE | _ => false) then ["roller-late-err"] else [])
    { model, spec, tags := if ops.isEmpty then "trivial" :: tags else "seq" :: tags }

def handleConc (cas obs : List String) : Answer :=
  withConc cas obs fun cc =>
    let pre := cc.c.preItems.map (·.bytes)
    let ok := cc.wellAcked && mergeSuffixOfWhole (cc.acked ++ [pre]) (cc.c.files cc.snap)
    { model := if ok then cc.echo else cc.serial,
      spec := if ok then "ok" else
        "FAIL:retained files are not whole acknowledged records in per-thread order (suffix by whole files);sig=" ++ cc.c.sig "C05" ++ "-conc",
      tags := cc.tags }

def handle : Handler := fun cas obs =>
  match cas with
  | "seq" :: _ => handleSeq cas obs
  | "conc" :: _ => handleConc cas obs
  | _ => badCase "kind"

end Driver.C05
