import Log4rsModel.Base.Proto
import Log4rsModel.Base.Str
import Log4rsModel.Base.Outcome
import Log4rsModel.Literals.Model
