import Log4rsModel.Base.Bytes
import Log4rsModel.Base.Outcome
import Log4rsModel.Routing.Tree
import Log4rsModel.Routing.Filters
import Log4rsModel.Pattern.Encode
import Log4rsModel.Rolling.File
import Log4rsModel.Json.Model
import Log4rsModel.Rolling.Ext06Spec
import Log4rsModel.Roller.Name
/-
The whole logging pipeline, composed from the per-area executable models (nothing is re-implemented
here; every step is a call into the model file of its own area):

  harness / application:   PatternEncoder::new(pattern)                Pattern/Encode.lean  `newEncoder`
                           FileAppender::builder().append(b).build(p)   Rolling/File.lean    `FileAppender.build`
                           Appender::builder().filter(ThresholdFilter…) Routing/Filters.lean `Filter.threshold`
  Logger::new(config)      SharedLogger::new (index map, sort, add)     Routing/Tree.lean    `Tree.build`
  Log::log(record)         root.find(target) ; ConfiguredLogger::log    Routing/Tree.lean    `Tree.deliver`
    per attachment         Appender::append : filter chain              Routing/Filters.lean `runChain`
                           FileAppender::append : encode into a Vec     Pattern/Encode.lean  `encList`
                             (SimpleWriter: `set_style` is a no-op, so the bytes are the UTF-8 of the
                              characters of the operation stream)       Base/Bytes.lean      `utf8`
                           write_all(&buf) ; flush                      Rolling/File.lean    `FileAppender.append`

A history is a list of records logged one after the other through one `Logger` from one thread.
Outcomes are explicit: a panic (the `appender_map[name]` / `appenders[idx]` index panics, a panic of
`PatternEncoder::new`, a panic of an encode — std's `write_fmt` on a failing `Display`) unwinds
through `Log::log` and ends the history (`Outcome.panic`); an encoder that returns `Err` leaves its
file untouched, the error is handed to the error handler (`FilesState.errors`) and the fan-out goes on.
-/
namespace Log4rs.System
open Log4rs Log4rs.Routing Log4rs.Pattern Log4rs.Pattern.Parse

/-- which encoder a file appender carries (stage 2 (B)): `PatternEncoder::new(pattern)` or
`JsonEncoder::new()` (then `pattern` is not read) -/
inductive EncKind where
  | pattern | json
  deriving Repr, DecidableEq

/-- the roller of a `CompoundPolicy` (stage 2 (C)) -/
inductive RollerKind where
  | delete
  /-- `FixedWindowRoller::builder().base(base).build(pattern, count)`, plain (uncompressed) pattern -/
  | fixedWindow (pattern : List Char) (base count : Nat)

/-- a `RollingFileAppender` with `CompoundPolicy(SizeTrigger(limit), roller)` in a directory of its
own: `active` is the log file's name inside it, `dir` the directory before the appender is built -/
structure RollSpec where
  limit : Nat
  roller : RollerKind
  active : List Char
  dir : Roller.Disk

def RollerKind.fn : RollerKind → Rolling.RollFn
  | .delete => fun p f d => Roller.deleteRoll p f d
  | .fixedWindow pattern base count => Roller.fixedWindowRoll (Roller.mkRoller id id pattern base count)

/-- the appender model of Rolling/Model.lean instantiated with the size trigger (Rolling/Ext06Spec.lean) -/
def RollSpec.cfg (rs : RollSpec) (appendMode : Bool) : Rolling.Cfg Unit :=
  Rolling.sizeCfg rs.active appendMode rs.limit rs.roller.fn

/-- one file appender as the application declares it -/
structure SysAppender where
  /-- levels of the `ThresholdFilter`s attached to the appender, in declaration order -/
  thresholds : List Nat
  /-- source text handed to `PatternEncoder::new` -/
  pattern : List Char
  /-- `FileAppenderBuilder::append(true)` = `.append`, `false` = `.truncate` -/
  mode : Rolling.OpenMode
  /-- content of the file before the appender is built (`none`: the file does not exist) -/
  pre : Option Bytes
  kind : EncKind := .pattern
  /-- `some`: the appender is a `RollingFileAppender` (then `pre` is not read: the directory is `dir`) -/
  rolling : Option RollSpec := none

/-- the routing configuration plus, per appender name, the appender behind the name; and the facts
of the platform the pattern area's model is parametric in (character classes, build profile, what
chrono answered at construction) -/
structure SysConfig where
  routing : Config
  app : Name → SysAppender
  cc : CharClass
  P : Profile
  B : Build

/-- one `log::Record` together with the environment facts its encoding reads (date texts, thread
name and ids, MDC of the logging thread at that moment, build profile) -/
structure SysRecord where
  record : Record
  env : Env

def SysRecord.target (r : SysRecord) : Name := r.record.target
def SysRecord.level (r : SysRecord) : Nat := r.record.level

/-- a built encoder: the compiled pattern, or the (stateless) JSON encoder -/
inductive Encoder where
  | pattern (cs : List Chunk)
  | json

/-- the key under which a record's environment holds the text of `Local::now()` rendered with
`Fixed::RFC3339` (the JSON encoder's `time` member) — an environment input like every date text -/
def jsonTimeKey : List Char := ['<', 'r', 'f', 'c', '3', '3', '3', '9', '>']

/-- what the JSON encoder reads from its surroundings, taken from the record's environment facts -/
def jsonEnv (r : SysRecord) : Json.Env :=
  { time := r.env.dateText jsonTimeKey false, thread := r.env.threadName, threadId := r.env.threadId,
    mdc := r.env.mdc }

/-- what the JSON encoder reads from the `log::Record` (`format_args!("{}", message)`: one piece;
C12_message_pieces_irrelevant shows the piece structure does not matter) -/
def jsonRecord (r : SysRecord) : Json.Record :=
  { level := (Json.Level.ofNat? r.record.level).getD .trace, pieces := [r.record.message],
    modulePath := r.record.module, file := r.record.file, line := r.record.line, target := r.record.target }

/-- the line `JsonEncoder::encode` writes for the record (Json/Model.lean, the object of C12) -/
def jsonOf (r : SysRecord) : List Char := Json.jsonLine (jsonEnv r) (jsonRecord r)

/-- `Encode::encode` into the `Vec` of `FileAppender::append`: the bytes, an `Err`, or a panic.
`SimpleWriter(&mut Vec)` ignores style calls: the bytes of a pattern are the UTF-8 of its characters. -/
def encodeWith (e : Encoder) (r : SysRecord) : Outcome Unit Bytes :=
  match e with
  | .pattern cs =>
    match encList r.env r.record cs with
    | .ok o => .ok (utf8 o.text)
    | .err x => .err x
    | .panic w => .panic w
  | .json => .ok (utf8 (jsonOf r))

/-- a built appender: its encoder and the open `BufWriter<File>`; for a rolling appender (`roll`)
its configuration and state in the model of Rolling/Model.lean instead (`file` is then not used) -/
structure AppState where
  enc : Encoder
  file : Rolling.BufFile
  roll : Option (Rolling.Cfg Unit × Rolling.St Unit) := none

/-- the runtime appender table (in the order of `cfg.routing.appenders`) and the errors handed to
the error handler so far (names of the appenders whose `append` returned `Err`, in order) -/
structure FilesState where
  apps : List (Name × AppState)
  errors : List Name := []

/-- the appender behind a name -/
def getApp : List (Name × AppState) → Name → Option AppState
  | [], _ => none
  | (n, s) :: rest, a => if n = a then some s else getApp rest a

/-- mutate the appender behind a name -/
def updApp (a : Name) (f : AppState → AppState) : List (Name × AppState) → List (Name × AppState)
  | [] => []
  | (n, s) :: rest => (if n = a then (n, f s) else (n, s)) :: updApp a f rest

/-- what a reader of the files sees: per appender, in table order, the bytes on disk -/
def FilesState.contents (st : FilesState) : List (Name × Bytes) :=
  st.apps.map fun p => (p.1, p.2.file.disk)

def FilesState.disk (st : FilesState) (a : Name) : Option Bytes :=
  (getApp st.apps a).map (·.file.disk)

/-- the directory of a rolling appender (`none`: not a rolling appender) -/
def FilesState.dir (st : FilesState) (a : Name) : Option Roller.Disk :=
  (getApp st.apps a).bind fun s => s.roll.map (·.2.disk)

/-- the filter vector of an appender: one real `ThresholdFilter` per declared level -/
def filtersOf (sa : SysAppender) : List Filter := sa.thresholds.map Filter.threshold

/-- `PatternEncoder::new(pattern)` + `FileAppender::builder().append(mode).encoder(..).build(path)` -/
def openSink (sa : SysAppender) (e : Encoder) : AppState :=
  match sa.rolling with
  | none => { enc := e, file := Rolling.FileAppender.build sa.mode sa.pre }
  | some rs =>
    -- `RollingFileAppender::builder().append(mode).build(path, policy)`: the file is opened at once
    { enc := e, file := { disk := [], buf := [] },
      roll := some (rs.cfg (sa.mode == .append), Rolling.init (rs.cfg (sa.mode == .append)) rs.dir () 0) }

def openApp (cfg : SysConfig) (a : Name) : Outcome Unit AppState :=
  match (cfg.app a).kind with
  | .json => .ok (openSink (cfg.app a) .json)
  | .pattern =>
    match newEncoder cfg.cc cfg.P cfg.B (cfg.app a).pattern with
    | .ok cs => .ok (openSink (cfg.app a) (.pattern cs))
    | .err e => .err e
    | .panic w => .panic w

def openAll (cfg : SysConfig) : List Name → Outcome Unit (List (Name × AppState))
  | [] => .ok []
  | a :: rest =>
    match openApp cfg a with
    | .ok s =>
      match openAll cfg rest with
      | .ok ss => .ok ((a, s) :: ss)
      | .err e => .err e
      | .panic w => .panic w
    | .err e => .err e
    | .panic w => .panic w

/-- every appender of the table built, then `Logger::new(config)` (panics when `appender_map[name]`
misses — never for a configuration the builder returned) -/
def sysOpen (cfg : SysConfig) : Outcome Unit FilesState :=
  match openAll cfg cfg.routing.appenders with
  | .ok apps =>
    if (Tree.build cfg.routing).isSome then .ok { apps := apps, errors := [] }
    else .panic "appender_map[name]: no entry found for key"
  | .err e => .err e
  | .panic w => .panic w

/-- `FileAppender::append` after the encode into memory: one `write_all`, `flush`; for a rolling
appender `RollingFileAppender::append` (Rolling/Model.lean `append`, no injected fault) on the
encoded record as one slice -/
def fileAppend (s : AppState) (bytes : Bytes) : AppState :=
  match s.roll with
  | none => { s with file := Rolling.FileAppender.append s.file [bytes] }
  | some (c, st) => { s with roll := some (c, (Rolling.applyX c st (.op (.append [bytes] none))).2) }

/-- does the append return `Err` (only a rolling appender whose roller fails does) -/
def appendFails (s : AppState) (bytes : Bytes) : Bool :=
  match s.roll with
  | none => false
  | some (c, st) =>
    match (Rolling.applyX c st (.op (.append [bytes] none))).1 with
    | some out => out.res != .ok
    | none => false

/-- one attachment: `appenders[idx].append(record)` = the filter chain, then the file appender -/
def appendOne (cfg : SysConfig) (r : SysRecord) (st : FilesState) (a : Name) : Outcome Unit FilesState :=
  match getApp st.apps a with
  | none => .panic "appenders[idx]: index out of bounds"
  | some s =>
    if (runChain r.level (filtersOf (cfg.app a))).2 then
      match encodeWith s.enc r with
      | .ok o =>
        let errs := if appendFails s o then st.errors ++ [a] else st.errors
        .ok { apps := updApp a (fun s => fileAppend s o) st.apps, errors := errs }
      | .err _ => .ok { st with errors := st.errors ++ [a] }
      | .panic w => .panic w
    else .ok st

/-- `for &idx in &self.appenders { … }` over the attachments `Tree.deliver` lists, in call order -/
def deliverLoop (cfg : SysConfig) (r : SysRecord) : FilesState → List Name → Outcome Unit FilesState
  | st, [] => .ok st
  | st, a :: rest =>
    match appendOne cfg r st a with
    | .ok st' => deliverLoop cfg r st' rest
    | .err e => .err e
    | .panic w => .panic w

/-- `Log::log(record)` on the logger built from `cfg`, with the appenders in state `st` -/
def sysLog (cfg : SysConfig) (st : FilesState) (r : SysRecord) : Outcome Unit FilesState :=
  match Tree.deliver cfg.routing r.target r.level with
  | none => .panic "appenders[idx]: index out of bounds"
  | some names => deliverLoop cfg r st names

/-- a history of records through one logger -/
def sysRunFrom (cfg : SysConfig) : FilesState → List SysRecord → Outcome Unit FilesState
  | st, [] => .ok st
  | st, r :: rs =>
    match sysLog cfg st r with
    | .ok st' => sysRunFrom cfg st' rs
    | .err e => .err e
    | .panic w => .panic w

/-- build everything, then log the history -/
def sysRun (cfg : SysConfig) (rs : List SysRecord) : Outcome Unit FilesState :=
  match sysOpen cfg with
  | .ok st => sysRunFrom cfg st rs
  | .err e => .err e
  | .panic w => .panic w

/-- the files as a reader sees them after every single record (the history stops at a panic) -/
def sysTraceFrom (cfg : SysConfig) : FilesState → List SysRecord → List (Outcome Unit FilesState)
  | _, [] => []
  | st, r :: rs =>
    match sysLog cfg st r with
    | .ok st' => .ok st' :: sysTraceFrom cfg st' rs
    | .err e => [.err e]
    | .panic w => [.panic w]

/-- … from the start -/
def sysTrace (cfg : SysConfig) (rs : List SysRecord) : List (Outcome Unit FilesState) :=
  match sysOpen cfg with
  | .ok st => sysTraceFrom cfg st rs
  | .err e => [.err e]
  | .panic w => [.panic w]

/-- the observation of an outcome: the files, or nothing after a panic -/
def observe : Outcome Unit FilesState → Option (List (Name × Bytes))
  | .ok st => some st.contents
  | _ => none

end Log4rs.System
