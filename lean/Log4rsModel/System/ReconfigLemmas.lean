import Log4rsModel.System.ReconfigSpec
import Log4rsModel.System.Lemmas
/-
Lemmas of stage 2 (A): every op maps the normal form `worldOf fs c pending` (configuration `c` built
on filesystem `fs`, the records `pending` logged under it) to a normal form; the stage-1 lemmas do
the work inside a segment.
-/
set_option linter.unusedSimpArgs false
namespace Log4rs.System
open Log4rs Log4rs.Routing Log4rs.Routing.Tree Log4rs.Pattern Log4rs.Pattern.Parse

/-- no two appenders of one configuration write to the same file -/
def PathsInj (c : SpecBundle) : Prop :=
  ∀ a ∈ c.b.cfg.routing.appenders, ∀ a' ∈ c.b.cfg.routing.appenders, c.b.paths a = c.b.paths a' → a = a'

structure BundleWF (c : SpecBundle) : Prop where
  wf : SysWF c.b.cfg c.asts
  paths : PathsInj c

/-- every configuration installed along the history is well-formed, and chrono accepts the date
formats of the patterns each record is encoded with under the configuration current at that time -/
def OpsOk (c : SpecBundle) : List SpecOp → Prop
  | [] => True
  | .log r :: ops => DatesOkFor c.b.cfg c.asts r ∧ OpsOk c ops
  | .setConfig c' :: ops => BundleWF c' ∧ OpsOk c' ops

theorem reopen_wf (fs : FS) (c : SpecBundle) (h : SysWF c.b.cfg c.asts) : SysWF (reopen fs c.b) c.asts :=
  { valid := h.valid, cc := h.cc, us := h.us, dcp := h.dcp, mdc := h.mdc, mdcE := h.mdcE,
    printed := fun a ha => h.printed a ha, wf := fun a ha => h.wf a ha,
    noRolling := fun a ha => h.noRolling a ha }

theorem reopen_copies (fs : FS) (b : Bundle) (a : Name) (r : SysRecord) :
    specCopies (reopen fs b) a r = specCopies b.cfg a r := rfl

theorem reopen_dates (fs : FS) (c : SpecBundle) (r : SysRecord) (h : DatesOkFor c.b.cfg c.asts r) :
    DatesOkFor (reopen fs c.b) c.asts r := fun a ha hc => h a ha hc

/-- normal form of the world -/
def worldOf (fs : FS) (c : SpecBundle) (pending : List SysRecord) : World :=
  { cfg := reopen fs c.b, paths := c.b.paths,
    st := stateOf (reopen fs c.b) c.asts fun a => specFile (reopen fs c.b) c.asts a pending,
    fs := fs }

theorem worldOf_disk (fs : FS) (c : SpecBundle) (pending : List SysRecord) :
    (worldOf fs c pending).disk = specSegment fs c pending := by
  funext p
  simp only [World.disk, worldOf, specSegment]
  show (match owner c.b.cfg.routing.appenders c.b.paths p with
    | some a => (stateOf (reopen fs c.b) c.asts fun a => specFile (reopen fs c.b) c.asts a pending).disk a
    | none => fs p) = _
  cases ho : owner c.b.cfg.routing.appenders c.b.paths p with
  | none => rfl
  | some a =>
    have ha : a ∈ c.b.cfg.routing.appenders := List.mem_of_find?_eq_some ho
    simp only
    exact disk_stateOf (reopen fs c.b) c.asts _ a ha

theorem install_ok (fs : FS) (c : SpecBundle) (h : BundleWF c) :
    install fs c.b = .ok (worldOf fs c []) := by
  simp only [install, sysOpen_ok (reopen fs c.b) c.asts (reopen_wf fs c h.wf), worldOf]
  congr 3
  funext a
  simp [specFile]

theorem step_log (fs : FS) (c : SpecBundle) (pending : List SysRecord) (h : BundleWF c) (r : SysRecord)
    (hd : DatesOkFor c.b.cfg c.asts r) :
    sysStep (worldOf fs c pending) (.log r) = .ok (worldOf fs c (pending ++ [r])) := by
  simp only [sysStep, worldOf,
    sysLog_stateOf (reopen fs c.b) c.asts (reopen_wf fs c h.wf) r _ (reopen_dates fs c r hd)]
  congr 3
  funext a
  simp [specFile, List.flatMap_append]

theorem step_setConfig (fs : FS) (c c' : SpecBundle) (pending : List SysRecord) (h' : BundleWF c') :
    sysStep (worldOf fs c pending) (.setConfig c'.b) = .ok (worldOf (specSegment fs c pending) c' []) := by
  simp only [sysStep, worldOf_disk, install_ok _ c' h']

theorem runOps_normal (ops : List SpecOp) :
    ∀ (fs : FS) (c : SpecBundle) (pending : List SysRecord), BundleWF c → OpsOk c ops →
      ∃ fs' c' pending', BundleWF c' ∧
        sysRunOpsFrom (worldOf fs c pending) (ops.map SpecOp.toOp) = .ok (worldOf fs' c' pending') ∧
        specOps fs c pending ops = specSegment fs' c' pending' := by
  induction ops with
  | nil => intro fs c pending h _; exact ⟨fs, c, pending, h, rfl, rfl⟩
  | cons op ops ih =>
    intro fs c pending h hok
    cases op with
    | log r =>
      obtain ⟨hd, hrest⟩ := hok
      obtain ⟨fs', c', p', hw, hrun, hspec⟩ := ih fs c (pending ++ [r]) h hrest
      refine ⟨fs', c', p', hw, ?_, ?_⟩
      · simp only [List.map_cons, SpecOp.toOp, sysRunOpsFrom, step_log fs c pending h r hd, hrun]
      · simp only [specOps, hspec]
    | setConfig c1 =>
      obtain ⟨h1, hrest⟩ := hok
      obtain ⟨fs', c', p', hw, hrun, hspec⟩ := ih (specSegment fs c pending) c1 [] h1 hrest
      refine ⟨fs', c', p', hw, ?_, ?_⟩
      · simp only [List.map_cons, SpecOp.toOp, sysRunOpsFrom, step_setConfig fs c c1 pending h1, hrun]
      · simp only [specOps, hspec]

theorem worldOf_quiet (fs : FS) (c : SpecBundle) (pending : List SysRecord) :
    (worldOf fs c pending).st.errors = [] ∧ ∀ p ∈ (worldOf fs c pending).st.apps, p.2.file.buf = [] :=
  ⟨rfl, quiet_stateOf _ _ _⟩

/-- snapshots after every op are runs of the prefixes (no hypothesis) -/
theorem sysTraceOpsFrom_prefix (ops : List SysOp) :
    ∀ (w : World) (k : Nat), k < (sysTraceOpsFrom w ops).length →
      (sysTraceOpsFrom w ops)[k]? = some (sysRunOpsFrom w (ops.take (k + 1))) := by
  induction ops with
  | nil => intro w k hk; simp [sysTraceOpsFrom] at hk
  | cons op ops ih =>
    intro w k hk
    cases hl : sysStep w op with
    | ok w1 =>
      simp only [sysTraceOpsFrom, hl, List.length_cons] at hk ⊢
      cases k with
      | zero => simp [sysRunOpsFrom, hl]
      | succ k =>
        simp only [List.getElem?_cons_succ, List.take_succ_cons, sysRunOpsFrom, hl]
        exact ih w1 k (by omega)
    | err e =>
      simp only [sysTraceOpsFrom, hl, List.length_cons, List.length_nil] at hk ⊢
      have : k = 0 := by omega
      subst this
      simp [sysRunOpsFrom, hl]
    | panic why =>
      simp only [sysTraceOpsFrom, hl, List.length_cons, List.length_nil] at hk ⊢
      have : k = 0 := by omega
      subst this
      simp [sysRunOpsFrom, hl]

end Log4rs.System
