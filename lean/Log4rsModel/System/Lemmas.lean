import Log4rsModel.System.Spec
import Log4rsModel.Properties.C01
import Log4rsModel.Properties.C03
import Log4rsModel.Properties.C04
import Log4rsModel.Properties.C09
import Log4rsModel.Properties.Compose
/-
Helper lemmas of the System slice: the per-area theorems (C01 routing, C03 threshold chains, C09
pattern round trip, C04 file appender) chained along one `Log::log` and then along a history.

The proofs keep the state in a normal form: `stateOf cfg asts content` is the appender table whose
entry for `a` holds the compiled printed AST of `a` and a quiescent `BufWriter` (empty buffer) over a
file with content `content a`. Every step of the pipeline maps a normal form to a normal form.
-/
set_option linter.unusedSimpArgs false
namespace Log4rs.System
open Log4rs Log4rs.Routing Log4rs.Routing.Tree Log4rs.Pattern Log4rs.Pattern.Parse

/-- hypotheses of the end-to-end theorems: the routing part is what `ConfigBuilder::build` returns
(`Valid`, C13), the platform behaves like the current code on ASCII, and every pattern appender's
pattern is a printed well-formed AST (as in C09). Appenders may be file or rolling appenders. -/
structure SysWFR (cfg : SysConfig) (asts : Name → List Pat) : Prop where
  valid : Valid cfg.routing
  cc : CCAscii cfg.cc
  us : cfg.P.underscoreNames = true
  dcp : cfg.P.doubledCloseParen = true
  mdc : cfg.B.mdcWhole = true
  mdcE : cfg.B.mdcEmptyOk = true
  printed : ∀ a ∈ cfg.routing.appenders, (cfg.app a).kind = .pattern → (cfg.app a).pattern = showPats (asts a)
  wf : ∀ a ∈ cfg.routing.appenders, (cfg.app a).kind = .pattern → WF cfg.P (asts a)

/-- … and every appender is a plain file appender (the hypothesis of the stage-1 / reconfiguration
theorems, which speak about file contents) -/
structure SysWF (cfg : SysConfig) (asts : Name → List Pat) : Prop extends SysWFR cfg asts where
  noRolling : ∀ a ∈ cfg.routing.appenders, (cfg.app a).rolling = none

/-- chrono accepts the date formats of every pattern the record is actually encoded with (`DatesOk`
of C09, asked only of the appenders that receive at least one copy of the record) -/
def DatesOkFor (cfg : SysConfig) (asts : Name → List Pat) (r : SysRecord) : Prop :=
  ∀ a ∈ cfg.routing.appenders, specCopies cfg a r ≠ 0 → (cfg.app a).kind = .pattern → DatesOk cfg.B r.env (asts a)

/-- the built encoder of appender `a`: the compiled printed AST, or the JSON encoder -/
def chunksFor (cfg : SysConfig) (asts : Name → List Pat) (a : Name) : Encoder :=
  match (cfg.app a).kind with
  | .pattern => .pattern (compileL cfg.B (piecesOf [] (asts a)))
  | .json => .json

/-- normal form of the runtime state: quiescent writers over files with the given contents -/
def stateOf (cfg : SysConfig) (asts : Name → List Pat) (content : Name → Bytes) : FilesState :=
  { apps := cfg.routing.appenders.map fun a =>
      (a, { enc := chunksFor cfg asts a, file := { disk := content a, buf := [] } }),
    errors := [] }

/-! ### the association list -/

theorem getApp_map (l : List Name) (g : Name → AppState) (a : Name) (ha : a ∈ l) :
    getApp (l.map fun b => (b, g b)) a = some (g a) := by
  induction l with
  | nil => cases ha
  | cons x xs ih =>
    by_cases hx : x = a
    · subst hx; simp [getApp]
    · have : a ∈ xs := by
        rcases List.mem_cons.mp ha with h | h
        · exact absurd h.symm hx
        · exact h
      simp [getApp, hx, ih this]

theorem updApp_map (l : List Name) (g : Name → AppState) (a : Name) (f : AppState → AppState) :
    updApp a f (l.map fun b => (b, g b)) = l.map fun b => (b, if b = a then f (g b) else g b) := by
  induction l with
  | nil => rfl
  | cons x xs ih =>
    by_cases hx : x = a
    · simp [updApp, hx, ih]
    · simp [updApp, hx, ih]

theorem getApp_updApp (l : List (Name × AppState)) (a b : Name) (f : AppState → AppState) :
    getApp (updApp a f l) b = if b = a then (getApp l a).map f else getApp l b := by
  induction l with
  | nil => simp [getApp, updApp]
  | cons p ps ih =>
    obtain ⟨n, s⟩ := p
    by_cases hna : n = a
    · by_cases hba : b = a
      · subst hna; subst hba; simp [getApp, updApp]
      · have hab : ¬ a = b := fun h => hba h.symm
        simp [getApp, updApp, hna, hba, hab, ih]
    · by_cases hnb : n = b
      · have hba : ¬ b = a := fun h => hna (hnb ▸ h)
        simp [getApp, updApp, hna, hnb, hba]
      · simp [getApp, updApp, hna, hnb, ih]

/-! ### the filter chain (C03) -/

/-- a chain of real threshold filters delivers exactly when the specification's `specAccepts` says so -/
theorem runChain_thresholds (sa : SysAppender) (lvl : Nat) :
    (runChain lvl (filtersOf sa)).2 = specAccepts sa.thresholds lvl := by
  rw [Bool.eq_iff_iff, filtersOf, C03_threshold_chain_many]
  simp [specAccepts]

/-! ### the pattern encoder (C09) -/

theorem openApp_ok (cfg : SysConfig) (asts : Name → List Pat) (h : SysWF cfg asts) (a : Name)
    (ha : a ∈ cfg.routing.appenders) :
    openApp cfg a = .ok { enc := chunksFor cfg asts a,
                          file := { disk := Rolling.openContent (cfg.app a).mode (cfg.app a).pre, buf := [] } } := by
  have hr := h.noRolling a ha
  cases hk : (cfg.app a).kind with
  | json => simp [openApp, openSink, hr, hk, chunksFor, Rolling.FileAppender.build]
  | pattern =>
    have hp := C09_parse_show cfg.cc h.cc cfg.P h.us h.dcp (asts a) (h.wf a ha hk)
    simp [openApp, openSink, hr, hk, newEncoder, h.printed a ha hk, hp, omap, chunksFor, Rolling.FileAppender.build]

/-- what the built encoder of `a` writes for a record is the specification's line -/
theorem encode_ok (cfg : SysConfig) (asts : Name → List Pat) (h : SysWFR cfg asts) (a : Name)
    (ha : a ∈ cfg.routing.appenders) (r : SysRecord)
    (hd : (cfg.app a).kind = .pattern → DatesOk cfg.B r.env (asts a)) :
    encodeWith (chunksFor cfg asts a) r = .ok (specLine cfg asts a r) := by
  cases hk : (cfg.app a).kind with
  | json => simp [chunksFor, hk, encodeWith, specLine]
  | pattern =>
    obtain ⟨o, ho, ht⟩ := C09_encode_parse_show cfg.cc h.cc cfg.P h.us h.dcp cfg.B h.mdc h.mdcE r.env r.record
      (asts a) (h.wf a ha hk) (hd hk)
    have hp := C09_parse_show cfg.cc h.cc cfg.P h.us h.dcp (asts a) (h.wf a ha hk)
    simp only [Parse.run, newEncoder, hp, omap] at ho
    simp [chunksFor, hk, encodeWith, specLine, ho, ht]

/-- the model's "compile once, encode per record" is the pattern area's `run` -/
theorem encode_eq_run (cfg : SysConfig) (asts : Name → List Pat) (h : SysWF cfg asts) (a : Name)
    (ha : a ∈ cfg.routing.appenders) (hk : (cfg.app a).kind = .pattern) (r : SysRecord) :
    chunksFor cfg asts a = .pattern (compileL cfg.B (piecesOf [] (asts a))) ∧
    encList r.env r.record (compileL cfg.B (piecesOf [] (asts a))) =
      Parse.run cfg.cc cfg.P cfg.B r.env r.record (cfg.app a).pattern := by
  have hp := C09_parse_show cfg.cc h.cc cfg.P h.us h.dcp (asts a) (h.wf a ha hk)
  refine ⟨by simp [chunksFor, hk], ?_⟩
  simp only [Parse.run, newEncoder, h.printed a ha hk, hp, omap]

/-! ### opening -/

theorem openAll_ok (cfg : SysConfig) (asts : Name → List Pat) (h : SysWF cfg asts) (l : List Name)
    (hl : ∀ a ∈ l, a ∈ cfg.routing.appenders) :
    openAll cfg l = .ok (l.map fun a =>
      (a, { enc := chunksFor cfg asts a,
            file := { disk := Rolling.openContent (cfg.app a).mode (cfg.app a).pre, buf := [] } })) := by
  induction l with
  | nil => rfl
  | cons x xs ih =>
    have hx := openApp_ok cfg asts h x (hl x (by simp))
    have hxs := ih (fun a ha => hl a (by simp [ha]))
    simp [openAll, hx, hxs]

theorem sysOpen_ok (cfg : SysConfig) (asts : Name → List Pat) (h : SysWF cfg asts) :
    sysOpen cfg = .ok (stateOf cfg asts fun a => Rolling.openContent (cfg.app a).mode (cfg.app a).pre) := by
  have hb := C01_build_total cfg.routing h.valid
  simp [sysOpen, openAll_ok cfg asts h _ (fun _ ha => ha), hb, stateOf]

/-! ### one attachment (C03 + C09 + C04) -/

/-- the file appender on a quiescent writer (C04_append_visible) -/
theorem fileAppend_quiet (cs : Encoder) (d : Bytes) (o : Bytes) :
    fileAppend { enc := cs, file := { disk := d, buf := [] } } o =
      { enc := cs, file := { disk := d ++ o, buf := [] } } := by
  have hv := Rolling.C04_append_visible { disk := d, buf := [] } [o] rfl
  simp only [fileAppend]
  cases hw : Rolling.FileAppender.append { disk := d, buf := [] } [o] with
  | mk d' b' =>
    rw [hw] at hv
    simp only [Rolling.encBytes, List.flatten_cons, List.flatten_nil, List.append_nil] at hv
    rw [hv.1, hv.2]

theorem appendOne_stateOf (cfg : SysConfig) (asts : Name → List Pat) (h : SysWF cfg asts)
    (r : SysRecord) (c : Name → Bytes) (a : Name) (ha : a ∈ cfg.routing.appenders)
    (hd : specAccepts (cfg.app a).thresholds r.level = true → (cfg.app a).kind = .pattern →
      DatesOk cfg.B r.env (asts a)) :
    appendOne cfg r (stateOf cfg asts c) a =
      .ok (stateOf cfg asts fun b =>
        if b = a ∧ specAccepts (cfg.app a).thresholds r.level = true then c b ++ specLine cfg asts a r else c b) := by
  have hg : getApp (stateOf cfg asts c).apps a =
      some { enc := chunksFor cfg asts a, file := { disk := c a, buf := [] } } := by
    simp only [stateOf]
    exact getApp_map _ (fun b => { enc := chunksFor cfg asts b, file := { disk := c b, buf := [] } }) a ha
  simp only [appendOne, hg, runChain_thresholds]
  by_cases hacc : specAccepts (cfg.app a).thresholds r.level = true
  · have ho := encode_ok cfg asts h.toSysWFR a ha r (hd hacc)
    simp only [hacc, if_true, ho, and_true]
    congr 1
    simp only [stateOf]
    rw [updApp_map]
    congr 1
    apply List.map_congr_left
    intro b _
    by_cases hb : b = a
    · subst hb
      simp [fileAppend_quiet]
    · simp [hb]
  · simp only [hacc, and_false, if_false]
    simp

/-! ### the fan-out of one record -/

theorem deliverLoop_stateOf (cfg : SysConfig) (asts : Name → List Pat) (h : SysWF cfg asts)
    (r : SysRecord) (names : List Name) :
    ∀ (c : Name → Bytes), (∀ n ∈ names, n ∈ cfg.routing.appenders) →
    (∀ n ∈ names, specAccepts (cfg.app n).thresholds r.level = true → (cfg.app n).kind = .pattern →
      DatesOk cfg.B r.env (asts n)) →
    deliverLoop cfg r (stateOf cfg asts c) names =
      .ok (stateOf cfg asts fun b => c b ++
        (List.replicate (if specAccepts (cfg.app b).thresholds r.level then names.count b else 0)
          (specLine cfg asts b r)).flatten) := by
  induction names with
  | nil =>
    intro c _ _
    simp only [deliverLoop]
    congr 2
    funext b
    by_cases hb : specAccepts (cfg.app b).thresholds r.level = true <;> simp [hb]
  | cons a rest ih =>
    intro c hm hd
    have h1 := appendOne_stateOf cfg asts h r c a (hm a (by simp)) (hd a (by simp))
    simp only [deliverLoop, h1]
    rw [ih _ (fun n hn => hm n (by simp [hn])) (fun n hn => hd n (by simp [hn]))]
    congr 2
    funext b
    by_cases hba : b = a
    · subst hba
      by_cases hacc : specAccepts (cfg.app b).thresholds r.level = true
      · simp [hacc, List.replicate_succ]
      · simp [hacc]
    · have hab : ¬ a = b := fun e => hba e.symm
      simp [hba, List.count_cons, hab]

/-- every name `Tree.deliver` lists is an entry of the appender table (`namesOf` reads the table) -/
theorem namesOf_mem (tbl : List Name) (is : List Nat) (ns : List Name) (h : namesOf tbl is = some ns) :
    ∀ n ∈ ns, n ∈ tbl := by
  induction is generalizing ns with
  | nil =>
    simp only [namesOf, Option.some.injEq] at h
    subst h
    intro n hn; cases hn
  | cons i is ih =>
    simp only [namesOf] at h
    cases hi : tbl[i]? with
    | none => simp [hi] at h
    | some x =>
      cases hr : namesOf tbl is with
      | none => simp [hi, hr] at h
      | some xs =>
        simp only [hi, hr, Option.some.injEq] at h
        subst h
        intro n hn
        rcases List.mem_cons.mp hn with rfl | hn
        · exact List.mem_of_getElem? hi
        · exact ih xs hr n hn

theorem deliver_mem (cfg : Config) (t : Name) (lvl : Nat) (ns : List Name)
    (h : deliver cfg t lvl = some ns) : ∀ n ∈ ns, n ∈ cfg.appenders := by
  unfold deliver at h
  cases hb : build cfg with
  | none => simp [hb] at h
  | some tree =>
    simp only [hb, Option.bind_some, logNode] at h
    split at h
    · exact namesOf_mem _ _ _ h
    · simp only [Option.some.injEq] at h
      subst h
      intro n hn; cases hn

/-- the copies the fan-out produces are the copies the specification counts -/
theorem copies_eq (cfg : SysConfig) (b : Name) (r : SysRecord) :
    (if specAccepts (cfg.app b).thresholds r.level then
        (specDeliver cfg.routing r.target r.level).count b else 0) = specCopies cfg b r := by
  unfold specCopies specDeliver
  by_cases h1 : admits (specLevel cfg.routing r.target) r.level = true <;>
    by_cases h2 : specAccepts (cfg.app b).thresholds r.level = true <;> simp [h1, h2]

theorem sysLog_stateOf (cfg : SysConfig) (asts : Name → List Pat) (h : SysWF cfg asts)
    (r : SysRecord) (c : Name → Bytes) (hd : DatesOkFor cfg asts r) :
    sysLog cfg (stateOf cfg asts c) r =
      .ok (stateOf cfg asts fun b => c b ++ specContribution cfg asts b r) := by
  have hdel := C01_deliver_eq_spec cfg.routing h.valid r.target r.level
  have hmem := deliver_mem cfg.routing r.target r.level _ hdel
  simp only [sysLog, hdel]
  rw [deliverLoop_stateOf cfg asts h r _ c hmem]
  · congr 2
    funext b
    simp only [specContribution, copies_eq]
  · intro n hn hacc
    apply hd n (hmem n hn)
    rw [← copies_eq]
    simp only [hacc, if_true]
    have hpos := List.count_pos_iff.mpr hn
    omega

/-! ### a history -/

theorem sysRunFrom_stateOf (cfg : SysConfig) (asts : Name → List Pat) (h : SysWF cfg asts)
    (rs : List SysRecord) :
    ∀ (c : Name → Bytes), (∀ r ∈ rs, DatesOkFor cfg asts r) →
    sysRunFrom cfg (stateOf cfg asts c) rs =
      .ok (stateOf cfg asts fun b => c b ++ rs.flatMap (specContribution cfg asts b)) := by
  induction rs with
  | nil =>
    intro c _
    simp [sysRunFrom]
  | cons r rs ih =>
    intro c hd
    simp only [sysRunFrom, sysLog_stateOf cfg asts h r c (hd r (by simp))]
    rw [ih _ (fun r' hr' => hd r' (by simp [hr']))]
    congr 2
    funext b
    simp [List.flatMap_cons]

theorem sysRun_stateOf (cfg : SysConfig) (asts : Name → List Pat) (h : SysWF cfg asts)
    (rs : List SysRecord) (hd : ∀ r ∈ rs, DatesOkFor cfg asts r) :
    sysRun cfg rs = .ok (stateOf cfg asts fun b => specFile cfg asts b rs) := by
  simp only [sysRun, sysOpen_ok cfg asts h, sysRunFrom_stateOf cfg asts h rs _ hd, specFile]

theorem contents_stateOf (cfg : SysConfig) (asts : Name → List Pat) (c : Name → Bytes) :
    (stateOf cfg asts c).contents = cfg.routing.appenders.map fun a => (a, c a) := by
  simp [stateOf, FilesState.contents, List.map_map, Function.comp_def]

theorem disk_stateOf (cfg : SysConfig) (asts : Name → List Pat) (c : Name → Bytes) (a : Name)
    (ha : a ∈ cfg.routing.appenders) : (stateOf cfg asts c).disk a = some (c a) := by
  simp only [FilesState.disk, stateOf]
  rw [getApp_map _ (fun b => { enc := chunksFor cfg asts b, file := { disk := c b, buf := [] } }) a ha]
  rfl

theorem quiet_stateOf (cfg : SysConfig) (asts : Name → List Pat) (c : Name → Bytes) :
    ∀ p ∈ (stateOf cfg asts c).apps, p.2.file.buf = [] := by
  intro p hp
  simp only [stateOf, List.mem_map] at hp
  obtain ⟨a, _, rfl⟩ := hp
  rfl

/-! ### a record leaves the appenders it does not reach alone (no hypothesis on patterns or state) -/

theorem appendOne_untouched (cfg : SysConfig) (r : SysRecord) (st st' : FilesState) (n a : Name)
    (hn : n = a → specAccepts (cfg.app a).thresholds r.level = false)
    (h : appendOne cfg r st n = .ok st') : getApp st'.apps a = getApp st.apps a := by
  unfold appendOne at h
  cases hg : getApp st.apps n with
  | none => simp [hg] at h
  | some s =>
    simp only [hg, runChain_thresholds] at h
    by_cases hacc : specAccepts (cfg.app n).thresholds r.level = true
    · have hna : ¬ n = a := by
        intro e; subst e; rw [hn rfl] at hacc; cases hacc
      simp only [hacc, if_true] at h
      cases he : encodeWith s.enc r with
      | ok o =>
        simp only [he, Outcome.ok.injEq] at h
        subst h
        have han : ¬ a = n := fun e => hna e.symm
        simp [getApp_updApp, han]
      | err e =>
        simp only [he, Outcome.ok.injEq] at h
        subst h; rfl
      | panic w => simp [he] at h
    · have hf : specAccepts (cfg.app n).thresholds r.level = false := by simpa using hacc
      simp only [hf, Bool.false_eq_true, if_false, Outcome.ok.injEq] at h
      subst h; rfl

theorem deliverLoop_untouched (cfg : SysConfig) (r : SysRecord) (a : Name) (names : List Name)
    (hn : a ∈ names → specAccepts (cfg.app a).thresholds r.level = false) :
    ∀ (st st' : FilesState), deliverLoop cfg r st names = .ok st' → getApp st'.apps a = getApp st.apps a := by
  induction names with
  | nil =>
    intro st st' h
    simp only [deliverLoop, Outcome.ok.injEq] at h
    subst h; rfl
  | cons n rest ih =>
    intro st st' h
    simp only [deliverLoop] at h
    cases h1 : appendOne cfg r st n with
    | ok st1 =>
      simp only [h1] at h
      have e1 := appendOne_untouched cfg r st st1 n a (fun e => hn (by simp [e])) h1
      have e2 := ih (fun hm => hn (by simp [hm])) st1 st' h
      exact e2.trans e1
    | err e => simp [h1] at h
    | panic w => simp [h1] at h

theorem sysLog_untouched (cfg : SysConfig) (hv : Valid cfg.routing) (st st' : FilesState)
    (r : SysRecord) (a : Name) (hc : specCopies cfg a r = 0) (h : sysLog cfg st r = .ok st') :
    getApp st'.apps a = getApp st.apps a := by
  have hdel := C01_deliver_eq_spec cfg.routing hv r.target r.level
  simp only [sysLog, hdel] at h
  refine deliverLoop_untouched cfg r a _ ?_ st st' h
  intro hm
  rw [← copies_eq] at hc
  by_cases hacc : specAccepts (cfg.app a).thresholds r.level = true
  · simp only [hacc, if_true] at hc
    have := List.count_pos_iff.mpr hm
    omega
  · simpa using hacc

/-! ### snapshots after every record are runs of the prefixes (no hypothesis) -/

theorem sysTraceFrom_prefix (cfg : SysConfig) (rs : List SysRecord) :
    ∀ (st : FilesState) (k : Nat), k < (sysTraceFrom cfg st rs).length →
      (sysTraceFrom cfg st rs)[k]? = some (sysRunFrom cfg st (rs.take (k + 1))) := by
  induction rs with
  | nil => intro st k hk; simp [sysTraceFrom] at hk
  | cons r rs ih =>
    intro st k hk
    cases hl : sysLog cfg st r with
    | ok st1 =>
      simp only [sysTraceFrom, hl, List.length_cons] at hk ⊢
      cases k with
      | zero => simp [sysRunFrom, hl]
      | succ k =>
        simp only [List.getElem?_cons_succ, List.take_succ_cons, sysRunFrom, hl]
        exact ih st1 k (by omega)
    | err e =>
      simp only [sysTraceFrom, hl, List.length_cons, List.length_nil] at hk ⊢
      have : k = 0 := by omega
      subst this
      simp [sysRunFrom, hl]
    | panic w =>
      simp only [sysTraceFrom, hl, List.length_cons, List.length_nil] at hk ⊢
      have : k = 0 := by omega
      subst this
      simp [sysRunFrom, hl]

theorem sysTraceFrom_length_ok (cfg : SysConfig) (asts : Name → List Pat) (h : SysWF cfg asts)
    (rs : List SysRecord) :
    ∀ (c : Name → Bytes), (∀ r ∈ rs, DatesOkFor cfg asts r) →
      (sysTraceFrom cfg (stateOf cfg asts c) rs).length = rs.length := by
  induction rs with
  | nil => intro c _; rfl
  | cons r rs ih =>
    intro c hd
    simp only [sysTraceFrom, sysLog_stateOf cfg asts h r c (hd r (by simp)), List.length_cons]
    rw [ih _ (fun r' hr' => hd r' (by simp [hr']))]

/-! ### declaration order -/

/-- the specification's copies depend on the routing part only through `specDeliver` -/
theorem specCopies_congr (cfg cfg' : SysConfig) (happ : cfg'.app = cfg.app)
    (hdel : ∀ t lvl, specDeliver cfg'.routing t lvl = specDeliver cfg.routing t lvl) (a : Name) (r : SysRecord) :
    specCopies cfg' a r = specCopies cfg a r := by
  rw [← copies_eq, ← copies_eq, happ, hdel]

theorem specFile_congr (cfg cfg' : SysConfig) (asts : Name → List Pat) (happ : cfg'.app = cfg.app)
    (hdel : ∀ t lvl, specDeliver cfg'.routing t lvl = specDeliver cfg.routing t lvl) (a : Name)
    (rs : List SysRecord) : specFile cfg' asts a rs = specFile cfg asts a rs := by
  have hc : specContribution cfg' asts a = specContribution cfg asts a := by
    funext r
    simp only [specContribution, specCopies_congr cfg cfg' happ hdel, specLine, happ]
  simp only [specFile, happ, hc]

end Log4rs.System
