import Log4rsModel.Properties.C15
import Log4rsModel.Properties.Compose
/-
Bridge between the sequential reconfiguration model of System/Reconfig.lean and the snapshot machine
of C15 (Reconfig/Swap.lean): the `SharedLogger` a configuration yields, seen as a C15 `Snapshot`
(targets are numbered by their position in the history's target list, appenders by their table
index), prescribes for every record exactly the deliveries `Tree.deliver` lists — so "a record runs
entirely under the snapshot stored last" (C15) is "a record is routed by the configuration installed
last" (`sysStep`).
-/
set_option linter.unusedSimpArgs false
namespace Log4rs.System
open Log4rs Log4rs.Routing Log4rs.Routing.Tree

/-- the `SharedLogger` built from `cfg` as a C15 snapshot: ONE value holding the tree (`find` per
target) and the table (appender `i` of the table is appender id `i`) -/
def snapOfTree (tag : Nat) (cfg : Config) (targets : List Name) (tree : Node) : Reconfig.Snapshot :=
  { tag := tag
    table := List.range cfg.appenders.length
    level := fun k => (find tree (comps (targets.getD k []))).level
    apps := fun k => (find tree (comps (targets.getD k []))).apps }

def snapshotOf (tag : Nat) (cfg : Config) (targets : List Name) : Option Reconfig.Snapshot :=
  (Tree.build cfg).map (snapOfTree tag cfg targets)

theorem namesOf_of_table (tbl : List Name) (is : List Nat)
    (h : ∀ i ∈ is, tbl[i]? = some (nameOf tbl i)) : namesOf tbl is = some (is.map (nameOf tbl)) := by
  induction is with
  | nil => rfl
  | cons i is ih =>
    simp only [namesOf, h i (by simp), ih (fun j hj => h j (by simp [hj])), List.map_cons]

theorem resolve_range (tag n : Nat) (level : Nat → Nat) (apps : Nat → List Nat) (is : List Nat)
    (h : ∀ i ∈ is, i < n) :
    Reconfig.resolve { tag := tag, table := List.range n, level := level, apps := apps } is =
      is.map fun i => (tag, i) := by
  induction is with
  | nil => rfl
  | cons i is ih =>
    have hi := h i (by simp)
    simp only [Reconfig.resolve, List.filterMap_cons, List.map_cons] at ih ⊢
    rw [ih (fun j hj => h j (by simp [hj]))]
    simp [hi]

theorem snapshotOf_spec (tag : Nat) (cfg : Config) (hv : Valid cfg) (targets : List Name) :
    ∃ s, snapshotOf tag cfg targets = some s ∧ s.WF ∧
      ∀ k lvl, deliver cfg (targets.getD k []) lvl =
        some ((Reconfig.prescribed s k lvl).map fun d => nameOf cfg.appenders d.2) := by
  obtain ⟨tree, hb, hfound⟩ := Compose_found_indices_in_table cfg hv
  refine ⟨snapOfTree tag cfg targets tree, by simp [snapshotOf, hb], ?_, ?_⟩
  · intro t i hi
    simpa [snapOfTree] using (hfound _ i hi).1
  · intro k lvl
    simp only [deliver, hb, Option.bind_some, logNode, Reconfig.prescribed, Reconfig.Snapshot.route, admits,
      snapOfTree]
    by_cases hl : (find tree (comps (targets.getD k []))).level ≥ lvl
    · simp only [hl, decide_true, if_true]
      rw [namesOf_of_table _ _ (fun i hi => (hfound _ i hi).2),
        resolve_range _ _ _ _ _ (fun i hi => (hfound _ i hi).1)]
      simp [List.map_map, Function.comp_def]
    · have hl' : ¬ lvl ≤ (find tree (comps (targets[k]?.getD []))).level := by simpa using hl
      simp [hl', Reconfig.resolve]

end Log4rs.System
