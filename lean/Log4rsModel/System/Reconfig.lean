import Log4rsModel.System.Model
/-
Stage 2 (A) — runtime reconfiguration inside a history.

  ops = `log record` | `setConfig bundle`

`Handle::set_config(config)` (src/lib.rs): `SharedLogger::new(config)` builds ONE new value holding
the new routing tree AND the new appender table, then `self.shared.swap(new)`; the replaced snapshot
and its appenders are dropped. `Log::log` loads the pointer once per record (C15, Reconfig/Swap.lean,
`LoadMode.once`); in a sequential history a record therefore runs entirely under the snapshot stored
last — the `World` below holds exactly that one value (`cfg` = tree source + table, `st` = the
runtime appender objects).

The appenders of a new configuration are NEW objects. A file appender is built when the `Config`
value is constructed — `FileAppender::builder().append(b).build(path)` opens (append mode) or empties
(truncate mode) the file — i.e. BEFORE `set_config` swaps, while the old appenders are still alive.
Order the harness uses, and the model mirrors: (1) build every appender of the new configuration,
in table order, on the files as they are at that moment; (2) `Config::builder()…build(root)`;
(3) `handle.set_config(config)`: `SharedLogger::new` (may panic on `appender_map[name]`), swap;
(4) the old snapshot is dropped: its `BufWriter`s are empty in every state the model reaches
(`FileAppender::append` ends with `flush`; `C01_sys_reconfig_eq_spec` shows `buf = []`), so the drop
writes nothing.

Files live in a filesystem `FS` keyed by a path number. The content of a path is the `disk` of the
live appender that owns it, or what was left there (`World.fs`). A bundle names the path of every
appender; the model is claimed faithful only when no two appenders of ONE configuration share a path
(`PathsInj` in the theorems; two handles on one file are C04's subject). Different configurations
may use the same path, under the same or another appender name.
-/
namespace Log4rs.System
open Log4rs Log4rs.Routing

abbrev FS := Nat → Option Bytes

/-- a configuration as `set_config` gets it: the appenders' `pre` fields are ignored — what a new
appender finds in its file is what the filesystem holds when it is built -/
structure Bundle where
  cfg : SysConfig
  paths : Name → Nat

inductive SysOp where
  | log (r : SysRecord)
  | setConfig (b : Bundle)

/-- the configuration with every appender's previous file content read from the filesystem -/
def reopen (fs : FS) (b : Bundle) : SysConfig :=
  { b.cfg with app := fun a => { b.cfg.app a with pre := fs (b.paths a) } }

/-- the live appender whose file is `p` -/
def owner (tbl : List Name) (paths : Name → Nat) (p : Nat) : Option Name :=
  tbl.find? fun a => paths a = p

/-- the logger's current snapshot (one value: configuration + appender objects) and the files no
live appender owns -/
structure World where
  cfg : SysConfig
  paths : Name → Nat
  st : FilesState
  fs : FS

/-- what a reader finds under path `p` (`none`: no such file) -/
def World.disk (w : World) (p : Nat) : Option Bytes :=
  match owner w.cfg.routing.appenders w.paths p with
  | some a => w.st.disk a
  | none => w.fs p

/-- build the appenders of `b` on the filesystem `fs`, `SharedLogger::new`, store -/
def install (fs : FS) (b : Bundle) : Outcome Unit World :=
  match sysOpen (reopen fs b) with
  | .ok st => .ok { cfg := reopen fs b, paths := b.paths, st := st, fs := fs }
  | .err e => .err e
  | .panic w => .panic w

def sysStep (w : World) : SysOp → Outcome Unit World
  | .log r =>
    match sysLog w.cfg w.st r with
    | .ok st => .ok { w with st := st }
    | .err e => .err e
    | .panic why => .panic why
  | .setConfig b => install w.disk b

def sysRunOpsFrom : World → List SysOp → Outcome Unit World
  | w, [] => .ok w
  | w, op :: ops =>
    match sysStep w op with
    | .ok w' => sysRunOpsFrom w' ops
    | .err e => .err e
    | .panic why => .panic why

/-- `Logger::new(first configuration)` on the initial filesystem, then the history -/
def sysRunOps (fs0 : FS) (b0 : Bundle) (ops : List SysOp) : Outcome Unit World :=
  match install fs0 b0 with
  | .ok w => sysRunOpsFrom w ops
  | .err e => .err e
  | .panic why => .panic why

/-- the worlds after every single op (stops at a panic) -/
def sysTraceOpsFrom : World → List SysOp → List (Outcome Unit World)
  | _, [] => []
  | w, op :: ops =>
    match sysStep w op with
    | .ok w' => .ok w' :: sysTraceOpsFrom w' ops
    | .err e => [.err e]
    | .panic why => [.panic why]

def sysTraceOps (fs0 : FS) (b0 : Bundle) (ops : List SysOp) : List (Outcome Unit World) :=
  match install fs0 b0 with
  | .ok w => sysTraceOpsFrom w ops
  | .err e => [.err e]
  | .panic why => [.panic why]

/-- the observation: the content of the paths `0 … n-1` -/
def observeWorld (n : Nat) : Outcome Unit World → Option (List (Option Bytes))
  | .ok w => some ((List.range n).map w.disk)
  | _ => none

end Log4rs.System
