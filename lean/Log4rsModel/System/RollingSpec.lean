import Log4rsModel.System.Spec
import Log4rsModel.Rolling.Spec
/-
Stage 2 (C) — specification of a rolling appender inside the system: the C05 / C06 specification
(Rolling/Spec.lean: `readBack`, `suffixOfWhole`) applied to the STREAM of encoded records that
routing and the appender's threshold filters deliver to it — per record `specCopies` copies of the
appender's line (`specLine`), in call order.
-/
namespace Log4rs.System
open Log4rs Log4rs.Routing Log4rs.Pattern.Parse

/-- the encoded records delivered to appender `a` over the history, in delivery order: a record
routed `k` times to `a` is `k` consecutive whole records of the stream -/
def deliveredStream (cfg : SysConfig) (asts : Name → List Pat) (a : Name) (rs : List SysRecord) : List Bytes :=
  rs.flatMap fun r => List.replicate (specCopies cfg a r) (specLine cfg asts a r)

/-- the retained files of the appender's directory, oldest archive first, the active file last -/
def RollSpec.files (rs : RollSpec) (get : List Char → Option Bytes) : List Bytes :=
  match rs.roller with
  | .delete => [(get rs.active).getD []]
  | .fixedWindow pattern base count =>
    Rolling.Spec.diskFiles (Roller.mkRoller id id pattern base count).nameOf base count rs.active get

/-- what was in the directory when the appender was built, as a stream: the archives oldest first and,
in append mode, the log file's content -/
def RollSpec.initialStream (rs : RollSpec) (appendMode : Bool) : List Bytes :=
  (rs.files rs.dir.get?).dropLast ++ (if appendMode then [(rs.dir.get? rs.active).getD []] else [])

/-- C05 + C06 on a directory snapshot: the retained files, read oldest to newest, are the stream
(initial content, then the delivered records) minus whole oldest files, every record whole, in
order, once; and once something was delivered the active file is within the limit -/
def specRollingOk (rs : RollSpec) (appendMode : Bool) (stream : List Bytes) (get : List Char → Option Bytes) : Bool :=
  Rolling.Spec.suffixOfWhole ((rs.initialStream appendMode ++ stream).map fun b => { bytes := b, must := true })
    (rs.files get) &&
  (stream.isEmpty || decide (((get rs.active).getD []).length ≤ rs.limit))

end Log4rs.System
