import Log4rsModel.System.RollingSpec
import Log4rsModel.System.Lemmas
import Log4rsModel.Properties.C05
import Log4rsModel.Properties.C06
/-
Lemmas of stage 2 (C). The generic part: whatever the sinks are (plain files, rolling appenders),
the appender behind every name sees exactly the stream of encoded records the specification delivers
to it, in order (`sysRun_sinks`): its final state is `fileAppend` folded over `deliveredStream`.
The rolling part: that fold is a run of the C05 / C06 appender model on the stream.
-/
set_option linter.unusedSimpArgs false
namespace Log4rs.System
open Log4rs Log4rs.Routing Log4rs.Routing.Tree Log4rs.Pattern Log4rs.Pattern.Parse

/-- chrono accepts what it is asked (as `DatesOkFor`, for any kind of sink) -/
def DatesOkR (cfg : SysConfig) (asts : Name → List Pat) (r : SysRecord) : Prop :=
  ∀ a ∈ cfg.routing.appenders, specCopies cfg a r ≠ 0 → (cfg.app a).kind = .pattern → DatesOk cfg.B r.env (asts a)

/-- every name of the table has a built appender carrying the encoder of its configuration -/
def Good (cfg : SysConfig) (asts : Name → List Pat) (st : FilesState) : Prop :=
  ∀ a ∈ cfg.routing.appenders, ∃ s, getApp st.apps a = some s ∧ s.enc = chunksFor cfg asts a

theorem fileAppend_enc (s : AppState) (o : Bytes) : (fileAppend s o).enc = s.enc := by
  unfold fileAppend
  cases s.roll with
  | none => rfl
  | some p => rfl

theorem appendOne_proj (cfg : SysConfig) (asts : Name → List Pat) (h : SysWFR cfg asts) (r : SysRecord)
    (st : FilesState) (hg : Good cfg asts st) (a : Name) (ha : a ∈ cfg.routing.appenders)
    (hd : specAccepts (cfg.app a).thresholds r.level = true → (cfg.app a).kind = .pattern →
      DatesOk cfg.B r.env (asts a)) :
    ∃ st', appendOne cfg r st a = .ok st' ∧ Good cfg asts st' ∧
      ∀ b, getApp st'.apps b =
        if b = a ∧ specAccepts (cfg.app a).thresholds r.level = true then
          (getApp st.apps b).map fun s => fileAppend s (specLine cfg asts a r)
        else getApp st.apps b := by
  obtain ⟨s, hs, henc⟩ := hg a ha
  by_cases hacc : specAccepts (cfg.app a).thresholds r.level = true
  · have ho := encode_ok cfg asts h a ha r (hd hacc)
    rw [← henc] at ho
    refine ⟨{ apps := updApp a (fun s => fileAppend s (specLine cfg asts a r)) st.apps,
              errors := if appendFails s (specLine cfg asts a r) then st.errors ++ [a] else st.errors },
      by simp only [appendOne, hs, runChain_thresholds, hacc, if_true, ho], ?_, ?_⟩
    · intro b hb
      obtain ⟨sb, hsb, hencb⟩ := hg b hb
      simp only [getApp_updApp]
      by_cases hba : b = a
      · subst hba
        exact ⟨fileAppend s (specLine cfg asts b r), by simp [hs], by rw [fileAppend_enc, henc]⟩
      · exact ⟨sb, by simp [hba, hsb], hencb⟩
    · intro b
      simp only [getApp_updApp, hacc, and_true]
      by_cases hba : b = a
      · subst hba; simp
      · simp [hba]
  · have hf : specAccepts (cfg.app a).thresholds r.level = false := by simpa using hacc
    exact ⟨st, by simp [appendOne, hs, runChain_thresholds, hf], hg, by intro b; simp [hf]⟩

theorem foldl_replicate_succ {α β : Type} (f : α → β → α) (s : α) (x : β) (n : Nat) :
    (List.replicate n x).foldl f (f s x) = (List.replicate (n + 1) x).foldl f s := by
  simp [List.replicate_succ]

theorem deliverLoop_proj (cfg : SysConfig) (asts : Name → List Pat) (h : SysWFR cfg asts) (r : SysRecord)
    (names : List Name) :
    ∀ (st : FilesState), Good cfg asts st → (∀ n ∈ names, n ∈ cfg.routing.appenders) →
    (∀ n ∈ names, specAccepts (cfg.app n).thresholds r.level = true → (cfg.app n).kind = .pattern →
      DatesOk cfg.B r.env (asts n)) →
    ∃ st', deliverLoop cfg r st names = .ok st' ∧ Good cfg asts st' ∧
      ∀ b, getApp st'.apps b = (getApp st.apps b).map fun s =>
        (List.replicate (if specAccepts (cfg.app b).thresholds r.level then names.count b else 0)
          (specLine cfg asts b r)).foldl fileAppend s := by
  induction names with
  | nil =>
    intro st hg _ _
    refine ⟨st, rfl, hg, fun b => ?_⟩
    cases getApp st.apps b <;> simp
  | cons a rest ih =>
    intro st hg hm hd
    obtain ⟨st1, h1, hg1, hp1⟩ := appendOne_proj cfg asts h r st hg a (hm a (by simp)) (hd a (by simp))
    obtain ⟨st2, h2, hg2, hp2⟩ := ih st1 hg1 (fun n hn => hm n (by simp [hn])) (fun n hn => hd n (by simp [hn]))
    refine ⟨st2, by simp only [deliverLoop, h1, h2], hg2, fun b => ?_⟩
    rw [hp2 b, hp1 b]
    by_cases hba : b = a
    · subst hba
      by_cases hacc : specAccepts (cfg.app b).thresholds r.level = true
      · simp only [hacc, and_self, if_true, Option.map_map, List.count_cons_self]
        cases getApp st.apps b with
        | none => rfl
        | some s0 =>
          simp only [Option.map_some, Function.comp_apply]
          rw [foldl_replicate_succ]
      · have hf : specAccepts (cfg.app b).thresholds r.level = false := by simpa using hacc
        simp [hf]
    · have hab : ¬ a = b := fun e => hba e.symm
      simp [hba, List.count_cons, hab]

theorem sysLog_proj (cfg : SysConfig) (asts : Name → List Pat) (h : SysWFR cfg asts) (r : SysRecord)
    (st : FilesState) (hg : Good cfg asts st) (hd : DatesOkR cfg asts r) :
    ∃ st', sysLog cfg st r = .ok st' ∧ Good cfg asts st' ∧
      ∀ b, getApp st'.apps b = (getApp st.apps b).map fun s =>
        (List.replicate (specCopies cfg b r) (specLine cfg asts b r)).foldl fileAppend s := by
  have hdel := C01_deliver_eq_spec cfg.routing h.valid r.target r.level
  have hmem := deliver_mem cfg.routing r.target r.level _ hdel
  obtain ⟨st', h1, hg', hp⟩ := deliverLoop_proj cfg asts h r _ st hg hmem (by
    intro n hn hacc
    apply hd n (hmem n hn)
    rw [← copies_eq]
    simp only [hacc, if_true]
    have hpos := List.count_pos_iff.mpr hn
    omega)
  refine ⟨st', by simp only [sysLog, hdel, h1], hg', fun b => ?_⟩
  rw [hp b, copies_eq]

theorem sysRunFrom_proj (cfg : SysConfig) (asts : Name → List Pat) (h : SysWFR cfg asts)
    (rs : List SysRecord) :
    ∀ (st : FilesState), Good cfg asts st → (∀ r ∈ rs, DatesOkR cfg asts r) →
    ∃ st', sysRunFrom cfg st rs = .ok st' ∧ Good cfg asts st' ∧
      ∀ b, getApp st'.apps b = (getApp st.apps b).map fun s =>
        (deliveredStream cfg asts b rs).foldl fileAppend s := by
  induction rs with
  | nil =>
    intro st hg _
    refine ⟨st, rfl, hg, fun b => ?_⟩
    cases getApp st.apps b <;> simp [deliveredStream]
  | cons r rs ih =>
    intro st hg hd
    obtain ⟨st1, h1, hg1, hp1⟩ := sysLog_proj cfg asts h r st hg (hd r (by simp))
    obtain ⟨st2, h2, hg2, hp2⟩ := ih st1 hg1 (fun r' hr' => hd r' (by simp [hr']))
    refine ⟨st2, by simp only [sysRunFrom, h1, h2], hg2, fun b => ?_⟩
    rw [hp2 b, hp1 b]
    cases getApp st.apps b <;> simp [deliveredStream, List.flatMap_cons, List.foldl_append]

theorem openApp_sink (cfg : SysConfig) (asts : Name → List Pat) (h : SysWFR cfg asts) (a : Name)
    (ha : a ∈ cfg.routing.appenders) :
    openApp cfg a = .ok (openSink (cfg.app a) (chunksFor cfg asts a)) := by
  cases hk : (cfg.app a).kind with
  | json => simp [openApp, hk, chunksFor]
  | pattern =>
    have hp := C09_parse_show cfg.cc h.cc cfg.P h.us h.dcp (asts a) (h.wf a ha hk)
    simp [openApp, hk, newEncoder, h.printed a ha hk, hp, omap, chunksFor]

theorem openAll_sink (cfg : SysConfig) (asts : Name → List Pat) (h : SysWFR cfg asts) (l : List Name)
    (hl : ∀ a ∈ l, a ∈ cfg.routing.appenders) :
    openAll cfg l = .ok (l.map fun a => (a, openSink (cfg.app a) (chunksFor cfg asts a))) := by
  induction l with
  | nil => rfl
  | cons x xs ih =>
    simp [openAll, openApp_sink cfg asts h x (hl x (by simp)), ih (fun a ha => hl a (by simp [ha]))]

theorem openSink_enc (sa : SysAppender) (e : Encoder) : (openSink sa e).enc = e := by
  unfold openSink
  cases sa.rolling <;> rfl

theorem sysOpen_sink (cfg : SysConfig) (asts : Name → List Pat) (h : SysWFR cfg asts) :
    ∃ st, sysOpen cfg = .ok st ∧ Good cfg asts st ∧ st.errors = [] ∧
      ∀ a ∈ cfg.routing.appenders, getApp st.apps a = some (openSink (cfg.app a) (chunksFor cfg asts a)) := by
  have hb := C01_build_total cfg.routing h.valid
  refine ⟨{ apps := cfg.routing.appenders.map fun a => (a, openSink (cfg.app a) (chunksFor cfg asts a)), errors := [] },
    by simp [sysOpen, openAll_sink cfg asts h _ (fun _ ha => ha), hb], ?_, rfl, ?_⟩
  · intro a ha
    exact ⟨_, getApp_map _ _ a ha, openSink_enc _ _⟩
  · intro a ha
    exact getApp_map _ _ a ha

/-- GENERIC: every appender sees exactly its delivered stream -/
theorem sysRun_sinks (cfg : SysConfig) (asts : Name → List Pat) (h : SysWFR cfg asts)
    (rs : List SysRecord) (hd : ∀ r ∈ rs, DatesOkR cfg asts r) :
    ∃ st, sysRun cfg rs = .ok st ∧
      ∀ a ∈ cfg.routing.appenders, getApp st.apps a =
        some ((deliveredStream cfg asts a rs).foldl fileAppend (openSink (cfg.app a) (chunksFor cfg asts a))) := by
  obtain ⟨st0, h0, hg0, _, hs0⟩ := sysOpen_sink cfg asts h
  obtain ⟨st, h1, _, hp⟩ := sysRunFrom_proj cfg asts h rs st0 hg0 hd
  refine ⟨st, by simp only [sysRun, h0, h1], fun a ha => ?_⟩
  rw [hp a, hs0 a ha]
  rfl

/-! ### the rolling sink is the C05 / C06 model run on the stream -/

/-- the stream as a history of the rolling appender: one append per record, one slice, no fault -/
def streamOps (stream : List Bytes) : List Rolling.XOp := stream.map fun x => .op (.append [x] none)

/-- final state of a history in the appender model (the state component of `Rolling.grunX`) -/
def rollFinal (c : Rolling.Cfg Unit) (s : Rolling.St Unit) : List Rolling.XOp → Rolling.St Unit
  | [] => s
  | op :: ops => rollFinal c (Rolling.applyX c s op).2 ops

theorem grunX_state (c : Rolling.Cfg Unit) (s : Rolling.St Unit) (g : Rolling.Ghost) (ops : List Rolling.XOp) :
    (Rolling.grunX c s g ops).2.1 = rollFinal c s ops := by
  induction ops generalizing s g with
  | nil => rfl
  | cons op ops ih => simp [Rolling.grunX, rollFinal, ih]

theorem foldl_fileAppend_roll (e : Encoder) (f : Rolling.BufFile) (c : Rolling.Cfg Unit) (stream : List Bytes) :
    ∀ (s : Rolling.St Unit),
      stream.foldl fileAppend { enc := e, file := f, roll := some (c, s) } =
        { enc := e, file := f, roll := some (c, rollFinal c s (streamOps stream)) } := by
  induction stream with
  | nil => intro s; rfl
  | cons x xs ih =>
    intro s
    simp only [List.foldl_cons, fileAppend, streamOps, List.map_cons, rollFinal]
    exact ih _

end Log4rs.System
