import Log4rsModel.System.Model
import Log4rsModel.Routing.Spec
import Log4rsModel.Pattern.Ast
/-
Executable specification of the whole pipeline, read off the English statement; no tree, no filter
loop, no parser, no BufWriter.

After a history of records, the file of appender `a` holds

  what opening left there (append mode: the previous content; truncate mode: nothing)
  followed, for the records in call order, by `k` copies of the UTF-8 of the meaning of `a`'s pattern
  on the record,

where `k` is the number of times `a` is attached along the chain of the record's effective logger
(its own attachments, then those of its additive ancestors up to the root) when that logger's level
admits the record AND every threshold filter of `a` admits it — and `0` otherwise.

The words come from the areas' own specifications: `effective` / `chain` / `specLevel`
(Routing/Spec.lean), `denotePats` (Pattern/Ast.lean), `openContent` (Rolling/File.lean), `utf8`
(Base/Bytes.lean). The pattern of an appender is given as an AST of the documented grammar (`asts`);
its source text is the printed AST.
-/
namespace Log4rs.System
open Log4rs Log4rs.Routing Log4rs.Routing.Tree Log4rs.Pattern Log4rs.Pattern.Parse

/-- every threshold filter of the appender lets the level through (a threshold rejects exactly the
records more verbose than its level; it never accepts, so all of them are consulted) -/
def specAccepts (thresholds : List Nat) (lvl : Nat) : Bool :=
  thresholds.all fun t => decide (lvl ≤ t)

/-- number of copies of the record that reach the file of `a` -/
def specCopies (cfg : SysConfig) (a : Name) (r : SysRecord) : Nat :=
  if admits (specLevel cfg.routing r.target) r.level && specAccepts (cfg.app a).thresholds r.level then
    (chain cfg.routing (comps r.target).length (effective cfg.routing r.target)).count a
  else 0

/-- the bytes one delivery of the record adds to the file of `a`: the meaning of `a`'s pattern on
the record, or — for an appender with the JSON encoder (stage 2 (B)) — the JSON line of the record
(Json/Model.lean `jsonLine`; `C01_sys_json_line_meets_c12_spec`: it is a line the C12 specification
accepts for this record) -/
def specLine (cfg : SysConfig) (asts : Name → List Pat) (a : Name) (r : SysRecord) : Bytes :=
  match (cfg.app a).kind with
  | .pattern => utf8 (denotePats r.env r.record (asts a))
  | .json => utf8 (jsonOf r)

/-- what one record adds to the file of `a` -/
def specContribution (cfg : SysConfig) (asts : Name → List Pat) (a : Name) (r : SysRecord) : Bytes :=
  (List.replicate (specCopies cfg a r) (specLine cfg asts a r)).flatten

/-- the file of `a` after the history -/
def specFile (cfg : SysConfig) (asts : Name → List Pat) (a : Name) (rs : List SysRecord) : Bytes :=
  Rolling.openContent (cfg.app a).mode (cfg.app a).pre ++ rs.flatMap (specContribution cfg asts a)

/-- all files, in table order -/
def specFiles (cfg : SysConfig) (asts : Name → List Pat) (rs : List SysRecord) : List (Name × Bytes) :=
  cfg.routing.appenders.map fun a => (a, specFile cfg asts a rs)

end Log4rs.System
