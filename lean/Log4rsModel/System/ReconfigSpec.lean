import Log4rsModel.System.Reconfig
import Log4rsModel.System.Spec
/-
Specification of a history with reconfigurations: the history is cut into segments at the
`setConfig` ops; within a segment the files of the segment's configuration hold what the stage-1
specification (`specFile`) prescribes for the segment's records, starting from what the appender
found when it was built (append mode: the file as the previous segments left it; truncate mode:
nothing); files the segment's configuration does not own stay as they are.
-/
namespace Log4rs.System
open Log4rs Log4rs.Routing Log4rs.Pattern.Parse

/-- a configuration together with the ASTs its patterns are printed from (the model never reads `asts`) -/
structure SpecBundle where
  b : Bundle
  asts : Name → List Pat

inductive SpecOp where
  | log (r : SysRecord)
  | setConfig (c : SpecBundle)

def SpecOp.toOp : SpecOp → SysOp
  | .log r => .log r
  | .setConfig c => .setConfig c.b

/-- the filesystem after a segment: configuration `c` built on `fs`, then the records `rs` -/
def specSegment (fs : FS) (c : SpecBundle) (rs : List SysRecord) : FS := fun p =>
  match owner c.b.cfg.routing.appenders c.b.paths p with
  | some a => some (specFile (reopen fs c.b) c.asts a rs)
  | none => fs p

/-- the filesystem after a history: `fs` = the filesystem when the current configuration `c` was
built, `pending` = the records logged under it so far -/
def specOps (fs : FS) (c : SpecBundle) (pending : List SysRecord) : List SpecOp → FS
  | [] => specSegment fs c pending
  | .log r :: ops => specOps fs c (pending ++ [r]) ops
  | .setConfig c' :: ops => specOps (specSegment fs c pending) c' [] ops

def specObserve (n : Nat) (fs : FS) : List (Option Bytes) := (List.range n).map fs

end Log4rs.System
