import Log4rsModel.Routing.Spec
/-
String layer of the routing proofs: how `splitFirst` (`str::find("::")` + slicing, used by `add`) relates to
`comps` (`str::split("::")`, used by `find` and by the specification), that a name is determined by its
components, and how its UTF-8 length is made up of them.
-/
namespace Log4rs.Routing.Tree
open Log4rs Log4rs.Str

/-- the scanner shared by `splitFirstAux` and `Str.splitOnAux`: leftmost `"::"`, text before it, text after it -/
def findSepAux : List Char → List Char → Option (Name × Name)
  | [], _ => none
  | c :: s, cur =>
    if Str.isPrefix sep (c :: s) then some (cur.reverse, (c :: s).drop sep.length)
    else findSepAux s (c :: cur)

def findSep (s : Name) : Option (Name × Name) := findSepAux s []

theorem splitFirstAux_eq (s cur : List Char) :
    splitFirstAux s cur =
      match findSepAux s cur with
      | some pr => pr
      | none => (cur.reverse ++ s, []) := by
  induction s generalizing cur with
  | nil => simp [splitFirstAux, findSepAux]
  | cons c s ih =>
    simp only [splitFirstAux, findSepAux]
    split
    · rfl
    · rw [ih]; simp

theorem findSepAux_some {s cur : List Char} {p r : Name} (h : findSepAux s cur = some (p, r)) :
    cur.reverse ++ s = p ++ sep ++ r ∧ r.length + 2 ≤ s.length := by
  induction s generalizing cur with
  | nil => simp [findSepAux] at h
  | cons c s ih =>
    simp only [findSepAux] at h
    split at h
    · rename_i hp
      simp only [Option.some.injEq, Prod.mk.injEq] at h
      obtain ⟨rfl, rfl⟩ := h
      cases s with
      | nil => simp [Str.isPrefix, sep] at hp
      | cons d s =>
        simp only [Str.isPrefix, sep, Bool.and_true, Bool.and_eq_true, decide_eq_true_eq] at hp
        obtain ⟨h1, h2⟩ := hp
        subst h1 h2
        simp [sep]
    · have := ih h
      constructor
      · simpa using this.1
      · simp only [List.length_cons]; omega

theorem splitOnAux_step (fuel : Nat) (s cur : List Char) (hf : s.length + 1 ≤ fuel) :
    match findSepAux s cur with
    | some (p, r) => ∃ f', r.length + 1 ≤ f' ∧ splitOnAux sep fuel s cur = p :: splitOnAux sep f' r []
    | none => splitOnAux sep fuel s cur = [cur.reverse ++ s] := by
  induction s generalizing cur fuel with
  | nil =>
    cases fuel <;> simp [splitOnAux, findSepAux]
  | cons c s ih =>
    cases fuel with
    | zero => simp at hf
    | succ fuel =>
      have hf' : s.length + 1 ≤ fuel := by simpa using hf
      by_cases hp : isPrefix sep (c :: s) = true
      · simp only [splitOnAux, findSepAux, hp, if_true]
        refine ⟨fuel, ?_, rfl⟩
        simp [sep]; omega
      · simp only [splitOnAux, findSepAux, hp]
        have := ih fuel (c :: cur) hf'
        cases hfs : findSepAux s (c :: cur) with
        | none => rw [hfs] at this; simpa using this
        | some pr => rw [hfs] at this; exact this

/-- more fuel than needed changes nothing -/
theorem splitOnAux_fuel (fuel : Nat) (s cur : List Char) (hf : s.length + 1 ≤ fuel) :
    splitOnAux sep fuel s cur = splitOnAux sep (s.length + 1) s cur := by
  induction hn : s.length using Nat.strongRecOn generalizing s cur fuel with
  | _ n ih =>
    subst hn
    have h1 := splitOnAux_step fuel s cur hf
    have h2 := splitOnAux_step (s.length + 1) s cur (Nat.le_refl _)
    cases hfs : findSepAux s cur with
    | none => rw [hfs] at h1 h2; rw [h1, h2]
    | some pr =>
      obtain ⟨p, r⟩ := pr
      have hlen := (findSepAux_some hfs).2
      rw [hfs] at h1 h2
      obtain ⟨f1, hf1, e1⟩ := h1
      obtain ⟨f2, hf2, e2⟩ := h2
      rw [e1, e2, ih r.length (by omega) f1 r [] hf1 rfl, ih r.length (by omega) f2 r [] hf2 rfl]

/-- `split("::")` = text before the first `"::"`, then `split("::")` of the text after it -/
theorem comps_eq (s : Name) :
    comps s = match findSep s with
      | some (p, r) => p :: comps r
      | none => [s] := by
  unfold comps splitOn findSep
  have h := splitOnAux_step (s.length + 1) s [] (Nat.le_refl _)
  cases hfs : findSepAux s [] with
  | none => rw [hfs] at h; simpa using h
  | some pr =>
    obtain ⟨p, r⟩ := pr
    rw [hfs] at h
    obtain ⟨f, hf, e⟩ := h
    rw [e, splitOnAux_fuel f r [] hf]

theorem splitFirst_eq (s : Name) :
    splitFirst s = match findSep s with
      | some pr => pr
      | none => (s, []) := by
  unfold splitFirst findSep
  rw [splitFirstAux_eq]; simp

theorem findSep_some {s p r : Name} (h : findSep s = some (p, r)) :
    s = p ++ sep ++ r ∧ r.length + 2 ≤ s.length := by
  have := findSepAux_some h
  simpa using this

theorem comps_ne_nil (s : Name) : comps s ≠ [] := by
  rw [comps_eq]; split <;> simp

/-- `"::"`-join of components -/
def joinC : List Name → Name
  | [] => []
  | [c] => c
  | c :: d :: cs => c ++ sep ++ joinC (d :: cs)

/-- a name is the join of its components, so equal components mean equal names -/
theorem joinC_comps (s : Name) : joinC (comps s) = s := by
  induction hn : s.length using Nat.strongRecOn generalizing s with
  | _ n ih =>
    rw [comps_eq]
    cases hfs : findSep s with
    | none => simp [joinC]
    | some pr =>
      obtain ⟨p, r⟩ := pr
      obtain ⟨hs, hlen⟩ := findSep_some hfs
      simp only
      have hne := comps_ne_nil r
      cases hc : comps r with
      | nil => exact absurd hc hne
      | cons d ds =>
        simp only [joinC]
        rw [← hc, ih r.length (by omega) r rfl, hs]

theorem comps_inj {s t : Name} (h : comps s = comps t) : s = t := by
  rw [← joinC_comps s, ← joinC_comps t, h]

theorem byteLen_append (a b : Name) : byteLen (a ++ b) = byteLen a + byteLen b := by
  induction a with
  | nil => simp [byteLen]
  | cons c a ih => simp [byteLen, ih]; omega

/-- byte length of a name in terms of its components: every component after the first costs its own
bytes plus two for the separator -/
def clen : List Name → Nat
  | [] => 0
  | [c] => byteLen c
  | c :: d :: cs => byteLen c + 2 + clen (d :: cs)

theorem byteLen_joinC (cs : List Name) : byteLen (joinC cs) = clen cs := by
  induction cs with
  | nil => simp [joinC, clen, byteLen]
  | cons c cs ih =>
    cases cs with
    | nil => simp [joinC, clen]
    | cons d ds =>
      simp only [joinC, clen, byteLen_append, ih]
      simp [sep, byteLen, utf8Len]

theorem byteLen_eq_clen (s : Name) : byteLen s = clen (comps s) := by
  rw [← byteLen_joinC, joinC_comps]

theorem clen_append_lt (p r : List Name) (hp : p ≠ []) (hr : r ≠ []) : clen p < clen (p ++ r) := by
  induction p with
  | nil => exact absurd rfl hp
  | cons c p ih =>
    cases p with
    | nil =>
      cases r with
      | nil => exact absurd rfl hr
      | cons d ds => simp [clen]; omega
    | cons c' p' =>
      have := ih (by simp)
      simp only [List.cons_append, clen] at this ⊢
      omega

/-- a proper component prefix is strictly shorter in bytes — why sorting by byte length inserts ancestors first -/
theorem clen_lt_of_prefix {p q : List Name} (hp : p ≠ []) (h : p <+: q) (hne : p ≠ q) : clen p < clen q := by
  obtain ⟨r, rfl⟩ := h
  apply clen_append_lt p r hp
  intro hr; subst hr; simp at hne

/-- the last character of a name accepted by `check_logger_name` is not a colon -/
def EndsOk (s : Name) : Prop := s ≠ [] ∧ s.getLast? ≠ some ':'

theorem checkNameAux_endsOk (s : Name) (k : Nat) (hs : s ≠ []) (h : checkNameAux s k = true) :
    s.getLast? ≠ some ':' := by
  induction s generalizing k with
  | nil => exact absurd rfl hs
  | cons c s ih =>
    simp only [checkNameAux] at h
    cases s with
    | nil =>
      split at h
      · rename_i hc
        split at h
        · simp at h
        · simp [checkNameAux] at h
      · rename_i hc
        simp [hc]
    | cons d s =>
      have hne : (d :: s) ≠ [] := by simp
      rw [List.getLast?_cons_cons]
      split at h
      · split at h
        · simp at h
        · exact ih (k + 1) hne h
      · split at h
        · simp at h
        · exact ih 0 hne h

theorem checkLoggerName_endsOk {s : Name} (h : checkLoggerName s = true) : EndsOk s := by
  unfold checkLoggerName at h
  split at h
  · simp at h
  · rename_i hne
    have hs : s ≠ [] := by simpa using hne
    exact ⟨hs, checkNameAux_endsOk s 0 hs h⟩

/-- for such a name the text after a found `"::"` is never empty and is again such a name -/
theorem EndsOk.rest {s p r : Name} (hs : EndsOk s) (h : findSep s = some (p, r)) : EndsOk r := by
  obtain ⟨heq, _⟩ := findSep_some h
  have hr : r ≠ [] := by
    intro hr
    subst hr
    have := hs.2
    rw [heq] at this
    simp [sep] at this
  refine ⟨hr, ?_⟩
  have := hs.2
  rw [heq, List.getLast?_append] at this
  cases hl : r.getLast? with
  | none => simp [List.getLast?_eq_none_iff] at hl; exact absurd hl hr
  | some x => rw [hl] at this; simpa using this

end Log4rs.Routing.Tree
