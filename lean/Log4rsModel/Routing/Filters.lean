import Log4rsModel.Base.Level
import Log4rsModel.Base.Outcome
/-
C03 — model of the filter chain interpreter `Appender::append` (src/lib.rs 300–311), of
`ThresholdFilter::filter` (src/filter/threshold.rs 31–39), of the fan-out loop
`ConfiguredLogger::log` (src/lib.rs 276–291), of the error loop in `Log::log` (438–449), of which
error handler a `SharedLogger` holds (`Logger::new`, `Logger::new_with_err_handler`,
`Handle::set_config`, src/lib.rs) and of how a chain comes to be attached
(`AppenderBuilder::{filter,filters}`, `RawConfig::appenders_lossy`), followed by the executable
specification read off the English statement.

Generic part: the record type `ρ` is arbitrary and a filter is any function `ρ → Response`; the
result of an appender's `append` may differ from call to call. The check instantiates `ρ` with the
record level and the filters with scripted answers and the threshold filter.

The observation is the complete sequence of calls one `Log::log` makes: which filter (named by the
position at which it was DECLARED — its label) of which appender is consulted, which appender's
`append` is called, which error reaches which handler.
-/
namespace Log4rs.Routing

/-! ## Part 1 — the model -/

/-- `filter::Response` -/
inductive Response where
  | accept | neutral | reject
  deriving Repr, DecidableEq

/-- a filter as an appender holds it: the label it got when it was declared (position in the
declaration) and its answer function -/
abbrev LFilter (ρ : Type) := Nat × (ρ → Response)

/-- filters get their labels where they are declared: first declared = 0 -/
def declare {ρ : Type} (fs : List (ρ → Response)) : List (LFilter ρ) :=
  fs.zipIdx.map fun p => (p.2, p.1)

/-- the loop at the head of `Appender::append`, on the appender's vector in vector order: returns
(labels of the filters consulted, in consultation order; whether `self.appender.append(record)` is
reached). Accept breaks, Neutral continues, Reject returns. -/
def runChainL {ρ : Type} (r : ρ) : List (LFilter ρ) → List Nat × Bool
  | [] => ([], true)
  | (l, f) :: rest =>
    match f r with
    | .accept => ([l], true)
    | .reject => ([l], false)
    | .neutral => let t := runChainL r rest; (l :: t.1, t.2)

/-- what one call of `Append::append` does: returns `Ok`, returns `Err`, or unwinds -/
inductive CallResult where
  | ok | err | panic
  deriving Repr, DecidableEq

/-- a configured appender: its filter vector and what its `append` does on its k-th call
(k = 0, 1, …) during the `Log::log` under consideration -/
structure AppenderG (ρ : Type) where
  chain : List (LFilter ρ)
  result : Nat → CallResult

/-- one call made during `Log::log` -/
inductive Event where
  | filter (app label : Nat)    -- `appenders[app].filters[..].filter(record)`, the filter declared at `label`
  | append (app : Nat)          -- `appenders[app].appender.append(record)`
  | handler (app : Nat)         -- the handler given to `new_with_err_handler` gets the error of appender `app`
  | stderr (app : Nat)          -- the default handler of `SharedLogger::new` writes it to stderr
  deriving Repr, DecidableEq

/-- `Appender::append` of appender number `i`, its `k`-th reached call: the calls it makes and how
it ends (a rejected record returns `Ok` without reaching the appender) -/
def appendOneG {ρ : Type} (i : Nat) (a : AppenderG ρ) (r : ρ) (k : Nat) : List Event × CallResult :=
  let c := runChainL r a.chain
  (c.1.map (Event.filter i) ++ (if c.2 then [Event.append i] else []),
   if c.2 then a.result k else .ok)

/-- result of the `for &idx in &self.appenders` loop -/
inductive LoopResult where
  | done (events : List Event) (errors : List Nat)   -- calls made; appenders whose `Err` was pushed, in order
  | panicked (events : List Event)                   -- unwound after these calls; the pushed errors are lost
  deriving Repr, DecidableEq

/-- the loop of `ConfiguredLogger::log`. `reached` lists the appenders whose `append` was already
called during this loop (it determines the call number of the next one). `appenders[idx]` out of
range panics; a panicking `append` unwinds through the loop. -/
def attachLoopG {ρ : Type} (table : List (AppenderG ρ)) (r : ρ) : List Nat → List Nat → LoopResult
  | [], _ => .done [] []
  | idx :: rest, reached =>
    match table[idx]? with
    | none => .panicked []
    | some a =>
      let one := appendOneG idx a r (reached.count idx)
      if one.2 = .panic then .panicked one.1
      else
        let reached' := if (runChainL r a.chain).2 then idx :: reached else reached
        match attachLoopG table r rest reached' with
        | .done ev errs => .done (one.1 ++ ev) ((if one.2 = .err then [idx] else []) ++ errs)
        | .panicked ev => .panicked (one.1 ++ ev)

/-- result of one `Log::log` -/
inductive LogResult where
  | returned (calls : List Event)
  | panicked (calls : List Event)
  deriving Repr, DecidableEq

def LogResult.map (f : Event → Event) : LogResult → LogResult
  | .returned tr => .returned (tr.map f)
  | .panicked tr => .panicked (tr.map f)

/-- `ConfiguredLogger::log` followed by the error loop of `Log::log`, for the handler given to
`new_with_err_handler`: every call, in order. `nodeLevel` is the level of the logger node `find`
returned, `attached` its appender indices, `lvlOf` reads `record.level()`. -/
def fanoutG {ρ : Type} (table : List (AppenderG ρ)) (nodeLevel : Nat) (attached : List Nat)
    (lvlOf : ρ → Nat) (r : ρ) : LogResult :=
  if admits nodeLevel (lvlOf r) then
    match attachLoopG table r attached [] with
    | .done ev errs => .returned (ev ++ errs.map Event.handler)
    | .panicked ev => .panicked ev
  else .returned []

/-! ### which handler a logger holds -/

inductive HandlerId where
  | configured     -- the closure given to `Logger::new_with_err_handler` / `init_config_with_err_handler`
  | default        -- the closure `SharedLogger::new` installs: `writeln!(io::stderr(), "log4rs: {}", e)`
  deriving Repr, DecidableEq

/-- what `Log::log` loads for a record: the appender table, the node `find` returns for the
record's target (its level and attachment list), the error handler -/
structure Shared (ρ : Type) where
  table : List (AppenderG ρ)
  nodeLevel : Nat
  attached : List Nat
  handler : HandlerId

/-- an error handed to the default handler shows up on stderr, not in the configured closure -/
def viaHandler : HandlerId → Event → Event
  | .default, .handler a => .stderr a
  | _, e => e

/-- `Log::log` on a snapshot -/
def Shared.log {ρ : Type} (s : Shared ρ) (lvlOf : ρ → Nat) (r : ρ) : LogResult :=
  (fanoutG s.table s.nodeLevel s.attached lvlOf r).map (viaHandler s.handler)

/-- `Logger::new_with_err_handler(config, h)` (`h = configured`) and `Logger::new(config)` (`default`) -/
def Shared.create {ρ : Type} (h : HandlerId) (table : List (AppenderG ρ)) (nodeLevel : Nat)
    (attached : List Nat) : Shared ρ :=
  { table, nodeLevel, attached, handler := h }

/-- THE CODE AS IT IS (`true`, since /repo 4b40d58): `Handle::set_config` builds the new
`SharedLogger` with the error handler of the snapshot it replaces.
`false` = the historical behaviour: `SharedLogger::new(config)`, whose handler is the default stderr
closure — the handler the logger was created with was dropped by the first reconfiguration
(finding `C03/err-handler-lost-on-set-config`, fixed). -/
def handlerKeptAcrossSetConfig : Bool := true

/-- `Handle::set_config(config)`: everything is replaced by what the new configuration says -/
def Shared.setConfigWith {ρ : Type} (kept : Bool) (s : Shared ρ) (table : List (AppenderG ρ))
    (nodeLevel : Nat) (attached : List Nat) : Shared ρ :=
  { table, nodeLevel, attached, handler := if kept then s.handler else .default }

def Shared.setConfig {ρ : Type} (s : Shared ρ) (table : List (AppenderG ρ)) (nodeLevel : Nat)
    (attached : List Nat) : Shared ρ :=
  s.setConfigWith handlerKeptAcrossSetConfig table nodeLevel attached

/-- a sequence of reconfigurations -/
def Shared.reconfigureWith {ρ : Type} (kept : Bool) (s : Shared ρ) :
    List (List (AppenderG ρ) × Nat × List Nat) → Shared ρ
  | [] => s
  | c :: cs => (s.setConfigWith kept c.1 c.2.1 c.2.2).reconfigureWith kept cs

/-! ### the filters and appenders the check instantiates the model with (`ρ` = record level) -/

/-- a scripted filter with a fixed answer, and the real threshold filter -/
inductive Filter where
  | fixed (r : Response)
  | threshold (level : Nat)       -- LevelFilter 0..5
  deriving Repr, DecidableEq

/-- `ThresholdFilter::filter`: `if record.level() > self.level { Reject } else { Neutral }` -/
def thresholdFilter (thr lvl : Nat) : Response :=
  if lvl > thr then .reject else .neutral

def Filter.respond (f : Filter) (lvl : Nat) : Response :=
  match f with
  | .fixed r => r
  | .threshold thr => thresholdFilter thr lvl

/-- a scripted appender: its chain as declared, the results of its first calls, and the result of
every later call -/
structure AppenderM where
  chain : List Filter
  results : List CallResult := []
  rest : CallResult := .ok
  deriving Repr, DecidableEq

def AppenderM.resultAt (a : AppenderM) (k : Nat) : CallResult := a.results.getD k a.rest

def AppenderM.toG (a : AppenderM) : AppenderG Nat :=
  { chain := declare (a.chain.map Filter.respond), result := a.resultAt }

/-- the chain interpreter on a declared chain of the instantiated filters -/
def runChain (lvl : Nat) (chain : List Filter) : List Nat × Bool :=
  runChainL lvl (declare (chain.map Filter.respond))

def fanout (table : List AppenderM) (nodeLevel : Nat) (attached : List Nat) (lvl : Nat) : LogResult :=
  fanoutG (table.map AppenderM.toG) nodeLevel attached id lvl

/-! ### how a chain comes to be attached to an appender -/

/-- the calls on an `AppenderBuilder` -/
inductive BuilderCall (ρ : Type) where
  | filter (f : ρ → Response)              -- `.filter(f)`   : `self.filters.push(f)`
  | filters (fs : List (ρ → Response))     -- `.filters(it)` : `self.filters.extend(it)`

def BuilderCall.step {ρ : Type} (acc : List (ρ → Response)) : BuilderCall ρ → List (ρ → Response)
  | .filter f => acc ++ [f]
  | .filters fs => fs.foldl (fun a f => a ++ [f]) acc

/-- programmatic path: the vector after the calls; `build` moves it into the `Appender` -/
def builderVec {ρ : Type} (calls : List (BuilderCall ρ)) : List (ρ → Response) :=
  calls.foldl BuilderCall.step []

/-- the filters the calls declare, in declaration order -/
def BuilderCall.declared {ρ : Type} : BuilderCall ρ → List (ρ → Response)
  | .filter f => [f]
  | .filters fs => fs

/-- an entry of an appender's `filters:` list in a configuration document -/
inductive FilterEntry (ρ : Type) where
  | ok (f : ρ → Response)     -- has a `kind` with a registered deserializer that accepts the entry
  | bad                       -- no `kind`, unknown kind, or refused by its deserializer

/-- one step of the loop `for filter in filters` in `RawConfig::appenders_lossy`: an entry at document
position `pos` either deserializes (`builder = builder.filter(f)`) or is reported -/
def configStep {ρ : Type} (acc : List (LFilter ρ) × Nat) (e : Nat × FilterEntry ρ) : List (LFilter ρ) × Nat :=
  match e.2 with
  | .ok f => (acc.1 ++ [(e.1, f)], acc.2)
  | .bad => (acc.1, acc.2 + 1)

/-- configuration-file path (`config/raw.rs`): `split_appender` hands the entries of `filters:` over
in document order; `appenders_lossy` walks them in that order. Filters are labelled by their
position in the document. Returns the chain and the number of reported errors. -/
def configChain {ρ : Type} (doc : List (FilterEntry ρ)) : List (LFilter ρ) × Nat :=
  (doc.zipIdx.map fun p => (p.2, p.1)).foldl configStep ([], 0)

/-- the value under `filters:` of an appender entry -/
inductive FiltersValue (ρ : Type) where
  | absent                               -- no `filters` key: no filters
  | seq (doc : List (FilterEntry ρ))     -- a sequence
  | notSeq                               -- something else (`filters: 3`): `split_appender` fails

/-- the appender an entry of the document yields: `none` = the whole appender is reported and
skipped (`split_appender` error). The second component is the number of reported errors. -/
def configAppender {ρ : Type} (v : FiltersValue ρ) (result : Nat → CallResult) :
    Option (AppenderG ρ) × Nat :=
  match v with
  | .absent => (some { chain := [], result }, 0)
  | .seq doc => (some { chain := (configChain doc).1, result }, (configChain doc).2)
  | .notSeq => (none, 1)

/-! ## Part 2 — the executable specification -/

/-- the first filter, in declaration order, that does not answer Neutral decides -/
def firstDecisive {ρ : Type} (r : ρ) (fs : List (ρ → Response)) : Option Response :=
  (fs.map (· r)).find? (· ≠ .neutral)

/-- "the first Accept delivers and the first Reject drops …, and all-Neutral delivers" -/
def specDelivered {ρ : Type} (r : ρ) (fs : List (ρ → Response)) : Bool :=
  match firstDecisive r fs with
  | none => true
  | some a => a = .accept

/-- "… without consulting later filters": the filters up to and including the first decisive one -/
def specConsulted {ρ : Type} (r : ρ) (fs : List (ρ → Response)) : Nat :=
  match (fs.map (· r)).findIdx? (· ≠ .neutral) with
  | some i => i + 1
  | none => fs.length

/-- the answer functions of a chain, in vector order -/
def fns {ρ : Type} (ch : List (LFilter ρ)) : List (ρ → Response) := ch.map (·.2)

/-- what one attachment of appender `i` causes, from its own chain alone: the labels of the first
`specConsulted` filters, then `append` if the chain delivers -/
def specAppenderEvents {ρ : Type} (i : Nat) (a : AppenderG ρ) (r : ρ) : List Event :=
  ((a.chain.take (specConsulted r (fns a.chain))).map fun f => Event.filter i f.1)
  ++ (if specDelivered r (fns a.chain) then [Event.append i] else [])

def specAttachEvents {ρ : Type} (table : List (AppenderG ρ)) (r : ρ) (i : Nat) : List Event :=
  match table[i]? with
  | some a => specAppenderEvents i a r
  | none => []

/-- is the `k`-th reached call of appender `i` an error: its chain delivers and that call returns `Err` -/
def errAt {ρ : Type} (table : List (AppenderG ρ)) (r : ρ) (i k : Nat) : Bool :=
  match table[i]? with
  | some a => specDelivered r (fns a.chain) && a.result k = .err
  | none => false

/-- does the attachment at position `p.2` of the attachment list `attached` (appender `p.1`) return
an error; its call number is the number of earlier attachments of the same appender -/
def specErrs {ρ : Type} (table : List (AppenderG ρ)) (r : ρ) (attached : List Nat) (p : Nat × Nat) : Bool :=
  errAt table r p.1 ((attached.take p.2).count p.1)

/-- the attachments that return an error, in attachment order -/
def specErrList {ρ : Type} (table : List (AppenderG ρ)) (r : ρ) (attached : List Nat) : List Nat :=
  (attached.zipIdx.filter (specErrs table r attached)).map (·.1)

/-- the trace the statement prescribes when no reached `append` panics -/
def specTraceG {ρ : Type} (table : List (AppenderG ρ)) (nodeLevel : Nat) (attached : List Nat)
    (lvlOf : ρ → Nat) (r : ρ) : List Event :=
  if admits nodeLevel (lvlOf r) then
    attached.flatMap (specAttachEvents table r)
    ++ (specErrList table r attached).map Event.handler
  else []

def specTrace (table : List AppenderM) (nodeLevel : Nat) (attached : List Nat) (lvl : Nat) : List Event :=
  specTraceG (table.map AppenderM.toG) nodeLevel attached id lvl

/-- the events of a trace that concern appender `i` -/
def Event.app : Event → Nat
  | .filter a _ => a
  | .append a => a
  | .handler a => a
  | .stderr a => a

def project (i : Nat) (tr : List Event) : List Event := tr.filter (·.app = i)

end Log4rs.Routing
