import Log4rsModel.Base.Level
import Log4rsModel.Base.Outcome
/-
C03 — model of the filter chain interpreter `Appender::append` (src/lib.rs 300–311), of
`ThresholdFilter::filter` (src/filter/threshold.rs 31–39), of the fan-out loop
`ConfiguredLogger::log` (src/lib.rs 276–291) and of the error loop in `Log::log` (438–449),
followed by the executable specification read off the English statement.

The observation is the complete sequence of calls one `Log::log` makes: which filter of which
appender is consulted, which appender's `append` is called, which error reaches the handler.
-/
namespace Log4rs.Routing

/-! ## Part 1 — the model -/

/-- `filter::Response` -/
inductive Response where
  | accept | neutral | reject
  deriving Repr, DecidableEq

/-- the filters the check knows: a scripted one with a fixed answer, and the real threshold filter -/
inductive Filter where
  | fixed (r : Response)
  | threshold (level : Nat)       -- LevelFilter 0..5
  deriving Repr, DecidableEq

/-- `ThresholdFilter::filter`: `if record.level() > self.level { Reject } else { Neutral }` -/
def thresholdFilter (thr lvl : Nat) : Response :=
  if lvl > thr then .reject else .neutral

def Filter.respond (f : Filter) (lvl : Nat) : Response :=
  match f with
  | .fixed r => r
  | .threshold thr => thresholdFilter thr lvl

/-- the loop at the head of `Appender::append`: returns (number of filters consulted, whether
`self.appender.append(record)` is reached). Accept breaks, Neutral continues, Reject returns. -/
def runChain (lvl : Nat) : List Filter → Nat × Bool
  | [] => (0, true)
  | f :: rest =>
    match f.respond lvl with
    | .accept => (1, true)
    | .reject => (1, false)
    | .neutral => let r := runChain lvl rest; (r.1 + 1, r.2)

/-! ### how a chain comes to be attached to an appender -/

/-- programmatic path: `AppenderBuilder::filter` pushes each filter onto `filters`
(`AppenderBuilder::filters` extends by the same pushes) and `build` moves the vector into the
`Appender` -/
def builderChain (declared : List Filter) : List Filter :=
  declared.foldl (fun acc f => acc ++ [f]) []

/-- an entry of an appender's `filters:` list in a configuration document -/
inductive FilterEntry where
  | ok (f : Filter)     -- has a `kind` with a registered deserializer that accepts the entry
  | bad                 -- no `kind`, unknown kind, or refused by its deserializer
  deriving Repr, DecidableEq

/-- configuration-file path (`config/raw.rs`): `split_appender` hands the entries of `filters:` over
in document order; `RawConfig::appenders_lossy` walks them in that order, `builder.filter(f)` for
each one that deserializes, one reported error for each one that does not. Returns the chain and
the number of errors. -/
def configStep (acc : List Filter × Nat) : FilterEntry → List Filter × Nat
  | .ok f => (acc.1 ++ [f], acc.2)
  | .bad => (acc.1, acc.2 + 1)

def configChain (doc : List FilterEntry) : List Filter × Nat :=
  doc.foldl configStep ([], 0)

/-- a configured appender: its filter chain and whether its `append` returns `Err` -/
structure AppenderM where
  chain : List Filter
  fails : Bool
  deriving Repr, DecidableEq

/-- one call made during `Log::log` -/
inductive Event where
  | filter (app idx : Nat)      -- `appenders[app].filters[idx].filter(record)`
  | append (app : Nat)          -- `appenders[app].appender.append(record)`
  | handler (app : Nat)         -- `(err_handler)(&e)` with the error returned by appender `app`
  deriving Repr, DecidableEq

/-- `Appender::append` of appender number `i`: the calls it makes and whether it returns `Err` -/
def appendOne (i : Nat) (a : AppenderM) (lvl : Nat) : List Event × Bool :=
  let r := runChain lvl a.chain
  ((List.range r.1).map (Event.filter i) ++ (if r.2 then [Event.append i] else []),
   r.2 && a.fails)

/-- the `for &idx in &self.appenders` loop of `ConfiguredLogger::log`: calls made, and the errors
collected (as the numbers of the appenders that returned them). `appenders[idx]` out of range
panics. -/
def attachLoop (table : List AppenderM) (lvl : Nat) : List Nat → Outcome Unit (List Event × List Nat)
  | [] => .ok ([], [])
  | idx :: rest =>
    match table[idx]? with
    | none => .panic "appenders[idx]: index out of bounds"
    | some a =>
      let r := appendOne idx a lvl
      match attachLoop table lvl rest with
      | .ok t => .ok (r.1 ++ t.1, (if r.2 then [idx] else []) ++ t.2)
      | .err e => .err e
      | .panic w => .panic w

/-- `ConfiguredLogger::log` followed by the error loop of `Log::log`: every call, in order.
`nodeLevel` is the level of the logger node `find` returned, `attached` its appender indices. -/
def fanout (table : List AppenderM) (nodeLevel : Nat) (attached : List Nat) (lvl : Nat) :
    Outcome Unit (List Event) :=
  if admits nodeLevel lvl then
    match attachLoop table lvl attached with
    | .ok t => .ok (t.1 ++ t.2.map Event.handler)
    | .err e => .err e
    | .panic w => .panic w
  else .ok []

/-! ## Part 2 — the executable specification -/

/-- the first filter that does not answer Neutral decides -/
def firstDecisive (lvl : Nat) (chain : List Filter) : Option Response :=
  (chain.map (·.respond lvl)).find? (· ≠ .neutral)

/-- "the first Accept delivers and the first Reject drops …, and all-Neutral delivers" -/
def specDelivered (lvl : Nat) (chain : List Filter) : Bool :=
  match firstDecisive lvl chain with
  | none => true
  | some r => r = .accept

/-- "… without consulting later filters": the filters up to and including the first decisive one -/
def specConsulted (lvl : Nat) (chain : List Filter) : Nat :=
  match (chain.map (·.respond lvl)).findIdx? (· ≠ .neutral) with
  | some i => i + 1
  | none => chain.length

/-- what one attachment of appender `i` causes, from its own chain alone -/
def specAppenderEvents (i : Nat) (a : AppenderM) (lvl : Nat) : List Event :=
  (List.range (specConsulted lvl a.chain)).map (Event.filter i)
  ++ (if specDelivered lvl a.chain then [Event.append i] else [])

/-- an attachment whose appender is reached and returns an error -/
def specErrs (table : List AppenderM) (lvl : Nat) (i : Nat) : Bool :=
  match table[i]? with
  | some a => specDelivered lvl a.chain && a.fails
  | none => false

def specTrace (table : List AppenderM) (nodeLevel : Nat) (attached : List Nat) (lvl : Nat) :
    List Event :=
  if admits nodeLevel lvl then
    attached.flatMap (fun i => match table[i]? with
      | some a => specAppenderEvents i a lvl
      | none => [])
    ++ (attached.filter (specErrs table lvl)).map Event.handler
  else []

/-- the events of a trace that concern appender `i` -/
def Event.app : Event → Nat
  | .filter a _ => a
  | .append a => a
  | .handler a => a

def project (i : Nat) (tr : List Event) : List Event := tr.filter (·.app = i)

end Log4rs.Routing
