import Log4rsModel.Routing.Tree
/-
Executable specification of C01 / C02, read off the English statements; no tree, no sort, no indices.

* a name or target is its list of `::`-separated components (`comps`);
* the effective logger of a target is the configured logger whose component list is the longest
  prefix of the target's component list — found by trying the prefixes longest first — else the root;
* the parent of a logger is the effective logger of its name without the last component
  (= the configured logger with the longest *proper* component prefix), else the root;
* the chain of a logger is its own attachments followed, when it is additive, by its parent's chain;
  the root's chain is the root's attachments;
* a record is delivered along the chain of its effective logger iff that logger's threshold admits it.
-/
namespace Log4rs.Routing.Tree
open Log4rs

/-- the configured logger whose component list is exactly `p` -/
def lookupLogger (ls : List LoggerCfg) (p : List Name) : Option LoggerCfg :=
  ls.find? (fun l => decide (comps l.name = p))

/-- all prefixes of a component list, longest first: `[a,b] ↦ [[a,b],[a],[]]` -/
def prefixesDesc : List Name → List (List Name)
  | [] => [[]]
  | c :: cs => (prefixesDesc cs).map (c :: ·) ++ [[]]

/-- longest configured component-wise prefix of `p`; `none` = the root -/
def effectiveAt (ls : List LoggerCfg) (p : List Name) : Option LoggerCfg :=
  (prefixesDesc p).findSome? (lookupLogger ls)

def effective (cfg : Config) (target : Name) : Option LoggerCfg :=
  effectiveAt cfg.loggers (comps target)

def parent (cfg : Config) (l : LoggerCfg) : Option LoggerCfg :=
  effectiveAt cfg.loggers (comps l.name).dropLast

/-- attachments reached from a logger through the unbroken chain of additive ancestors.
`n` bounds the number of ancestors followed; a logger with `k` components has fewer than `k`
configured ancestors, so `n := number of components of the target` never cuts a chain. -/
def chain (cfg : Config) : Nat → Option LoggerCfg → List Name
  | _, none => cfg.rootAppenders
  | 0, some l => l.appenders
  | n + 1, some l => l.appenders ++ (if l.additive then chain cfg n (parent cfg l) else [])

def specLevel (cfg : Config) (target : Name) : Nat :=
  match effective cfg target with
  | some l => l.level
  | none => cfg.rootLevel

/-- C01: the appenders that must see a record, one entry per attachment, in chain order -/
def specDeliver (cfg : Config) (target : Name) (lvl : Nat) : List Name :=
  if admits (specLevel cfg target) lvl then chain cfg (comps target).length (effective cfg target) else []

/-- C01 with failing appenders: every attachment still gets its delivery; exactly the failing ones report -/
def specFailures (cfg : Config) (fails : Name → Bool) (target : Name) (lvl : Nat) : List Name :=
  (specDeliver cfg target lvl).filter fails

/-- C02: enabled ⇔ the effective logger's threshold admits the level -/
def specEnabled (cfg : Config) (target : Name) (lvl : Nat) : Bool :=
  admits (specLevel cfg target) lvl

/-- C02: the most verbose level among the root and all configured loggers -/
def specMaxLevel (cfg : Config) : Nat :=
  (cfg.loggers.map (·.level)).foldl max cfg.rootLevel

end Log4rs.Routing.Tree
