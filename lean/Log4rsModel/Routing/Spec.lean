import Log4rsModel.Routing.Tree
/-
Executable specification of C01 / C02, read off the English statements; no tree, no sort, no indices.

* a name or target is its list of `::`-separated components (`comps`);
* the effective logger of a target is the configured logger whose component list is the longest
  prefix of the target's component list — found by trying the prefixes longest first — else the root;
* the parent of a logger is the effective logger of its name without the last component
  (= the configured logger with the longest *proper* component prefix), else the root;
* the chain of a logger is its own attachments followed, when it is additive, by its parent's chain;
  the root's chain is the root's attachments;
* a record is delivered along the chain of its effective logger iff that logger's threshold admits it.

The two words taken from the model files — `comps` (Tree.lean: leftmost split at "::") and `admits` (Base/Level.lean:
level ≤ threshold) — are pinned by C01_comps_char / C01_comps_unique / C01_admits_iff; `effectiveAt`, `parent`, `chain`
are characterised declaratively by C01_effective_longest / C01_effective_unique / C01_parent_longest_proper /
C01_chain_is_visited / C01_visited_shape / C01_chain_fuel.
-/
namespace Log4rs.Routing.Tree
open Log4rs

/-- the configured logger whose component list is exactly `p` -/
def lookupLogger (ls : List LoggerCfg) (p : List Name) : Option LoggerCfg :=
  ls.find? (fun l => decide (comps l.name = p))

/-- all prefixes of a component list, longest first: `[a,b] ↦ [[a,b],[a],[]]` -/
def prefixesDesc : List Name → List (List Name)
  | [] => [[]]
  | c :: cs => (prefixesDesc cs).map (c :: ·) ++ [[]]

/-- longest configured component-wise prefix of `p`; `none` = the root -/
def effectiveAt (ls : List LoggerCfg) (p : List Name) : Option LoggerCfg :=
  (prefixesDesc p).findSome? (lookupLogger ls)

def effective (cfg : Config) (target : Name) : Option LoggerCfg :=
  effectiveAt cfg.loggers (comps target)

def parent (cfg : Config) (l : LoggerCfg) : Option LoggerCfg :=
  effectiveAt cfg.loggers (comps l.name).dropLast

/-- attachments reached from a logger through the unbroken chain of additive ancestors.
`n` bounds the number of ancestors followed; a logger with `k` components has fewer than `k`
configured ancestors, so `n := number of components of the target` never cuts a chain. -/
def chain (cfg : Config) : Nat → Option LoggerCfg → List Name
  | _, none => cfg.rootAppenders
  | 0, some l => l.appenders
  | n + 1, some l => l.appenders ++ (if l.additive then chain cfg n (parent cfg l) else [])

/-- the loggers a record's delivery walks through, nearest first; `none` = the root. Declarative reading of
"directly or through an unbroken chain of additive ancestors ending at the root" (C01_chain_is_visited,
C01_visited_shape tie it to `chain`). -/
def visited (cfg : Config) : Nat → Option LoggerCfg → List (Option LoggerCfg)
  | _, none => [none]
  | 0, some l => [some l]
  | n + 1, some l => some l :: (if l.additive then visited cfg n (parent cfg l) else [])

/-- the attachments of a logger (`none` = root) -/
def attached (cfg : Config) : Option LoggerCfg → List Name
  | some l => l.appenders
  | none => cfg.rootAppenders

/-- same loggers, each with its attachment list possibly reordered -/
inductive AttachPermL : List LoggerCfg → List LoggerCfg → Prop
  | nil : AttachPermL [] []
  | cons {l l' : LoggerCfg} {ls ls' : List LoggerCfg} :
      l.name = l'.name → l.level = l'.level → l.additive = l'.additive → l.appenders.Perm l'.appenders →
      AttachPermL ls ls' → AttachPermL (l :: ls) (l' :: ls')

/-- two configurations that differ only in the order of attachments inside the root and inside loggers -/
def AttachPerm (cfg cfg' : Config) : Prop :=
  cfg.appenders = cfg'.appenders ∧ cfg.rootLevel = cfg'.rootLevel ∧
  cfg.rootAppenders.Perm cfg'.rootAppenders ∧ AttachPermL cfg.loggers cfg'.loggers

def specLevel (cfg : Config) (target : Name) : Nat :=
  match effective cfg target with
  | some l => l.level
  | none => cfg.rootLevel

/-- C01: the appenders that must see a record, one entry per attachment, in chain order -/
def specDeliver (cfg : Config) (target : Name) (lvl : Nat) : List Name :=
  if admits (specLevel cfg target) lvl then chain cfg (comps target).length (effective cfg target) else []

/-- C01 with failing appenders: every attachment still gets its delivery; exactly the failing ones report -/
def specFailures (cfg : Config) (fails : Name → Bool) (target : Name) (lvl : Nat) : List Name :=
  (specDeliver cfg target lvl).filter fails

/-- C02: enabled ⇔ the effective logger's threshold admits the level -/
def specEnabled (cfg : Config) (target : Name) (lvl : Nat) : Bool :=
  admits (specLevel cfg target) lvl

/-- C02: the most verbose level among the root and all configured loggers -/
def specMaxLevel (cfg : Config) : Nat :=
  (cfg.loggers.map (·.level)).foldl max cfg.rootLevel

end Log4rs.Routing.Tree
