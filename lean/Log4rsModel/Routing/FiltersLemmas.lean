import Log4rsModel.Routing.Filters
/- helper lemmas for C03 -/
namespace Log4rs.Routing

theorem runChain_eq_spec (lvl : Nat) (chain : List Filter) :
    runChain lvl chain = (specConsulted lvl chain, specDelivered lvl chain) := by
  induction chain with
  | nil => simp [runChain, specConsulted, specDelivered, firstDecisive]
  | cons f rest ih =>
    simp only [runChain, ih]
    cases h : f.respond lvl <;>
      simp [specConsulted, specDelivered, firstDecisive, List.findIdx?_cons, h]
    · generalize List.findIdx? _ rest = o
      cases o <;> simp

theorem appendOne_eq (i : Nat) (a : AppenderM) (lvl : Nat) :
    appendOne i a lvl = (specAppenderEvents i a lvl, specDelivered lvl a.chain && a.fails) := by
  simp [appendOne, runChain_eq_spec, specAppenderEvents]

/-- the per-attachment events of the specification -/
def specAttachEvents (table : List AppenderM) (lvl : Nat) (i : Nat) : List Event :=
  match table[i]? with
  | some a => specAppenderEvents i a lvl
  | none => []

theorem attachLoop_eq (table : List AppenderM) (lvl : Nat) (attached : List Nat)
    (h : ∀ j ∈ attached, j < table.length) :
    attachLoop table lvl attached =
      .ok (attached.flatMap (specAttachEvents table lvl), attached.filter (specErrs table lvl)) := by
  induction attached with
  | nil => simp [attachLoop]
  | cons idx rest ih =>
    have hidx : idx < table.length := h idx (by simp)
    have hrest : ∀ j ∈ rest, j < table.length := fun j hj => h j (by simp [hj])
    have hget : table[idx]? = some table[idx] := List.getElem?_eq_getElem hidx
    simp only [attachLoop, hget, ih hrest, appendOne_eq, List.flatMap_cons, List.filter_cons,
      specAttachEvents, specErrs]
    split <;> simp_all

theorem specTrace_eq (table : List AppenderM) (nl : Nat) (attached : List Nat) (lvl : Nat) :
    specTrace table nl attached lvl =
      if admits nl lvl then
        attached.flatMap (specAttachEvents table lvl)
          ++ (attached.filter (specErrs table lvl)).map Event.handler
      else [] := rfl

theorem fanout_eq_spec (table : List AppenderM) (nl : Nat) (attached : List Nat) (lvl : Nat)
    (h : ∀ j ∈ attached, j < table.length) :
    fanout table nl attached lvl = .ok (specTrace table nl attached lvl) := by
  simp only [fanout, specTrace_eq, attachLoop_eq table lvl attached h]
  split <;> rfl

/-- every event of an attachment of appender `j` concerns `j` -/
theorem specAttachEvents_app (table : List AppenderM) (lvl j : Nat) :
    ∀ e ∈ specAttachEvents table lvl j, e.app = j := by
  intro e he
  unfold specAttachEvents at he
  split at he
  · simp only [specAppenderEvents, List.mem_append, List.mem_map] at he
    rcases he with ⟨k, _, rfl⟩ | he
    · rfl
    · split at he <;> simp_all [Event.app]
  · simp at he

theorem project_attach_ne (table : List AppenderM) (lvl i j : Nat) (h : j ≠ i) :
    project i (specAttachEvents table lvl j) = [] := by
  simp only [project, List.filter_eq_nil_iff]
  intro e he
  simp [specAttachEvents_app table lvl j e he, h]

theorem project_attach_self (table : List AppenderM) (lvl i : Nat) :
    project i (specAttachEvents table lvl i) = specAttachEvents table lvl i := by
  simp only [project, List.filter_eq_self]
  intro e he
  simp [specAttachEvents_app table lvl i e he]

theorem project_append (i : Nat) (xs ys : List Event) :
    project i (xs ++ ys) = project i xs ++ project i ys := by simp [project]

/-- the calls concerning appender `i`: one block per attachment of `i` -/
theorem project_flatMap (table : List AppenderM) (lvl i : Nat) (attached : List Nat) :
    project i (attached.flatMap (specAttachEvents table lvl)) =
      (List.replicate (attached.count i) (specAttachEvents table lvl i)).flatten := by
  induction attached with
  | nil => simp [project]
  | cons j rest ih =>
    rw [List.flatMap_cons, project_append, ih]
    by_cases hj : j = i
    · subst hj
      simp [project_attach_self, List.replicate_succ]
    · simp [project_attach_ne table lvl i j hj, hj]

theorem project_handlers (p : Nat → Bool) (i : Nat) (attached : List Nat) :
    project i ((attached.filter p).map Event.handler) =
      List.replicate (if p i then attached.count i else 0) (Event.handler i) := by
  induction attached with
  | nil => simp [project]
  | cons j rest ih =>
    by_cases hj : j = i
    · subst hj
      by_cases hp : p j
      · simp [hp, project, Event.app, List.replicate_succ] at ih ⊢
        exact ih
      · simp [hp] at ih ⊢
        exact ih
    · by_cases hp : p j
      · simp only [List.filter_cons, hp, if_true, List.map_cons, List.count_cons]
        have : project i (Event.handler j :: List.map Event.handler (List.filter p rest)) =
            project i (List.map Event.handler (List.filter p rest)) := by
          simp [project, Event.app, hj]
        rw [this, ih]
        simp [hj]
      · simp only [List.filter_cons, hp, List.count_cons]
        rw [show (if false = true then j :: List.filter p rest else List.filter p rest) = List.filter p rest from rfl, ih]
        simp [hj]


/-! ### construction paths -/

theorem foldl_push {α} (acc d : List α) : d.foldl (fun acc f => acc ++ [f]) acc = acc ++ d := by
  induction d generalizing acc with
  | nil => simp
  | cons x xs ih => simp [ih]

theorem builderChain_eq (declared : List Filter) : builderChain declared = declared := by
  unfold builderChain
  rw [foldl_push]; rfl

/-- the entries that deserialize, in document order -/
def validEntries : List FilterEntry → List Filter
  | [] => []
  | .ok f :: rest => f :: validEntries rest
  | .bad :: rest => validEntries rest

theorem configChain_fold (doc : List FilterEntry) (acc : List Filter × Nat) :
    doc.foldl configStep acc = (acc.1 ++ validEntries doc, acc.2 + doc.count .bad) := by
  induction doc generalizing acc with
  | nil => simp [validEntries]
  | cons e rest ih =>
    cases e with
    | ok f => simp [ih, validEntries, configStep]
    | bad => simp [ih, validEntries, configStep]; omega

theorem configChain_eq (doc : List FilterEntry) :
    configChain doc = (validEntries doc, doc.count .bad) := by
  unfold configChain
  rw [configChain_fold]; simp

theorem validEntries_map_ok (declared : List Filter) :
    validEntries (declared.map FilterEntry.ok) = declared := by
  induction declared with
  | nil => rfl
  | cons f rest ih => simp [validEntries, ih]

theorem count_bad_map_ok (declared : List Filter) :
    (declared.map FilterEntry.ok).count .bad = 0 := by
  induction declared with
  | nil => rfl
  | cons f rest ih => simp [ih]

/-! ### prefixes that cannot accept -/

theorem runChain_prefix_no_accept (lvl : Nat) (pre rest : List Filter)
    (h : ∀ f ∈ pre, f.respond lvl ≠ .accept) :
    (runChain lvl (pre ++ rest)).2 =
      (pre.all (fun f => f.respond lvl = .neutral) && (runChain lvl rest).2) := by
  induction pre with
  | nil => simp
  | cons f fs ih =>
    have hf := h f (by simp)
    have ih' := ih (fun g hg => h g (by simp [hg]))
    simp only [List.cons_append, runChain, List.all_cons]
    cases hr : f.respond lvl with
    | accept => exact absurd hr hf
    | neutral => simp [ih']
    | reject => simp

theorem threshold_respond_ne_accept (t lvl : Nat) : (Filter.threshold t).respond lvl ≠ .accept := by
  simp only [Filter.respond, thresholdFilter]
  split <;> simp

theorem threshold_neutral_iff (t lvl : Nat) : (Filter.threshold t).respond lvl = .neutral ↔ lvl ≤ t := by
  simp only [Filter.respond, thresholdFilter]
  by_cases h : lvl > t
  · simp [h]
  · simp [h]; omega

/-- a filter whose answer depends on the level alone and is never Accept: a threshold, or a scripted
Neutral -/
def LevelGate : Filter → Prop
  | .threshold _ => True
  | .fixed r => r = .neutral

/-- the thresholds among the filters of a list -/
def thresholdsOf : List Filter → List Nat
  | [] => []
  | .threshold t :: rest => t :: thresholdsOf rest
  | .fixed _ :: rest => thresholdsOf rest

theorem gates_all_neutral (lvl : Nat) (pre : List Filter) (h : ∀ f ∈ pre, LevelGate f) :
    pre.all (fun f => f.respond lvl = .neutral) = (thresholdsOf pre).all (fun t => decide (lvl ≤ t)) := by
  induction pre with
  | nil => rfl
  | cons f fs ih =>
    have ih' := ih (fun g hg => h g (by simp [hg]))
    have hf := h f (by simp)
    cases f with
    | threshold t =>
      simp only [List.all_cons, thresholdsOf, ih']
      congr 1
      rw [Bool.eq_iff_iff]
      simp [threshold_neutral_iff]
    | fixed r =>
      simp only [LevelGate] at hf
      subst hf
      simp only [List.all_cons, thresholdsOf, ← ih']
      simp [Filter.respond]

theorem gates_no_accept (lvl : Nat) (pre : List Filter) (h : ∀ f ∈ pre, LevelGate f) :
    ∀ f ∈ pre, f.respond lvl ≠ .accept := by
  intro f hf
  have := h f hf
  cases f with
  | threshold t => exact threshold_respond_ne_accept t lvl
  | fixed r => simp only [LevelGate] at this; subst this; simp [Filter.respond]

theorem all_le_iff_le_min (lvl : Nat) (ts : List Nat) (m : Nat) (h : ts.min? = some m) :
    (∀ t ∈ ts, lvl ≤ t) ↔ lvl ≤ m := by
  exact (List.le_min?_iff h).symm

end Log4rs.Routing
