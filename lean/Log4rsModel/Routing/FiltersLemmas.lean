import Log4rsModel.Routing.Filters
/- helper lemmas for C03 -/
set_option linter.unusedSimpArgs false
namespace Log4rs.Routing

variable {ρ : Type}

/-! ### the chain interpreter -/

theorem runChainL_eq_spec (r : ρ) (ch : List (LFilter ρ)) :
    runChainL r ch =
      ((ch.take (specConsulted r (fns ch))).map (·.1), specDelivered r (fns ch)) := by
  induction ch with
  | nil => simp [runChainL, specConsulted, specDelivered, firstDecisive, fns]
  | cons lf rest ih =>
    obtain ⟨l, f⟩ := lf
    simp only [runChainL, ih]
    cases h : f r <;>
      simp [specConsulted, specDelivered, firstDecisive, fns, List.findIdx?_cons, h]
    · generalize List.findIdx? _ rest = o
      cases o <;> simp

theorem specConsulted_le (r : ρ) (fs : List (ρ → Response)) : specConsulted r fs ≤ fs.length := by
  unfold specConsulted
  split
  · rename_i i hi
    have := List.findIdx?_eq_some_iff_getElem.mp hi
    obtain ⟨h, _⟩ := this
    simp at h
    omega
  · exact Nat.le_refl _

theorem fns_declare (fs : List (ρ → Response)) : fns (declare fs) = fs := by
  simp [fns, declare, List.map_map, Function.comp_def]

theorem labels_declare (fs : List (ρ → Response)) : (declare fs).map (·.1) = List.range fs.length := by
  simp [declare, List.map_map, Function.comp_def, List.range_eq_range']

theorem labels_declare_take (fs : List (ρ → Response)) (k : Nat) (hk : k ≤ fs.length) :
    ((declare fs).take k).map (·.1) = List.range k := by
  rw [List.map_take, labels_declare, List.take_range]
  simp [Nat.min_eq_left hk]

/-! ### the fan-out loop -/

theorem appendOneG_eq (i : Nat) (a : AppenderG ρ) (r : ρ) (k : Nat) :
    appendOneG i a r k =
      (specAppenderEvents i a r, if specDelivered r (fns a.chain) then a.result k else .ok) := by
  simp [appendOneG, runChainL_eq_spec, specAppenderEvents, List.map_map, Function.comp_def]

/-- the attachments that return an error, by recursion: `pre` = the attachments already handled -/
def errLoop (table : List (AppenderG ρ)) (r : ρ) : List Nat → List Nat → List Nat
  | _, [] => []
  | pre, i :: rest =>
    (if errAt table r i (pre.count i) then [i] else []) ++ errLoop table r (pre ++ [i]) rest

theorem errLoop_zipIdx (table : List (AppenderG ρ)) (r : ρ) (pre rest : List Nat) :
    (((rest.zipIdx pre.length).filter (specErrs table r (pre ++ rest))).map (·.1)) =
      errLoop table r pre rest := by
  induction rest generalizing pre with
  | nil => simp [errLoop]
  | cons i rest ih =>
    have h := ih (pre ++ [i])
    simp only [List.length_append, List.length_cons, List.length_nil, List.append_assoc,
      List.cons_append, List.nil_append, Nat.zero_add] at h
    simp only [List.zipIdx_cons, List.filter_cons, errLoop, ← h]
    have : specErrs table r (pre ++ i :: rest) (i, pre.length) = errAt table r i (pre.count i) := by
      simp [specErrs]
    rw [this]
    split <;> simp

theorem specErrList_eq_errLoop (table : List (AppenderG ρ)) (r : ρ) (attached : List Nat) :
    specErrList table r attached = errLoop table r [] attached := by
  have := errLoop_zipIdx table r [] attached
  simpa [specErrList] using this

/-- no `append` of the table ever panics -/
def NoPanic (table : List (AppenderG ρ)) : Prop :=
  ∀ (j : Nat) (a : AppenderG ρ), table[j]? = some a → ∀ k, a.result k ≠ CallResult.panic

theorem attachLoopG_eq (table : List (AppenderG ρ)) (r : ρ) (hnp : NoPanic table)
    (rest pre reached : List Nat) (hrange : ∀ j ∈ rest, j < table.length)
    (hreach : ∀ j a, table[j]? = some a → specDelivered r (fns a.chain) = true →
      reached.count j = pre.count j) :
    attachLoopG table r rest reached =
      .done (rest.flatMap (specAttachEvents table r)) (errLoop table r pre rest) := by
  induction rest generalizing pre reached with
  | nil => simp [attachLoopG, errLoop]
  | cons idx rest ih =>
    have hidx : idx < table.length := hrange idx (by simp)
    have hget : table[idx]? = some table[idx] := List.getElem?_eq_getElem hidx
    generalize table[idx] = a at hget
    have hnp' := hnp idx a hget
    simp only [attachLoopG, hget, appendOneG_eq, List.flatMap_cons, errLoop, specAttachEvents, errAt,
      runChainL_eq_spec]
    by_cases hd : specDelivered r (fns a.chain) = true
    · have hk := hreach idx a hget hd
      have hne : a.result (List.count idx reached) ≠ .panic := hnp' _
      have hreach' : ∀ j b, table[j]? = some b → specDelivered r (fns b.chain) = true →
          (idx :: reached).count j = (pre ++ [idx]).count j := by
        intro j b hb hdb
        have := hreach j b hb hdb
        simp [List.count_cons, List.count_append, this]
      have hih := ih (pre ++ [idx]) (idx :: reached) (fun j hj => hrange j (by simp [hj])) hreach'
      simp only [hd, if_true, hih, Bool.true_and, hk]
      by_cases he : a.result (List.count idx pre) = CallResult.err <;> simp [he, hnp' (List.count idx pre)]
    · have hd' : specDelivered r (fns a.chain) = false := by simpa using hd
      have hreach' : ∀ j b, table[j]? = some b → specDelivered r (fns b.chain) = true →
          reached.count j = (pre ++ [idx]).count j := by
        intro j b hb hdb
        have := hreach j b hb hdb
        have hji : j ≠ idx := by
          intro hc; subst hc; rw [hget] at hb; cases hb; rw [hd'] at hdb; cases hdb
        simp [List.count_append, this, Ne.symm hji]
      have hih := ih (pre ++ [idx]) reached (fun j hj => hrange j (by simp [hj])) hreach'
      simp [hd', hih]

theorem fanoutG_eq_spec (table : List (AppenderG ρ)) (nl : Nat) (attached : List Nat)
    (lvlOf : ρ → Nat) (r : ρ) (hnp : NoPanic table) (h : ∀ j ∈ attached, j < table.length) :
    fanoutG table nl attached lvlOf r = .returned (specTraceG table nl attached lvlOf r) := by
  have := attachLoopG_eq table r hnp attached [] [] h (by intros; rfl)
  simp only [fanoutG, specTraceG, this, specErrList_eq_errLoop]
  split <;> rfl


/-! ### projections onto one appender -/

theorem specAttachEvents_app (table : List (AppenderG ρ)) (r : ρ) (j : Nat) :
    ∀ e ∈ specAttachEvents table r j, e.app = j := by
  intro e he
  unfold specAttachEvents at he
  split at he
  · simp only [specAppenderEvents, List.mem_append, List.mem_map] at he
    rcases he with ⟨k, _, rfl⟩ | he
    · rfl
    · split at he <;> simp_all [Event.app]
  · simp at he

theorem project_attach_ne (table : List (AppenderG ρ)) (r : ρ) (i j : Nat) (h : j ≠ i) :
    project i (specAttachEvents table r j) = [] := by
  simp only [project, List.filter_eq_nil_iff]
  intro e he
  simp [specAttachEvents_app table r j e he, h]

theorem project_attach_self (table : List (AppenderG ρ)) (r : ρ) (i : Nat) :
    project i (specAttachEvents table r i) = specAttachEvents table r i := by
  simp only [project, List.filter_eq_self]
  intro e he
  simp [specAttachEvents_app table r i e he]

theorem project_append (i : Nat) (xs ys : List Event) :
    project i (xs ++ ys) = project i xs ++ project i ys := by simp [project]

/-- the calls concerning appender `i`: one block per attachment of `i` -/
theorem project_flatMap (table : List (AppenderG ρ)) (r : ρ) (i : Nat) (attached : List Nat) :
    project i (attached.flatMap (specAttachEvents table r)) =
      (List.replicate (attached.count i) (specAttachEvents table r i)).flatten := by
  induction attached with
  | nil => simp [project]
  | cons j rest ih =>
    rw [List.flatMap_cons, project_append, ih]
    by_cases hj : j = i
    · subst hj
      simp [project_attach_self, List.replicate_succ]
    · simp [project_attach_ne table r i j hj, hj]

theorem project_handlers (i : Nat) (L : List Nat) :
    project i (L.map Event.handler) = List.replicate (L.count i) (Event.handler i) := by
  induction L with
  | nil => simp [project]
  | cons j rest ih =>
    have hh : (Event.handler j).app = j := rfl
    simp only [project, List.map_cons, List.filter_cons, hh, List.count_cons] at ih ⊢
    by_cases hj : j = i
    · subst hj; simp [List.replicate_succ, ih]
    · simp [hj, ih]

/-- how many of the calls number `c, c+1, …, c+n-1` of appender `i` return an error -/
def errCount (table : List (AppenderG ρ)) (r : ρ) (i c n : Nat) : Nat :=
  ((List.range' c n).filter (errAt table r i)).length

theorem errLoop_count (table : List (AppenderG ρ)) (r : ρ) (i : Nat) (pre rest : List Nat) :
    (errLoop table r pre rest).count i = errCount table r i (pre.count i) (rest.count i) := by
  induction rest generalizing pre with
  | nil => simp [errLoop, errCount]
  | cons j rest ih =>
    simp only [errLoop, List.count_append, ih (pre ++ [j])]
    by_cases hj : j = i
    · subst hj
      simp only [List.count_append, List.count_cons_self, List.count_nil, errCount,
        List.range'_succ, List.filter_cons]
      by_cases he : errAt table r j (List.count j pre) = true <;> simp [he] <;> omega
    · have hji : ¬ i = j := fun h => hj h.symm
      simp only [List.count_append, List.count_cons, hj, hji]
      split <;> simp [List.count_cons, hj, hji]

theorem project_specTraceG (table : List (AppenderG ρ)) (nl : Nat) (attached : List Nat)
    (lvlOf : ρ → Nat) (r : ρ) (i : Nat) (hadm : admits nl (lvlOf r) = true) :
    project i (specTraceG table nl attached lvlOf r) =
      (List.replicate (attached.count i) (specAttachEvents table r i)).flatten ++
      List.replicate (errCount table r i 0 (attached.count i)) (Event.handler i) := by
  simp only [specTraceG, hadm, if_true, project_append, project_flatMap, project_handlers,
    specErrList_eq_errLoop, errLoop_count, List.count_nil]

theorem errAt_congr (t t' : List (AppenderG ρ)) (r : ρ) (i : Nat) (h : t[i]? = t'[i]?) :
    errAt t r i = errAt t' r i := by
  funext k
  simp [errAt, h]

theorem specAttachEvents_congr (t t' : List (AppenderG ρ)) (r : ρ) (i : Nat) (h : t[i]? = t'[i]?) :
    specAttachEvents t r i = specAttachEvents t' r i := by
  simp [specAttachEvents, h]

theorem project_specTraceG_congr (t t' : List (AppenderG ρ)) (nl : Nat) (attached : List Nat)
    (lvlOf : ρ → Nat) (r : ρ) (i : Nat) (h : t[i]? = t'[i]?) :
    project i (specTraceG t nl attached lvlOf r) = project i (specTraceG t' nl attached lvlOf r) := by
  by_cases hadm : admits nl (lvlOf r) = true
  · rw [project_specTraceG t _ _ _ _ _ hadm, project_specTraceG t' _ _ _ _ _ hadm,
      specAttachEvents_congr t t' r i h]
    simp only [errCount, errAt_congr t t' r i h]
  · simp [specTraceG, hadm]

/-! ### chains: prefixes that cannot accept -/

theorem specDelivered_prefix_no_accept (r : ρ) (pre rest : List (ρ → Response))
    (h : ∀ f ∈ pre, f r ≠ .accept) :
    specDelivered r (pre ++ rest) = (pre.all (fun f => f r = .neutral) && specDelivered r rest) := by
  induction pre with
  | nil => simp
  | cons f fs ih =>
    have hf := h f (by simp)
    have ih' := ih (fun g hg => h g (by simp [hg]))
    simp only [specDelivered, firstDecisive, List.cons_append, List.map_cons, List.find?_cons,
      List.all_cons] at ih' ⊢
    cases hr : f r with
    | accept => exact absurd hr hf
    | neutral => simpa using ih'
    | reject => simp

theorem specDelivered_accept_after_neutrals (r : ρ) (pre later : List (ρ → Response)) (g : ρ → Response)
    (h : ∀ f ∈ pre, f r = .neutral) (hg : g r = .accept) :
    specDelivered r (pre ++ g :: later) = true ∧ specConsulted r (pre ++ g :: later) = pre.length + 1 := by
  induction pre with
  | nil => simp [specDelivered, firstDecisive, specConsulted, hg, List.findIdx?_cons]
  | cons f fs ih =>
    have hf := h f (by simp)
    obtain ⟨i1, i2⟩ := ih (fun x hx => h x (by simp [hx]))
    simp only [specDelivered, firstDecisive, specConsulted, List.cons_append, List.map_cons,
      List.find?_cons, List.findIdx?_cons, hf, List.length_cons] at i1 i2 ⊢
    refine ⟨by simpa using i1, ?_⟩
    revert i2
    generalize List.findIdx? _ _ = o
    cases o <;> simp <;> omega

/-! ### construction paths -/

theorem foldl_push {α} (acc d : List α) : d.foldl (fun acc f => acc ++ [f]) acc = acc ++ d := by
  induction d generalizing acc with
  | nil => simp
  | cons x xs ih => simp [ih]

theorem builderVec_fold (calls : List (BuilderCall ρ)) (acc : List (ρ → Response)) :
    calls.foldl BuilderCall.step acc = acc ++ calls.flatMap BuilderCall.declared := by
  induction calls generalizing acc with
  | nil => simp
  | cons c cs ih =>
    cases c with
    | filter f => simp [ih, BuilderCall.step, BuilderCall.declared]
    | filters fs =>
      simp only [List.foldl_cons, BuilderCall.step, ih, List.flatMap_cons, BuilderCall.declared]
      rw [foldl_push]; simp

theorem builderVec_eq (calls : List (BuilderCall ρ)) :
    builderVec calls = calls.flatMap BuilderCall.declared := by
  simp [builderVec, builderVec_fold]

/-- the labelled entries that deserialize, in document order -/
def validEntries : List (Nat × FilterEntry ρ) → List (LFilter ρ)
  | [] => []
  | (l, .ok f) :: rest => (l, f) :: validEntries rest
  | (_, .bad) :: rest => validEntries rest

def badCount : List (Nat × FilterEntry ρ) → Nat
  | [] => 0
  | (_, .ok _) :: rest => badCount rest
  | (_, .bad) :: rest => badCount rest + 1

theorem configChain_fold (doc : List (Nat × FilterEntry ρ)) (acc : List (LFilter ρ) × Nat) :
    doc.foldl configStep acc = (acc.1 ++ validEntries doc, acc.2 + badCount doc) := by
  induction doc generalizing acc with
  | nil => simp [validEntries, badCount]
  | cons e rest ih =>
    obtain ⟨l, e⟩ := e
    cases e with
    | ok f => simp [ih, validEntries, badCount, configStep]
    | bad => simp [ih, validEntries, badCount, configStep]; omega

theorem configChain_eq (doc : List (FilterEntry ρ)) :
    configChain doc =
      (validEntries (doc.zipIdx.map fun p => (p.2, p.1)), badCount (doc.zipIdx.map fun p => (p.2, p.1))) := by
  unfold configChain
  rw [configChain_fold]; simp

theorem validEntries_all_ok (fs : List (ρ → Response)) (n : Nat) :
    validEntries (((fs.map FilterEntry.ok).zipIdx n).map fun p => (p.2, p.1)) =
      (fs.zipIdx n).map (fun p => (p.2, p.1)) ∧
    badCount (((fs.map FilterEntry.ok).zipIdx n).map fun p => (p.2, p.1)) = 0 := by
  induction fs generalizing n with
  | nil => simp [validEntries, badCount]
  | cons f rest ih =>
    obtain ⟨i1, i2⟩ := ih (n + 1)
    simp [validEntries, badCount, i1, i2]

/-- the labels of the entries that deserialize are increasing: document order is kept -/
theorem validEntries_labels_sorted (doc : List (FilterEntry ρ)) (n : Nat) :
    ((validEntries ((doc.zipIdx n).map fun p => (p.2, p.1))).map (·.1)).Pairwise (· < ·) ∧
    ∀ l ∈ (validEntries ((doc.zipIdx n).map fun p => (p.2, p.1))).map (·.1), n ≤ l := by
  induction doc generalizing n with
  | nil => simp [validEntries]
  | cons e rest ih =>
    obtain ⟨i1, i2⟩ := ih (n + 1)
    cases e with
    | ok f =>
      simp only [List.zipIdx_cons, List.map_cons, validEntries, List.pairwise_cons, List.mem_cons]
      refine ⟨⟨fun l hl => ?_, i1⟩, fun l hl => ?_⟩
      · have := i2 l hl; omega
      · rcases hl with rfl | hl
        · exact Nat.le_refl _
        · have := i2 l hl; omega
    | bad =>
      simp only [List.zipIdx_cons, List.map_cons, validEntries]
      exact ⟨i1, fun l hl => by have := i2 l hl; omega⟩

end Log4rs.Routing
