import Log4rsModel.Routing.LemmasSpec
/-
Build layer of the routing proofs: the stable sort, the invariant carried along the insertion sequence
(Appendix D of DESIGN.md), index resolution, and the assembled statement `build_spec` from which the
property theorems of C01 and C02 are read off.
-/
namespace Log4rs.Routing.Tree
open Log4rs Log4rs.Str

/-! ### stable insertion sort -/

section
variable {α : Type} (key : α → Nat)

theorem insertByKey_perm (x : α) (l : List α) : (insertByKey key x l).Perm (x :: l) := by
  induction l with
  | nil => exact List.Perm.refl _
  | cons y ys ih =>
    simp only [insertByKey]
    split
    · exact (List.Perm.cons y ih).trans (List.Perm.swap x y ys)
    · exact List.Perm.refl _

theorem sortByKey_perm (l : List α) : (sortByKey key l).Perm l := by
  induction l with
  | nil => exact List.Perm.refl _
  | cons x xs ih => exact (insertByKey_perm key x _).trans (List.Perm.cons x ih)

theorem insertByKey_sorted (x : α) (l : List α) (h : l.Pairwise (fun a b => key a ≤ key b)) :
    (insertByKey key x l).Pairwise (fun a b => key a ≤ key b) := by
  induction l with
  | nil => simp [insertByKey]
  | cons y ys ih =>
    simp only [insertByKey]
    rw [List.pairwise_cons] at h
    split
    · rename_i hlt
      rw [List.pairwise_cons]
      refine ⟨?_, ih h.2⟩
      intro a ha
      rcases List.mem_cons.mp ((insertByKey_perm key x ys).mem_iff.mp ha) with rfl | ha'
      · omega
      · exact h.1 a ha'
    · rename_i hge
      rw [List.pairwise_cons]
      refine ⟨?_, List.pairwise_cons.mpr h⟩
      intro a ha
      rcases List.mem_cons.mp ha with rfl | ha'
      · omega
      · have := h.1 a ha'; omega

theorem sortByKey_sorted (l : List α) : (sortByKey key l).Pairwise (fun a b => key a ≤ key b) := by
  induction l with
  | nil => simp [sortByKey]
  | cons x xs ih => exact insertByKey_sorted key x _ ih

end

/-! ### the invariant of the insertion sequence -/

def toEnt (l : RLogger) : Ent Nat :=
  { comps := comps l.name, level := l.level, additive := l.additive, apps := l.apps }

/-- `L` = loggers inserted so far, `t` = the tree they produced -/
structure BuildInv (root : Nat × List Nat) (L : List RLogger) (t : Node) : Prop where
  /-- `find` answers with the resolution over the inserted loggers -/
  data : ∀ p, fdata t p = res root (L.map toEnt) p
  /-- every node path is a component prefix of an inserted name -/
  paths : ∀ p, getNode t p ≠ none → p = [] ∨ ∃ l ∈ L, p <+: comps l.name
  /-- implied nodes only copy existing levels -/
  maxl : t.maxLevel = L.foldl (fun m l => max m l.level) root.1

theorem BuildInv.init (root : Nat × List Nat) : BuildInv root [] (Node.mk root.1 root.2 []) where
  data p := by rw [fdata_leaf]; simp [res_noLoggers]
  paths p h := by
    left
    cases p with
    | nil => rfl
    | cons c cs => exact absurd (getNode_leaf _ _ _ (by simp)) h
  maxl := by simp [maxLevel_mk, maxLevelList]

theorem BuildInv.step {root : Nat × List Nat} {L : List RLogger} {t : Node} (inv : BuildInv root L t)
    (w : Bool) (l : RLogger) (hnew : ∀ l' ∈ L, ¬ comps l.name <+: comps l'.name) (hok : EndsOk l.name) :
    BuildInv root (L ++ [l]) (addLogger (t, w) l).1 ∧ (addLogger (t, w) l).2 = w := by
  have hq : comps l.name ≠ [] := comps_ne_nil _
  have hnone : getNode t (comps l.name) = none := by
    cases h : getNode t (comps l.name) with
    | none => rfl
    | some n =>
      rcases inv.paths (comps l.name) (by simp [h]) with h0 | ⟨l', hl', hp⟩
      · exact absurd h0 hq
      · exact absurd hp (hnew l' hl')
  have hadd := add_eq_addC t l.name l.apps l.additive l.level hok hnone
  unfold addLogger
  simp only [hadd, Bool.or_false, and_true]
  constructor
  · intro p
    rw [fdata_addC _ _ _ _ _ hnone, inv.data, inv.data, List.map_append, List.map_cons, List.map_nil]
    have hnewE : ∀ e' ∈ L.map toEnt, ¬ (toEnt l).comps <+: e'.comps := by
      intro e' he'
      obtain ⟨l', hl', rfl⟩ := List.mem_map.mp he'
      exact hnew l' hl'
    rw [res_snoc root (L.map toEnt) (toEnt l) hq hnewE p]
    rfl
  · intro p hp
    rcases getNode_addC _ _ _ _ _ p hp with h1 | h1
    · rcases inv.paths p h1 with h0 | ⟨l', hl', hpre⟩
      · exact Or.inl h0
      · exact Or.inr ⟨l', List.mem_append_left _ hl', hpre⟩
    · exact Or.inr ⟨l, by simp, h1⟩
  · rw [maxLevel_addC _ _ _ _ _ hnone, inv.maxl, List.foldl_append]
    rfl

/-- later names are never component prefixes of (or equal to) earlier ones -/
def PrefixOrdered (S : List RLogger) : Prop :=
  S.Pairwise (fun a b => ¬ comps b.name <+: comps a.name)

theorem BuildInv.fold {root : Nat × List Nat} (rest : List RLogger) :
    ∀ (L : List RLogger) (st : Node × Bool), BuildInv root L st.1 → PrefixOrdered (L ++ rest) →
      (∀ l ∈ rest, EndsOk l.name) →
      BuildInv root (L ++ rest) (rest.foldl addLogger st).1 ∧ (rest.foldl addLogger st).2 = st.2 := by
  induction rest with
  | nil => intro L st inv _ _; simpa using inv
  | cons l rest ih =>
    intro L st inv hord hok
    obtain ⟨t, w⟩ := st
    have hnew : ∀ l' ∈ L, ¬ comps l.name <+: comps l'.name := by
      intro l' hl'
      have := (List.pairwise_append.mp hord).2.2 l' hl' l (by simp)
      exact this
    obtain ⟨inv', hw⟩ := BuildInv.step inv w l hnew (hok l (by simp))
    have hord' : PrefixOrdered ((L ++ [l]) ++ rest) := by
      simpa [PrefixOrdered, List.append_assoc] using hord
    obtain ⟨inv'', hw'⟩ := ih (L ++ [l]) (addLogger (t, w) l) inv' hord' (fun x hx => hok x (by simp [hx]))
    refine ⟨?_, ?_⟩
    · simpa [List.append_assoc] using inv''
    · simp only [List.foldl_cons, hw', hw]

/-- sorted by byte length with distinct names ⇒ ancestors come first -/
theorem prefixOrdered_of_sorted (S : List RLogger)
    (hs : S.Pairwise (fun a b => byteLen a.name ≤ byteLen b.name))
    (hn : S.Pairwise (fun a b => a.name ≠ b.name)) : PrefixOrdered S := by
  unfold PrefixOrdered
  refine (hs.and hn).imp ?_
  intro a b ⟨hle, hne⟩ hpre
  by_cases heq : comps b.name = comps a.name
  · exact hne (comps_inj heq).symm
  · have := clen_lt_of_prefix (comps_ne_nil _) hpre heq
    rw [← byteLen_eq_clen, ← byteLen_eq_clen] at this
    omega

/-! ### index resolution -/

/-- proof device: the name behind an index, with a default that is never used (`namesOf_eq`) -/
def nameOf (tbl : List Name) (i : Nat) : Name := tbl.getD i []

theorem namesOf_eq (tbl : List Name) (is : List Nat) (h : ∀ i ∈ is, i < tbl.length) :
    namesOf tbl is = some (is.map (nameOf tbl)) := by
  induction is with
  | nil => rfl
  | cons i is ih =>
    have hi : i < tbl.length := h i (by simp)
    simp only [namesOf, List.getElem?_eq_getElem hi, ih (fun j hj => h j (by simp [hj])), List.map_cons, nameOf,
      List.getD_eq_getElem?_getD, Option.getD_some]

theorem lastIdx_get {tbl : List Name} {a : Name} {i : Nat} (h : lastIdx tbl a = some i) :
    nameOf tbl i = a := by
  induction tbl generalizing i with
  | nil => simp [lastIdx] at h
  | cons x xs ih =>
    simp only [lastIdx] at h
    cases hl : lastIdx xs a with
    | some j =>
      simp only [hl, Option.some.injEq] at h
      subst h
      have := ih hl
      simpa [nameOf] using this
    | none =>
      simp only [hl] at h
      split at h
      · rename_i hx
        cases h
        simp [nameOf, hx]
      · cases h

theorem lastIdx_lt {tbl : List Name} {a : Name} {i : Nat} (h : lastIdx tbl a = some i) : i < tbl.length := by
  induction tbl generalizing i with
  | nil => simp [lastIdx] at h
  | cons x xs ih =>
    simp only [lastIdx] at h
    cases hl : lastIdx xs a with
    | some j =>
      simp only [hl, Option.some.injEq] at h
      subst h
      have := ih hl
      simp; omega
    | none =>
      simp only [hl] at h
      split at h
      · cases h; simp
      · cases h

theorem lastIdx_of_mem {tbl : List Name} {a : Name} (h : a ∈ tbl) : ∃ i, lastIdx tbl a = some i := by
  induction tbl with
  | nil => cases h
  | cons x xs ih =>
    simp only [lastIdx]
    cases hl : lastIdx xs a with
    | some j => exact ⟨j + 1, rfl⟩
    | none =>
      rcases List.mem_cons.mp h with rfl | h'
      · exact ⟨0, by simp⟩
      · obtain ⟨i, hi⟩ := ih h'; rw [hl] at hi; cases hi

theorem resolve_of_mem (tbl : List Name) (refs : List Name) (h : ∀ a ∈ refs, a ∈ tbl) :
    ∃ is, resolve tbl refs = some is ∧ is.map (nameOf tbl) = refs ∧ ∀ i ∈ is, i < tbl.length := by
  induction refs with
  | nil => exact ⟨[], rfl, rfl, by simp⟩
  | cons a as ih =>
    obtain ⟨i, hi⟩ := lastIdx_of_mem (h a (by simp))
    obtain ⟨is, his, hmap, hlt⟩ := ih (fun x hx => h x (by simp [hx]))
    refine ⟨i :: is, by simp [resolve, hi, his], ?_, ?_⟩
    · simp [hmap, lastIdx_get hi]
    · intro j hj
      rcases List.mem_cons.mp hj with rfl | hj'
      · exact lastIdx_lt hi
      · exact hlt j hj'

/-- a resolved logger read back through the appender table -/
def unresolve (tbl : List Name) (r : RLogger) : LoggerCfg :=
  { name := r.name, level := r.level, additive := r.additive, appenders := r.apps.map (nameOf tbl) }

theorem resolveLoggers_of_mem (tbl : List Name) (ls : List LoggerCfg)
    (h : ∀ l ∈ ls, ∀ a ∈ l.appenders, a ∈ tbl) :
    ∃ rs, resolveLoggers tbl ls = some rs ∧ rs.map (unresolve tbl) = ls ∧
      ∀ r ∈ rs, ∀ i ∈ r.apps, i < tbl.length := by
  induction ls with
  | nil => exact ⟨[], rfl, rfl, by simp⟩
  | cons l ls ih =>
    obtain ⟨is, his, hmap, hlt⟩ := resolve_of_mem tbl l.appenders (h l (by simp))
    obtain ⟨rs, hrs, hm, hlts⟩ := ih (fun x hx => h x (by simp [hx]))
    refine ⟨{ name := l.name, level := l.level, additive := l.additive, apps := is } :: rs,
      by simp only [resolveLoggers, his, hrs], ?_, ?_⟩
    · simp [unresolve, hmap, hm]
    · intro r hr
      rcases List.mem_cons.mp hr with rfl | hr'
      · exact hlt
      · exact hlts r hr'

/-! ### the assembled statement -/

theorem foldl_max_perm {l₁ l₂ : List RLogger} (hp : l₁.Perm l₂) (m : Nat) :
    l₁.foldl (fun m l => max m l.level) m = l₂.foldl (fun m l => max m l.level) m := by
  apply hp.foldl_eq'
  intro x _ y _ z
  omega

/-- everything the property theorems need about the tree built from a valid configuration -/
theorem build_spec (cfg : Config) (hv : Valid cfg) :
    ∃ tree, build cfg = some tree ∧ buildWeird cfg = some false ∧
      (∀ p, ((fdata tree p).1, (fdata tree p).2.map (nameOf cfg.appenders)) =
        res (cfg.rootLevel, cfg.rootAppenders) (cfg.loggers.map entOfCfg) p) ∧
      tree.maxLevel = specMaxLevel cfg ∧
      (∀ p, ∀ i ∈ (fdata tree p).2, i < cfg.appenders.length) := by
  obtain ⟨_, hnames, hlog, hroot⟩ := hv
  obtain ⟨ra, hra, hramap, hralt⟩ := resolve_of_mem cfg.appenders cfg.rootAppenders hroot
  obtain ⟨rs, hrs, hrsmap, hrslt⟩ := resolveLoggers_of_mem cfg.appenders cfg.loggers (fun l hl => (hlog l hl).2)
  have hnm : rs.map (·.name) = cfg.loggers.map (·.name) := by
    rw [← hrsmap, List.map_map]; rfl
  have hlv : rs.map (·.level) = cfg.loggers.map (·.level) := by
    rw [← hrsmap, List.map_map]; rfl
  let S := sortByKey (fun l : RLogger => byteLen l.name) rs
  have hperm : S.Perm rs := sortByKey_perm _ rs
  have hndS : (S.map (·.name)).Nodup := ((hperm.map _).nodup_iff).mpr (hnm ▸ hnames)
  have hpo : PrefixOrdered S := by
    apply prefixOrdered_of_sorted S (sortByKey_sorted _ rs)
    have := List.nodup_iff_pairwise_ne.mp hndS
    exact List.pairwise_map.mp this
  have hok : ∀ l ∈ S, EndsOk l.name := by
    intro l hl
    have hmem : l.name ∈ cfg.loggers.map (·.name) := by
      rw [← hnm]; exact List.mem_map_of_mem (hperm.mem_iff.mp hl)
    obtain ⟨l0, hl0, he⟩ := List.mem_map.mp hmem
    exact he ▸ checkLoggerName_endsOk (hlog l0 hl0).1
  obtain ⟨inv, hw⟩ := BuildInv.fold (root := (cfg.rootLevel, ra)) S [] (Node.mk cfg.rootLevel ra [], false)
    (BuildInv.init _) (by simpa using hpo) hok
  simp only [List.nil_append] at inv
  refine ⟨(S.foldl addLogger (Node.mk cfg.rootLevel ra [], false)).1, ?_, ?_, ?_, ?_, ?_⟩
  · simp only [build, hra, hrs, buildTree]; rfl
  · simp only [buildWeird, hra, hrs, buildTree]; exact congrArg some hw
  · intro p
    have hndE : ((S.map toEnt).map (·.comps)).Nodup := by
      rw [List.map_map]
      have := List.nodup_iff_pairwise_ne.mp hndS
      rw [List.nodup_iff_pairwise_ne, List.pairwise_map]
      refine (List.pairwise_map.mp this).imp ?_
      intro a b hne hc
      exact hne (comps_inj hc)
    rw [inv.data p, res_perm _ hndE (hperm.map toEnt) p]
    have := res_map (nameOf cfg.appenders) (cfg.rootLevel, ra) (rs.map toEnt) p
    simp only [hramap, List.map_map] at this
    rw [← this, ← hrsmap, List.map_map]
    rfl
  · rw [inv.maxl, foldl_max_perm hperm]
    unfold specMaxLevel
    rw [← hlv, List.foldl_map]
  · intro p i hi
    rw [inv.data p] at hi
    rcases res_mem _ _ p i hi with h0 | ⟨e, he, hie⟩
    · exact hralt i h0
    · obtain ⟨r, hr, rfl⟩ := List.mem_map.mp he
      exact hrslt r (hperm.mem_iff.mp hr) i hie

theorem appendLoop_eq (fails : Name → Bool) (as : List Name) :
    appendLoop fails as = (as, as.filter fails) := by
  induction as with
  | nil => rfl
  | cons a as ih =>
    simp only [appendLoop, ih, List.filter_cons]

theorem logNodeF_eq (tbl : List Name) (fails : Name → Bool) (n : Node) (lvl : Nat) :
    logNodeF tbl fails n lvl = (logNode tbl n lvl).map fun ds => (ds, ds.filter fails) := by
  unfold logNodeF logNode
  split
  · cases namesOf tbl n.apps <;> simp [appendLoop_eq]
  · rfl

theorem deliverF_eq (cfg : Config) (fails : Name → Bool) (t : Name) (lvl : Nat) :
    deliverF cfg fails t lvl = (deliver cfg t lvl).map fun ds => (ds, ds.filter fails) := by
  unfold deliverF deliver
  cases build cfg with
  | none => rfl
  | some tree => simp only [Option.bind_some, logNodeF_eq]

theorem deliver_eq_spec (cfg : Config) (hv : Valid cfg) (t : Name) (lvl : Nat) :
    deliver cfg t lvl = some (specDeliver cfg t lvl) := by
  obtain ⟨tree, hb, _, hdata, _, hrange⟩ := build_spec cfg hv
  have h := hdata (comps t)
  rw [res_eq_spec cfg (comps t) (comps t).length (Nat.le_refl _)] at h
  simp only [Prod.mk.injEq, fdata] at h
  have hn := namesOf_eq cfg.appenders (find tree (comps t)).apps (hrange (comps t))
  simp only [deliver, hb, Option.bind_some, logNode, hn, specDeliver, specLevel_eq, effective, h.1, h.2]
  split <;> rfl

/-! ### history machine -/

theorem install_inv {c : Config} {s : State} (h : install c = some s) :
    s.cfg = c ∧ maxLogLevel c = some s.globalMax := by
  unfold install at h
  unfold maxLogLevel
  cases hb : build c with
  | none => simp [hb] at h
  | some tree =>
    simp only [hb, Option.map_some, Option.some.injEq] at h ⊢
    subst h
    exact ⟨rfl, rfl⟩

theorem install_of_valid (c : Config) (hc : Valid c) : ∃ s, install c = some s := by
  obtain ⟨tree, hb, _⟩ := build_spec c hc
  exact ⟨{ cfg := c, globalMax := tree.maxLevel }, by simp [install, hb]⟩

/-- the two facts carried along a history: the global maximum is the installed logger's, and the installed
configuration is the last one that was installed -/
theorem steps_inv (sts : List Step) (s0 s : State)
    (h0 : maxLogLevel s0.cfg = some s0.globalMax) (h : steps true s0 sts = some s) :
    maxLogLevel s.cfg = some s.globalMax ∧
      s.cfg = (s0.cfg :: sts.filterMap Step.installs).getLast (by simp) := by
  induction sts generalizing s0 with
  | nil =>
    simp only [steps, Option.some.injEq] at h
    subst h
    exact ⟨h0, rfl⟩
  | cons st sts ih =>
    cases st with
    | setConfig c =>
      simp only [steps, step] at h
      cases hi : install c with
      | none => simp [hi] at h
      | some s' =>
        simp only [hi] at h
        obtain ⟨hc, hm⟩ := install_inv hi
        obtain ⟨r1, r2⟩ := ih s' (hc ▸ hm) h
        refine ⟨r1, ?_⟩
        rw [r2, hc]
        simp [Step.installs, List.getLast_cons_cons]
    | reinit p c =>
      simp only [steps, step, reinit, if_true] at h
      obtain ⟨r1, r2⟩ := ih s0 h0 h
      exact ⟨r1, by rw [r2]; simp [List.filterMap_cons, Step.installs]⟩
    | reload c =>
      simp only [steps, step] at h
      cases hi : install c with
      | none => simp [hi] at h
      | some s' =>
        simp only [hi] at h
        obtain ⟨hc, hm⟩ := install_inv hi
        obtain ⟨r1, r2⟩ := ih s' (hc ▸ hm) h
        refine ⟨r1, ?_⟩
        rw [r2, hc]
        simp [Step.installs, List.getLast_cons_cons]

theorem steps_total (sts : List Step) (s0 : State)
    (hv : ∀ st ∈ sts, ∀ c, st.installs = some c → Valid c) : (steps true s0 sts).isSome = true := by
  induction sts generalizing s0 with
  | nil => rfl
  | cons st sts ih =>
    cases st with
    | setConfig c =>
      obtain ⟨s', hs'⟩ := install_of_valid c (hv _ List.mem_cons_self c rfl)
      simp only [steps, step, hs']
      exact ih s' (fun x hx => hv x (List.mem_cons_of_mem _ hx))
    | reinit p c =>
      simp only [steps, step]
      exact ih _ (fun x hx => hv x (List.mem_cons_of_mem _ hx))
    | reload c =>
      obtain ⟨s', hs'⟩ := install_of_valid c (hv _ List.mem_cons_self c rfl)
      simp only [steps, step, hs']
      exact ih s' (fun x hx => hv x (List.mem_cons_of_mem _ hx))

end Log4rs.Routing.Tree
