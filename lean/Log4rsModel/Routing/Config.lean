import Log4rsModel.Base.Level
/-
Shared vocabulary of the routing area (C01 C02 C03 C13 C14 C15).
A configuration as the public builder API sees it: appenders are known by name, loggers refer to
appenders by name. `Valid` is what `ConfigBuilder::build` guarantees (C13 proves that) and what the
routing theorems (C01, C02) assume.
-/
namespace Log4rs.Routing

abbrev Name := List Char

structure LoggerCfg where
  name : Name
  level : Nat                 -- LevelFilter 0..5
  additive : Bool := true
  appenders : List Name := []
  deriving Repr, DecidableEq

structure Config where
  appenders : List Name       -- declared appender names, table order
  rootLevel : Nat
  rootAppenders : List Name
  loggers : List LoggerCfg    -- declaration order
  deriving Repr, DecidableEq

/-- `config::runtime::check_logger_name`, the streak automaton, verbatim:
empty ⇒ invalid; a ':' increments the streak (>2 ⇒ invalid); another character requires the
streak to be 0 or 2 and resets it; at the end the streak must be 0. -/
def checkNameAux : List Char → Nat → Bool
  | [], streak => streak == 0
  | c :: cs, streak =>
    if c = ':' then
      if streak + 1 > 2 then false else checkNameAux cs (streak + 1)
    else
      if streak > 0 && streak != 2 then false else checkNameAux cs 0

def checkLoggerName (s : Name) : Bool :=
  if s.isEmpty then false else checkNameAux s 0

def validB (cfg : Config) : Bool :=
  cfg.appenders.Nodup &&
  (cfg.loggers.map (·.name)).Nodup &&
  cfg.loggers.all (fun l => checkLoggerName l.name && l.appenders.all (cfg.appenders.contains ·)) &&
  cfg.rootAppenders.all (cfg.appenders.contains ·)

/-- what `ConfigBuilder::build` guarantees of every `Config` it returns -/
def Valid (cfg : Config) : Prop :=
  cfg.appenders.Nodup ∧
  (cfg.loggers.map (·.name)).Nodup ∧
  (∀ l ∈ cfg.loggers, checkLoggerName l.name = true ∧ ∀ a ∈ l.appenders, a ∈ cfg.appenders) ∧
  (∀ a ∈ cfg.rootAppenders, a ∈ cfg.appenders)

end Log4rs.Routing
