import Log4rsModel.Routing.Tree
import Log4rsModel.Routing.Filters
/-
`Log::log` end to end (src/lib.rs 438–449) on a logger created from a configuration:
`shared.root.find(record.target())` (Routing/Tree.lean) followed by `ConfiguredLogger::log` and the
error loop (Routing/Filters.lean). The appender table `table` holds the runtime appenders in the
order of `cfg.appenders` (`SharedLogger::new` keeps that order).
-/
namespace Log4rs.Routing

/-- the snapshot `Log::log` works on for a record with this target: `none` = `SharedLogger::new`
panicked in `appender_map[..]` -/
def snapshotOf {ρ : Type} (cfg : Config) (table : List (AppenderG ρ)) (h : HandlerId) (target : Name) :
    Option (Shared ρ) :=
  (Tree.build cfg).map fun tree =>
    let node := Tree.find tree (Tree.comps target)
    Shared.create h table node.level node.apps

/-- `Logger::new_with_err_handler(cfg, h)` (or `Logger::new`), then `Log::log(record)` -/
def logRecord {ρ : Type} (cfg : Config) (table : List (AppenderG ρ)) (h : HandlerId) (target : Name)
    (lvlOf : ρ → Nat) (r : ρ) : Option LogResult :=
  (snapshotOf cfg table h target).map fun s => s.log lvlOf r

end Log4rs.Routing
