import Log4rsModel.Routing.LemmasStr
/-
Tree layer of the routing proofs. `addC` is `ConfiguredLogger::add` seen on component lists; it equals the
string-level `add` whenever the inserted path is not yet a node (`addAux_eq_addC`) — which is also exactly
when the `child.add("")` branch is not taken. For such insertions: what `find` returns afterwards
(`fdata_addC`), which paths are nodes afterwards (`getNode_addC`), and the maximum level (`maxLevel_addC`).
-/
namespace Log4rs.Routing.Tree
open Log4rs Log4rs.Str

/-- the node at exactly this path, if there is one -/
def getNode : Node → List Name → Option Node
  | node, [] => some node
  | node, c :: cs =>
    match lookup c node.children with
    | some child => getNode child cs
    | none => none

/-- (level, appender indices) of the node `find` stops at -/
def fdata (node : Node) (p : List Name) : Nat × List Nat := ((find node p).level, (find node p).apps)

/-- `ConfiguredLogger::add` on the component list of the path -/
def addC : List Name → Node → List Nat → Bool → Nat → Node
  | [], node, _, _, _ => node
  | [c], node, apps, additive, level =>
    match lookup c node.children with
    | some _ => node
    | none =>
      Node.mk node.level node.apps
        (node.children ++ [(c, Node.mk level (apps ++ (if additive then node.apps else [])) [])])
  | c :: c' :: cs, node, apps, additive, level =>
    match lookup c node.children with
    | some child =>
      Node.mk node.level node.apps (setChild c (addC (c' :: cs) child apps additive level) node.children)
    | none =>
      Node.mk node.level node.apps
        (node.children ++ [(c, addC (c' :: cs) (Node.mk node.level node.apps []) apps additive level)])

@[simp] theorem Node.level_mk (l : Nat) (a : List Nat) (cs : List (Name × Node)) : (Node.mk l a cs).level = l := rfl
@[simp] theorem Node.apps_mk (l : Nat) (a : List Nat) (cs : List (Name × Node)) : (Node.mk l a cs).apps = a := rfl
@[simp] theorem Node.children_mk (l : Nat) (a : List Nat) (cs : List (Name × Node)) :
    (Node.mk l a cs).children = cs := rfl

/-! ### association-list facts -/

theorem lookup_append_single (k c : Name) (n : Node) (cs : List (Name × Node)) :
    lookup k (cs ++ [(c, n)]) =
      match lookup k cs with
      | some x => some x
      | none => if c = k then some n else none := by
  induction cs with
  | nil => simp [lookup]
  | cons e cs ih =>
    obtain ⟨k', m⟩ := e
    simp only [List.cons_append, lookup]
    split
    · rfl
    · exact ih

theorem lookup_setChild (k c : Name) (n : Node) (cs : List (Name × Node)) :
    lookup k (setChild c n cs) = if k = c then (lookup c cs).map (fun _ => n) else lookup k cs := by
  induction cs with
  | nil => simp [lookup, setChild]
  | cons e cs ih =>
    obtain ⟨k', m⟩ := e
    by_cases h1 : k' = c
    · subst h1
      simp only [setChild, lookup, if_true]
      by_cases h2 : k' = k
      · subst h2; simp
      · have : ¬ k = k' := fun h => h2 h.symm
        simp [h2, this]
    · simp only [setChild, h1, if_false, lookup]
      by_cases h2 : k' = k
      · subst h2; simp [h1]
      · simp only [h2, if_false, ih]

theorem getNode_leaf (l : Nat) (a : List Nat) (p : List Name) (hp : p ≠ []) :
    getNode (Node.mk l a []) p = none := by
  cases p with
  | nil => exact absurd rfl hp
  | cons c cs => simp [getNode, lookup]

theorem find_leaf (l : Nat) (a : List Nat) (p : List Name) : find (Node.mk l a []) p = Node.mk l a [] := by
  cases p with
  | nil => rfl
  | cons c cs => simp [find, lookup]

theorem fdata_leaf (l : Nat) (a : List Nat) (p : List Name) : fdata (Node.mk l a []) p = (l, a) := by
  simp [fdata, find_leaf]

theorem getNode_none_lookup {node : Node} {c : Name} {cs : List Name}
    (h : getNode node (c :: cs) = none) (child : Node) (hl : lookup c node.children = some child) :
    getNode child cs = none := by
  simpa [getNode, hl] using h

/-! ### the string-level `add` is `addC` when the path is new -/

theorem addAux_eq_addC (fuel : Nat) (node : Node) (path : Name) (apps : List Nat) (additive : Bool)
    (level : Nat) (hf : path.length < fuel) (hok : EndsOk path) (hnone : getNode node (comps path) = none) :
    addAux fuel node path apps additive level = (addC (comps path) node apps additive level, false) := by
  induction fuel generalizing node path with
  | zero => omega
  | succ fuel ih =>
    simp only [addAux]
    rw [comps_eq] at hnone ⊢
    rw [splitFirst_eq]
    cases hfs : findSep path with
    | none =>
      simp only [hfs] at hnone ⊢
      cases hl : lookup path node.children with
      | some child => simp [getNode, hl] at hnone
      | none => simp [addC, hl]
    | some pr =>
      obtain ⟨p, r⟩ := pr
      simp only [hfs] at hnone ⊢
      have hr := hok.rest hfs
      have hlen := (findSep_some hfs).2
      have hcr := comps_ne_nil r
      cases hc : comps r with
      | nil => exact absurd hc hcr
      | cons d ds =>
        rw [hc] at hnone
        cases hl : lookup p node.children with
        | some child =>
          have hn' : getNode child (comps r) = none := by
            rw [hc]; exact getNode_none_lookup hnone child hl
          have e1 := ih child r (by omega) hr hn'
          simp only [addC, hl, e1, hc]
          simp [hr.1]
        | none =>
          have hn' : getNode (Node.mk node.level node.apps []) (comps r) = none :=
            getNode_leaf _ _ _ hcr
          have e1 := ih (Node.mk node.level node.apps []) r (by omega) hr hn'
          simp only [addC, hl, e1, hc]
          simp [hr.1]

theorem add_eq_addC (node : Node) (path : Name) (apps : List Nat) (additive : Bool) (level : Nat)
    (hok : EndsOk path) (hnone : getNode node (comps path) = none) :
    add node path apps additive level = (addC (comps path) node apps additive level, false) := by
  unfold add
  exact addAux_eq_addC _ node path apps additive level (by omega) hok hnone

/-! ### the fuel of `add` is never exhausted (all inputs, no validity hypothesis) -/

theorem depth_mk (l : Nat) (a : List Nat) (cs : List (Name × Node)) : (Node.mk l a cs).depth = depthList cs := by
  rw [Node.depth]

theorem lookup_depth {cs : List (Name × Node)} {c : Name} {child : Node} (h : lookup c cs = some child) :
    child.depth + 1 ≤ depthList cs := by
  induction cs with
  | nil => simp [lookup] at h
  | cons e cs ih =>
    obtain ⟨k, x⟩ := e
    simp only [lookup] at h
    simp only [depthList]
    split at h
    · cases h; omega
    · have := ih h; omega

theorem splitFirst_length (path : Name) :
    (splitFirst path).2.length ≤ path.length ∧ ((splitFirst path).2 ≠ [] → (splitFirst path).2.length + 2 ≤ path.length) := by
  rw [splitFirst_eq]
  cases h : findSep path with
  | none => simp
  | some pr =>
    obtain ⟨p, r⟩ := pr
    have := (findSep_some h).2
    simp only
    exact ⟨by omega, fun _ => this⟩

/-- any fuel at or above `path length + depth + 1` gives the same result as exactly that much: the `0` arm of
`addAux` is never what `add` returns, whatever the tree and the path (valid or not) -/
theorem addAux_fuel (f : Nat) (node : Node) (path : Name) (apps : List Nat) (additive : Bool) (level : Nat)
    (hf : path.length + node.depth + 1 ≤ f) :
    addAux f node path apps additive level =
      addAux (path.length + node.depth + 1) node path apps additive level := by
  induction f using Nat.strongRecOn generalizing node path with
  | _ f ih =>
    cases f with
    | zero => omega
    | succ f =>
      obtain ⟨hl1, hl2⟩ := splitFirst_length path
      cases node with
      | mk nl na ncs =>
      simp only [addAux, Node.children_mk, Node.level_mk, Node.apps_mk, depth_mk] at hf ⊢
      cases hlk : lookup (splitFirst path).1 ncs with
      | some child =>
        have hd := lookup_depth hlk
        simp only
        rw [ih f (by omega) child _ (by omega),
          ih (path.length + depthList ncs) (by omega) child _ (by omega)]
      | none =>
        simp only
        by_cases he : (splitFirst path).2.isEmpty = true
        · simp [he]
        · have hne : (splitFirst path).2 ≠ [] := by simpa using he
          have h2 := hl2 hne
          simp only [he]
          rw [ih f (by omega) (Node.mk nl na []) _ (by simp [depth_mk, depthList]; omega),
            ih (path.length + depthList ncs) (by omega) (Node.mk nl na []) _
              (by simp [depth_mk, depthList]; omega)]

/-! ### `find` after an insertion -/

theorem fdata_cons (node : Node) (c : Name) (cs : List Name) :
    fdata node (c :: cs) =
      match lookup c node.children with
      | some child => fdata child cs
      | none => (node.level, node.apps) := by
  cases h : lookup c node.children <;> simp [fdata, find, h]

theorem fdata_nil (node : Node) : fdata node [] = (node.level, node.apps) := rfl

theorem lookup_none_of_getNode {node : Node} {c : Name} (h : getNode node [c] = none) :
    lookup c node.children = none := by
  cases hl : lookup c node.children with
  | none => rfl
  | some ch => simp [getNode, hl] at h

theorem fdata_addC (q : List Name) (node : Node) (apps : List Nat) (additive : Bool) (level : Nat)
    (hnone : getNode node q = none) (p : List Name) :
    fdata (addC q node apps additive level) p =
      if q <+: p then (level, apps ++ (if additive then (fdata node q).2 else []))
      else fdata node p := by
  induction q generalizing node p with
  | nil => simp [getNode] at hnone
  | cons c q' ih =>
    cases node with
    | mk nl na ncs =>
    cases q' with
    | nil =>
      have hl : lookup c ncs = none := lookup_none_of_getNode (node := Node.mk nl na ncs) hnone
      simp only [addC, Node.children_mk, hl, Node.level_mk, Node.apps_mk]
      cases p with
      | nil => simp [fdata_nil]
      | cons k ps =>
        rw [fdata_cons, fdata_cons, fdata_cons]
        simp only [Node.children_mk, lookup_append_single, Node.level_mk, Node.apps_mk, hl]
        cases hk : lookup k ncs with
        | some x =>
          have hck : c ≠ k := by intro h; subst h; rw [hl] at hk; cases hk
          simp [hck]
        | none =>
          by_cases hck : c = k
          · subst hck
            simp [fdata_leaf]
          · simp [hck]
    | cons c' cs =>
      cases hl : lookup c ncs with
      | some child =>
        have hn' : getNode child (c' :: cs) = none :=
          getNode_none_lookup (node := Node.mk nl na ncs) hnone child hl
        simp only [addC, Node.children_mk, hl, Node.level_mk, Node.apps_mk]
        cases p with
        | nil => simp [fdata_nil]
        | cons k ps =>
          rw [fdata_cons, fdata_cons (Node.mk nl na ncs) c, fdata_cons (Node.mk nl na ncs) k]
          simp only [Node.children_mk, lookup_setChild, hl, Node.level_mk, Node.apps_mk]
          by_cases hkc : k = c
          · subst hkc
            simp only [if_true, hl, Option.map_some, ih child hn' ps, List.cons_prefix_cons, true_and]
          · have : ¬ c = k := fun h => hkc h.symm
            simp [hkc, this]
      | none =>
        simp only [addC, Node.children_mk, hl, Node.level_mk, Node.apps_mk]
        have hn' : getNode (Node.mk nl na []) (c' :: cs) = none :=
          getNode_leaf _ _ _ (by simp)
        cases p with
        | nil => simp [fdata_nil]
        | cons k ps =>
          rw [fdata_cons, fdata_cons (Node.mk nl na ncs) c, fdata_cons (Node.mk nl na ncs) k]
          simp only [Node.children_mk, lookup_append_single, hl, Node.level_mk, Node.apps_mk]
          cases hk : lookup k ncs with
          | some x =>
            have hck : c ≠ k := by intro h; subst h; rw [hl] at hk; cases hk
            simp [hck]
          | none =>
            by_cases hck : c = k
            · subst hck
              simp only [if_true, ih _ hn' ps, fdata_leaf, List.cons_prefix_cons, true_and]
            · simp [hck]

/-! ### node paths after an insertion -/

theorem getNode_cons (node : Node) (c : Name) (cs : List Name) :
    getNode node (c :: cs) =
      match lookup c node.children with
      | some child => getNode child cs
      | none => none := rfl

theorem getNode_addC (q : List Name) (node : Node) (apps : List Nat) (additive : Bool) (level : Nat)
    (p : List Name) (h : getNode (addC q node apps additive level) p ≠ none) :
    getNode node p ≠ none ∨ p <+: q := by
  induction q generalizing node p with
  | nil => left; simpa [addC] using h
  | cons c q' ih =>
    cases p with
    | nil => left; simp [getNode]
    | cons k ps =>
      cases node with
      | mk nl na ncs =>
      cases q' with
      | nil =>
        cases hl : lookup c ncs with
        | some ch => left; simpa [addC, hl] using h
        | none =>
          simp only [addC, Node.children_mk, hl, getNode_cons, lookup_append_single, Node.level_mk,
            Node.apps_mk] at h ⊢
          cases hk : lookup k ncs with
          | some x => left; simpa [hk] using h
          | none =>
            simp only [hk] at h
            by_cases hck : c = k
            · subst hck
              simp only [if_true] at h
              have : ps = [] := by
                cases ps with
                | nil => rfl
                | cons a b => simp [getNode_cons, lookup] at h
              subst this
              right; exact List.prefix_refl _
            · simp [hck] at h
      | cons c' cs =>
        cases hl : lookup c ncs with
        | some child =>
          simp only [addC, Node.children_mk, hl, getNode_cons, lookup_setChild, Node.level_mk,
            Node.apps_mk] at h ⊢
          by_cases hkc : k = c
          · subst hkc
            simp only [if_true, hl, Option.map_some] at h
            rcases ih child ps h with h1 | h1
            · left; simpa [hl] using h1
            · right; simpa [List.cons_prefix_cons] using h1
          · left; simpa [hkc] using h
        | none =>
          simp only [addC, Node.children_mk, hl, getNode_cons, lookup_append_single, Node.level_mk,
            Node.apps_mk] at h ⊢
          cases hk : lookup k ncs with
          | some x => left; simpa [hk] using h
          | none =>
            simp only [hk] at h
            by_cases hck : c = k
            · subst hck
              simp only [if_true] at h
              rcases ih _ ps h with h1 | h1
              · have : ps = [] := by
                  cases ps with
                  | nil => rfl
                  | cons a b => simp [getNode_cons, lookup] at h1
                subst this
                right; simp [List.cons_prefix_cons]
              · right; simpa [List.cons_prefix_cons] using h1
            · simp [hck] at h

/-! ### maximum level -/

theorem maxLevel_mk (l : Nat) (a : List Nat) (cs : List (Name × Node)) :
    (Node.mk l a cs).maxLevel = maxLevelList cs l := by
  rw [Node.maxLevel]

theorem maxLevelList_acc (cs : List (Name × Node)) (m : Nat) :
    maxLevelList cs m = max m (maxLevelList cs 0) := by
  induction cs generalizing m with
  | nil => simp [maxLevelList]
  | cons e cs ih =>
    obtain ⟨k, n⟩ := e
    simp only [maxLevelList]
    rw [ih (max m n.maxLevel), ih (max 0 n.maxLevel)]
    omega

theorem le_maxLevelList (cs : List (Name × Node)) (m : Nat) : m ≤ maxLevelList cs m := by
  rw [maxLevelList_acc]; omega

theorem maxLevelList_append_single (cs : List (Name × Node)) (c : Name) (n : Node) (m : Nat) :
    maxLevelList (cs ++ [(c, n)]) m = max (maxLevelList cs m) n.maxLevel := by
  induction cs generalizing m with
  | nil => simp [maxLevelList]
  | cons e cs ih =>
    obtain ⟨k, x⟩ := e
    simp only [List.cons_append, maxLevelList, ih]

theorem lookup_maxLevel_le {cs : List (Name × Node)} {c : Name} {child : Node}
    (h : lookup c cs = some child) (m : Nat) : child.maxLevel ≤ maxLevelList cs m := by
  induction cs generalizing m with
  | nil => simp [lookup] at h
  | cons e cs ih =>
    obtain ⟨k, x⟩ := e
    simp only [lookup] at h
    simp only [maxLevelList]
    split at h
    · cases h
      have := le_maxLevelList cs (max m child.maxLevel)
      omega
    · exact ih h _

theorem maxLevelList_setChild {cs : List (Name × Node)} {c : Name} {child new : Node} {l : Nat}
    (h : lookup c cs = some child) (hn : new.maxLevel = max child.maxLevel l) (m : Nat) :
    maxLevelList (setChild c new cs) m = max (maxLevelList cs m) l := by
  induction cs generalizing m with
  | nil => simp [lookup] at h
  | cons e cs ih =>
    obtain ⟨k, x⟩ := e
    simp only [lookup] at h
    split at h
    · rename_i hk
      cases h
      simp only [setChild, hk, if_true, maxLevelList, hn]
      rw [maxLevelList_acc cs (max m (max child.maxLevel l)), maxLevelList_acc cs (max m child.maxLevel)]
      omega
    · rename_i hk
      simp only [setChild, hk, if_false, maxLevelList]
      exact ih h _

theorem level_le_maxLevel (node : Node) : node.level ≤ node.maxLevel := by
  cases node with
  | mk l a cs => rw [maxLevel_mk]; exact le_maxLevelList cs l

theorem maxLevel_addC (q : List Name) (node : Node) (apps : List Nat) (additive : Bool) (level : Nat)
    (hnone : getNode node q = none) :
    (addC q node apps additive level).maxLevel = max node.maxLevel level := by
  induction q generalizing node with
  | nil => simp [getNode] at hnone
  | cons c q' ih =>
    cases node with
    | mk nl na ncs =>
    cases q' with
    | nil =>
      have hl : lookup c ncs = none := by
        cases h : lookup c ncs with
        | none => rfl
        | some ch => simp [getNode, Node.children, h] at hnone
      simp only [addC, Node.children, hl, Node.level, Node.apps, maxLevel_mk, maxLevelList_append_single,
        maxLevelList]
    | cons c' cs =>
      cases hl : lookup c ncs with
      | some child =>
        have hn' : getNode child (c' :: cs) = none :=
          getNode_none_lookup (node := Node.mk nl na ncs) hnone child hl
        simp only [addC, Node.children, hl, Node.level, Node.apps, maxLevel_mk]
        exact maxLevelList_setChild hl (ih child hn') nl
      | none =>
        have hn' : getNode (Node.mk nl na []) (c' :: cs) = none := getNode_leaf _ _ _ (by simp)
        simp only [addC, Node.children, hl, Node.level, Node.apps, maxLevel_mk, maxLevelList_append_single,
          ih _ hn', maxLevelList]
        have := le_maxLevelList ncs nl
        omega

/-- the node `find` stops at is never more verbose than the tree's maximum -/
theorem find_level_le_maxLevel (node : Node) (p : List Name) : (find node p).level ≤ node.maxLevel := by
  induction p generalizing node with
  | nil => exact level_le_maxLevel node
  | cons c cs ih =>
    cases node with
    | mk l a ncs =>
      simp only [find, Node.children]
      cases hl : lookup c ncs with
      | none => exact level_le_maxLevel _
      | some child =>
        simp only
        have h1 := ih child
        have h2 := lookup_maxLevel_le hl l
        rw [maxLevel_mk]
        omega

end Log4rs.Routing.Tree
