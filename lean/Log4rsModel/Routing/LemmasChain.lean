import Log4rsModel.Routing.LemmasBuild
/-
Declarative layer of the routing proofs: what `effectiveAt`, `parent`, `chain`, `comps` *are*, stated
without reference to the programs that compute them; permutation of attachment lists.
-/
namespace Log4rs.Routing.Tree
open Log4rs Log4rs.Str

/-! ### `effectiveAt` is the configured logger with the longest component prefix -/

theorem effectiveAt_spec (ls : List LoggerCfg) (p : List Name) :
    match effectiveAt ls p with
    | some l => l ∈ ls ∧ comps l.name <+: p ∧
        ∀ l' ∈ ls, comps l'.name <+: p → (comps l'.name).length ≤ (comps l.name).length
    | none => ∀ l ∈ ls, ¬ comps l.name <+: p := by
  induction p using snoc_induction with
  | hnil =>
    rw [effectiveAt_nil]
    intro l _ h
    exact comps_ne_nil l.name (List.prefix_nil.mp h)
  | hsnoc p c ih =>
    rw [effectiveAt_concat]
    cases hl : lookupLogger ls (p ++ [c]) with
    | some l =>
      have hc := lookupLogger_comps hl
      refine ⟨List.mem_of_find?_eq_some hl, hc ▸ List.prefix_refl _, ?_⟩
      intro l' _ hp
      rw [hc]; exact hp.length_le
    | none =>
      have hno : ∀ l ∈ ls, comps l.name ≠ p ++ [c] := by
        intro l hm
        have := List.find?_eq_none.mp hl l hm
        simpa using this
      simp only
      cases he : effectiveAt ls p with
      | some l =>
        rw [he] at ih
        refine ⟨ih.1, ih.2.1.trans (List.prefix_append _ _), ?_⟩
        intro l' hm hp
        rcases List.prefix_concat_iff.mp hp with h1 | h1
        · exact absurd h1 (hno l' hm)
        · exact ih.2.2 l' hm h1
      | none =>
        rw [he] at ih
        intro l hm hp
        rcases List.prefix_concat_iff.mp hp with h1 | h1
        · exact hno l hm h1
        · exact ih l hm h1

theorem effectiveAt_length {ls : List LoggerCfg} {p : List Name} {l : LoggerCfg}
    (h : effectiveAt ls p = some l) : (comps l.name).length ≤ p.length := by
  have := effectiveAt_spec ls p
  rw [h] at this
  exact this.2.1.length_le

/-- the prefixes of a list without its last element are its proper prefixes -/
theorem prefix_dropLast_iff {α} (x q : List α) (hq : q ≠ []) : x <+: q.dropLast ↔ x <+: q ∧ x ≠ q := by
  obtain ⟨q', c, rfl⟩ : ∃ q' c, q = q' ++ [c] := ⟨q.dropLast, q.getLast hq, (List.dropLast_concat_getLast hq).symm⟩
  rw [List.dropLast_concat, List.prefix_concat_iff]
  constructor
  · intro h
    refine ⟨Or.inr h, ?_⟩
    intro he; have := h.length_le; rw [he] at this; simp at this; omega
  · rintro ⟨h | h, hne⟩
    · exact absurd h hne
    · exact h

/-! ### `chain` is the concatenation of the attachments of the visited loggers -/

theorem chain_is_visited (cfg : Config) (n : Nat) (o : Option LoggerCfg) :
    chain cfg n o = ((visited cfg n o).map (attached cfg)).flatten := by
  induction n generalizing o with
  | zero => cases o <;> simp [chain, visited, attached]
  | succ n ih =>
    cases o with
    | none => simp [chain, visited, attached]
    | some l =>
      simp only [chain, visited]
      cases l.additive
      · simp [attached]
      · simp [attached, ih]

theorem visited_ne_nil (cfg : Config) (n : Nat) (o : Option LoggerCfg) : visited cfg n o ≠ [] := by
  cases n <;> cases o <;> simp [visited]

theorem visited_head (cfg : Config) (n : Nat) (o : Option LoggerCfg) : (visited cfg n o).head? = some o := by
  cases n <;> cases o <;> simp [visited]

/-- shape of the walk, for any start whose number of components does not exceed the bound `n`:
it starts at the start; every step goes from an *additive* logger to its parent; it ends at the root or
at a non-additive logger -/
theorem visited_shape (cfg : Config) (n : Nat) (o : Option LoggerCfg)
    (hn : ∀ l, o = some l → (comps l.name).length ≤ n) :
    (visited cfg n o).head? = some o ∧
    (∀ i a b, (visited cfg n o)[i]? = some a → (visited cfg n o)[i + 1]? = some b →
      ∃ l, a = some l ∧ l.additive = true ∧ b = parent cfg l) ∧
    ((visited cfg n o).getLast? = some none ∨
      ∃ l, (visited cfg n o).getLast? = some (some l) ∧ l.additive = false) := by
  refine ⟨visited_head cfg n o, ?_⟩
  induction n generalizing o with
  | zero =>
    cases o with
    | none => simp [visited]
    | some l =>
      have := hn l rfl
      have hne := comps_ne_nil l.name
      cases hc : comps l.name with
      | nil => exact absurd hc hne
      | cons a b => rw [hc] at this; simp at this
  | succ n ih =>
    cases o with
    | none => simp [visited]
    | some l =>
      cases hadd : l.additive with
      | false =>
        simp only [visited, hadd]
        refine ⟨?_, Or.inr ⟨l, by simp, hadd⟩⟩
        intro i a b h1 h2
        cases i <;> simp at h2
      | true =>
        have hpar : ∀ q, parent cfg l = some q → (comps q.name).length ≤ n := by
          intro q hq
          have h1 := effectiveAt_length hq
          have h2 := hn l rfl
          have hne := comps_ne_nil l.name
          simp only [List.length_dropLast] at h1
          omega
        obtain ⟨ihadj, ihlast⟩ := ih (parent cfg l) hpar
        have hvne := visited_ne_nil cfg n (parent cfg l)
        have hvh := visited_head cfg n (parent cfg l)
        simp only [visited, hadd, if_true]
        refine ⟨?_, ?_⟩
        · intro i a b h1 h2
          cases i with
          | zero =>
            simp only [List.getElem?_cons_zero, Option.some.injEq] at h1
            simp only [Nat.zero_add, List.getElem?_cons_succ] at h2
            rw [← List.head?_eq_getElem?, hvh] at h2
            exact ⟨l, h1.symm, hadd, (Option.some.inj h2).symm⟩
          | succ i =>
            simp only [List.getElem?_cons_succ] at h1 h2
            exact ihadj i a b h1 h2
        · cases hv : visited cfg n (parent cfg l) with
          | nil => exact absurd hv hvne
          | cons x xs =>
            rw [hv] at ihlast
            rw [List.getLast?_cons_cons]
            exact ihlast

/-! ### uniqueness of the longest-prefix logger under `Valid` -/

theorem eq_of_nodup_names {ls : List LoggerCfg} (hnd : (ls.map (·.name)).Nodup) {l l' : LoggerCfg}
    (hl : l ∈ ls) (hl' : l' ∈ ls) (hn : l.name = l'.name) : l = l' := by
  induction ls with
  | nil => cases hl
  | cons x xs ih =>
    simp only [List.map_cons, List.nodup_cons] at hnd
    rcases List.mem_cons.mp hl with rfl | h1 <;> rcases List.mem_cons.mp hl' with rfl | h2
    · rfl
    · exact absurd (hn ▸ List.mem_map_of_mem (f := (·.name)) h2) hnd.1
    · exact absurd (hn ▸ List.mem_map_of_mem (f := (·.name)) h1) hnd.1
    · exact ih hnd.2 h1 h2

theorem effective_unique (cfg : Config) (hv : Valid cfg) (p : List Name) (l l' : LoggerCfg)
    (hl : l ∈ cfg.loggers) (hl' : l' ∈ cfg.loggers) (hp : comps l.name <+: p) (hp' : comps l'.name <+: p)
    (hlen : (comps l.name).length = (comps l'.name).length) : l = l' := by
  have hc : comps l.name = comps l'.name := by
    obtain ⟨s, hs⟩ := hp; obtain ⟨s', hs'⟩ := hp'
    exact (List.append_inj (hs.trans hs'.symm) hlen).1
  exact eq_of_nodup_names hv.2.1 hl hl' (comps_inj hc)

/-! ### the bound in `chain` / `specDeliver` never cuts a chain -/

theorem chain_fuel (cfg : Config) (p : List Name) (n m : Nat) (hn : p.length ≤ n) (hm : p.length ≤ m) :
    chain cfg n (effectiveAt cfg.loggers p) = chain cfg m (effectiveAt cfg.loggers p) := by
  have h1 := res_eq_spec cfg p n hn
  have h2 := res_eq_spec cfg p m hm
  have := h1.symm.trans h2
  simp only [Prod.mk.injEq] at this
  exact this.2

/-! ### `comps` is *the* leftmost split at `"::"` -/

/-- no occurrence of `"::"` inside -/
def NoSep (c : Name) : Prop := ∀ a b : Name, c ≠ a ++ sep ++ b

theorem isPrefix_sep_iff (s : Name) : Str.isPrefix sep s = true ↔ ∃ b, s = sep ++ b := by
  cases s with
  | nil => simp [Str.isPrefix, sep]
  | cons c s =>
    cases s with
    | nil => simp [Str.isPrefix, sep]
    | cons d s => simp [Str.isPrefix, sep]; constructor <;> (rintro ⟨h1, h2⟩; exact ⟨h1.symm, h2.symm⟩)

theorem findSepAux_none {s cur : Name} (h : findSepAux s cur = none) : NoSep s := by
  induction s generalizing cur with
  | nil => intro a b hab; simp [sep] at hab
  | cons c s ih =>
    simp only [findSepAux] at h
    split at h
    · cases h
    · rename_i hp
      have ihs := ih h
      intro a b hab
      cases a with
      | nil => exact hp ((isPrefix_sep_iff _).mpr ⟨b, by simpa using hab⟩)
      | cons a0 a' =>
        simp only [List.cons_append, List.cons.injEq] at hab
        exact ihs a' b (by simpa using hab.2)

/-- the scanner finds `(p, r)` exactly when `p` is free of separators and does not end in a colon, i.e. the
occurrence after `p` is the leftmost one -/
theorem findSepAux_leftmost (p r cur : Name) (hp : NoSep p) (hl : p.getLast? ≠ some ':') :
    findSepAux (p ++ sep ++ r) cur = some (cur.reverse ++ p, r) := by
  induction p generalizing cur with
  | nil => simp [findSepAux, Str.isPrefix, sep]
  | cons c p ih =>
    have hnp : ¬ Str.isPrefix sep (c :: (p ++ sep ++ r)) = true := by
      intro h
      obtain ⟨b, hb⟩ := (isPrefix_sep_iff _).mp h
      cases p with
      | nil =>
        simp only [sep, List.nil_append, List.cons_append, List.cons.injEq] at hb
        exact hl (by simp [hb.1])
      | cons d p' =>
        simp only [sep, List.cons_append, List.cons.injEq] at hb
        exact hp [] p' (by simp [sep, hb.1, hb.2.1])
    have hp' : NoSep p := by
      intro a b hab
      exact hp (c :: a) b (by simp [hab])
    have hl' : p.getLast? ≠ some ':' := by
      cases p with
      | nil => simp
      | cons d p' => simpa [List.getLast?_cons_cons] using hl
    simp only [List.cons_append, findSepAux]
    rw [if_neg (by simpa using hnp)]
    have := ih (c :: cur) hp' hl'
    simpa [List.append_assoc] using this

theorem findSepAux_some_leftmost {s cur p' r : Name} (h : findSepAux s cur = some (p', r)) :
    ∃ p, p' = cur.reverse ++ p ∧ s = p ++ sep ++ r ∧ NoSep p ∧ p.getLast? ≠ some ':' := by
  induction s generalizing cur with
  | nil => simp [findSepAux] at h
  | cons c s ih =>
    simp only [findSepAux] at h
    split at h
    · rename_i hp
      obtain ⟨b, hb⟩ := (isPrefix_sep_iff _).mp hp
      simp only [Option.some.injEq, Prod.mk.injEq] at h
      refine ⟨[], by simp [h.1], ?_, ?_, by simp⟩
      · rw [← h.2, hb]; simp [sep]
      · intro a b hab; simp [sep] at hab
    · rename_i hp
      obtain ⟨p, h1, h2, h3, h4⟩ := ih h
      refine ⟨c :: p, by simp [h1], by simp [h2], ?_, ?_⟩
      · intro a b hab
        cases a with
        | nil =>
          apply hp
          rw [isPrefix_sep_iff]
          have hab' : c :: p = sep ++ b := by simpa using hab
          exact ⟨b ++ sep ++ r, by rw [h2, ← List.cons_append, ← List.cons_append, hab']; simp⟩
        | cons a0 a' =>
          simp only [List.cons_append, List.cons.injEq] at hab
          exact h3 a' b (by simpa using hab.2)
      · cases p with
        | nil =>
          -- `c` alone before the separator: `c = ':'` would make `"::"` start at `c`
          intro hc
          simp only [List.getLast?_singleton, Option.some.injEq] at hc
          apply hp
          rw [isPrefix_sep_iff]
          exact ⟨':' :: r, by rw [h2, hc]; simp [sep]⟩
        | cons d p'' => simpa [List.getLast?_cons_cons] using h4

theorem comps_char (s : Name) :
    joinC (comps s) = s ∧ (∀ c ∈ comps s, NoSep c) ∧ (∀ c ∈ (comps s).dropLast, c.getLast? ≠ some ':') := by
  refine ⟨joinC_comps s, ?_⟩
  induction hn : s.length using Nat.strongRecOn generalizing s with
  | _ n ih =>
    rw [comps_eq]
    cases hfs : findSep s with
    | none =>
      simp only [List.mem_singleton, forall_eq, List.dropLast_singleton, List.not_mem_nil, false_imp_iff,
        implies_true, and_true]
      exact findSepAux_none hfs
    | some pr =>
      obtain ⟨p, r⟩ := pr
      obtain ⟨p0, h1, h2, h3, h4⟩ := findSepAux_some_leftmost hfs
      have hp : p = p0 := by simpa using h1
      subst hp
      have hlen := (findSep_some hfs).2
      obtain ⟨ih1, ih2⟩ := ih r.length (by omega) r rfl
      have hne := comps_ne_nil r
      simp only
      refine ⟨?_, ?_⟩
      · intro c hc
        rcases List.mem_cons.mp hc with rfl | hc'
        · exact h3
        · exact ih1 c hc'
      · intro c hc
        cases hcr : comps r with
        | nil => exact absurd hcr hne
        | cons d ds =>
          rw [hcr, List.dropLast_cons_cons] at hc
          rcases List.mem_cons.mp hc with rfl | hc'
          · exact h4
          · exact ih2 c (by rw [hcr]; exact hc')

theorem comps_unique (s : Name) (cs : List Name) (hne : cs ≠ []) (h : joinC cs = s)
    (h1 : ∀ c ∈ cs, NoSep c) (h2 : ∀ c ∈ cs.dropLast, c.getLast? ≠ some ':') : cs = comps s := by
  induction cs generalizing s with
  | nil => exact absurd rfl hne
  | cons c cs ih =>
    cases cs with
    | nil =>
      simp only [joinC] at h
      subst h
      rw [comps_eq]
      have hns := h1 c (by simp)
      cases hfs : findSep c with
      | none => rfl
      | some pr =>
        obtain ⟨p, r⟩ := pr
        exact absurd (findSep_some hfs).1 (hns p r)
    | cons d ds =>
      simp only [joinC] at h
      subst h
      have hfs : findSep (c ++ sep ++ joinC (d :: ds)) = some (c, joinC (d :: ds)) := by
        have := findSepAux_leftmost c (joinC (d :: ds)) [] (h1 c (by simp))
          (h2 c (by simp [List.dropLast_cons_cons]))
        simpa [findSep] using this
      rw [comps_eq, hfs]
      simp only [List.cons.injEq, true_and]
      apply ih _ (by simp) rfl
      · intro x hx; exact h1 x (by simp [hx])
      · intro x hx; exact h2 x (by rw [List.dropLast_cons_cons]; simp [hx])

/-! ### reordering attachment lists permutes the deliveries -/

def entRel (e e' : Ent Name) : Prop :=
  e.comps = e'.comps ∧ e.level = e'.level ∧ e.additive = e'.additive ∧ e.apps.Perm e'.apps

theorem lookupE_attachPerm {ls ls' : List LoggerCfg} (h : AttachPermL ls ls') (p : List Name) :
    match lookupE (ls.map entOfCfg) p, lookupE (ls'.map entOfCfg) p with
    | some e, some e' => entRel e e'
    | none, none => True
    | _, _ => False := by
  induction h with
  | nil => simp [lookupE]
  | @cons l l' ls ls' hn hlv ha hp _ ih =>
    simp only [List.map_cons, lookupE, List.find?_cons, entOfCfg, hn] at ih ⊢
    by_cases hc : comps l'.name = p
    · simp only [hc, decide_true]
      exact ⟨rfl, hlv, ha, hp⟩
    · simp only [hc, decide_false]
      exact ih

theorem res_attachPerm {ls ls' : List LoggerCfg} (h : AttachPermL ls ls') (lvl : Nat) (ra ra' : List Name)
    (hr : ra.Perm ra') (p : List Name) :
    (res (lvl, ra) (ls.map entOfCfg) p).1 = (res (lvl, ra') (ls'.map entOfCfg) p).1 ∧
      (res (lvl, ra) (ls.map entOfCfg) p).2.Perm (res (lvl, ra') (ls'.map entOfCfg) p).2 := by
  induction p using snoc_induction with
  | hnil => exact ⟨rfl, hr⟩
  | hsnoc p c ih =>
    rw [res_concat, res_concat]
    have hl := lookupE_attachPerm h (p ++ [c])
    cases h1 : lookupE (ls.map entOfCfg) (p ++ [c]) <;> cases h2 : lookupE (ls'.map entOfCfg) (p ++ [c]) <;>
      rw [h1, h2] at hl
    · exact ih
    · exact absurd hl id
    · exact absurd hl id
    · rename_i e e'
      obtain ⟨_, hlv, hadd, hperm⟩ := hl
      refine ⟨hlv, ?_⟩
      simp only
      rw [← hadd]
      cases e.additive
      · simpa using hperm
      · simpa using hperm.append ih.2

end Log4rs.Routing.Tree
