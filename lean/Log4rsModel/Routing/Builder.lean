import Log4rsModel.Routing.Config
import Log4rsModel.Base.Outcome
/-
C13 — model of `ConfigBuilder::build_lossy` / `build` (src/config/runtime.rs 98–166) and of the
name→index resolution in `SharedLogger::new_with_err_handler` (src/lib.rs 346–374), followed by the
executable specification read off the English statement.

Part 1 (model) follows the Rust loops one by one; the two `HashSet`s are lists of the names inserted
so far (`contains` = membership). Part 2 (spec) never mentions a "seen" set: it speaks about the
position of an item and the items declared before it.
-/
namespace Log4rs.Routing

/-! ## Part 1 — the model -/

/-- `ConfigError` without its payload -/
inductive ErrKind where
  | dupAppender      -- DuplicateAppenderName
  | nonexistent      -- NonexistentAppender
  | dupLogger        -- DuplicateLoggerName
  | invalidName      -- InvalidLoggerName
  deriving Repr, DecidableEq

structure CfgError where
  kind : ErrKind
  name : Name
  deriving Repr, DecidableEq

/-- an `Appender` handed to the builder: its name and the identity of the boxed `Append` object
(the position at which it was handed over), so that "first occurrence wins" is observable -/
structure AppenderDecl where
  name : Name
  id : Nat
  deriving Repr, DecidableEq

/-- what a `ConfigBuilder` plus the `Root` passed to `build` hold -/
structure BuilderInput where
  appenders : List AppenderDecl
  rootLevel : Nat
  rootAppenders : List Name
  loggers : List LoggerCfg
  deriving Repr, DecidableEq

/-- first loop: `if appender_names.insert(name) { ok.push } else { errors.push(Duplicate…) }`.
Returns (ok_appenders, appender_names after the loop, errors). -/
def appLoop : List AppenderDecl → List Name → List AppenderDecl × List Name × List CfgError
  | [], seen => ([], seen, [])
  | a :: rest, seen =>
    if seen.contains a.name then
      let r := appLoop rest seen
      (r.1, r.2.1, ⟨.dupAppender, a.name⟩ :: r.2.2)
    else
      let r := appLoop rest (a.name :: seen)
      (a :: r.1, r.2.1, r.2.2)

/-- reference loop (root and each kept logger):
`if appender_names.contains(&r) { ok.push(r) } else { errors.push(Nonexistent…(r)) }` -/
def refLoop (names : List Name) : List Name → List Name × List CfgError
  | [] => ([], [])
  | r :: rest =>
    let t := refLoop names rest
    if names.contains r then (r :: t.1, t.2) else (t.1, ⟨.nonexistent, r⟩ :: t.2)

/-- logger loop: duplicate test first (the name is inserted even when it is invalid), then
`check_logger_name`, then the reference loop. -/
def logLoop (names : List Name) : List LoggerCfg → List Name → List LoggerCfg × List CfgError
  | [], _ => ([], [])
  | l :: rest, seen =>
    if seen.contains l.name then
      let r := logLoop names rest seen
      (r.1, ⟨.dupLogger, l.name⟩ :: r.2)
    else if !checkLoggerName l.name then
      let r := logLoop names rest (l.name :: seen)
      (r.1, ⟨.invalidName, l.name⟩ :: r.2)
    else
      let refs := refLoop names l.appenders
      let r := logLoop names rest (l.name :: seen)
      ({ l with appenders := refs.1 } :: r.1, refs.2 ++ r.2)

structure LossyResult where
  config : Config
  /-- the `Append` objects that travel with `config.appenders` (same order) -/
  kept : List AppenderDecl
  errors : List CfgError
  deriving Repr, DecidableEq

/-- `ConfigBuilder::build_lossy` -/
def buildLossy (inp : BuilderInput) : LossyResult :=
  let a := appLoop inp.appenders []
  let names := a.2.1
  let r := refLoop names inp.rootAppenders
  let l := logLoop names inp.loggers []
  { config := { appenders := a.1.map (·.name), rootLevel := inp.rootLevel,
                rootAppenders := r.1, loggers := l.1 },
    kept := a.1,
    errors := a.2.2 ++ r.2 ++ l.2 }

/-- `ConfigBuilder::build` -/
def build (inp : BuilderInput) : Except (List CfgError) Config :=
  let r := buildLossy inp
  if r.errors.isEmpty then .ok r.config else .error r.errors

def isOk {ε α} : Except ε α → Bool
  | .ok _ => true
  | .error _ => false

/-- `appender_map = appenders.iter().enumerate().map(|(i,a)| (a.name(), i)).collect::<HashMap>()`
followed by `appender_map[name]`: a later entry with the same key overwrites an earlier one, a
missing key panics (`none`). `base` is the index of the head of the list. -/
def lookupLast (r : Name) : List Name → Nat → Option Nat
  | [], _ => none
  | n :: rest, base =>
    match lookupLast r rest (base + 1) with
    | some i => some i
    | none => if n = r then some base else none

def resolveRefs (table : List Name) : List Name → Option (List Nat)
  | [] => some []
  | r :: rest =>
    match lookupLast r table 0, resolveRefs table rest with
    | some i, some is => some (i :: is)
    | _, _ => none

def resolveLoggers (table : List Name) : List LoggerCfg → Option (List (LoggerCfg × List Nat))
  | [] => some []
  | l :: rest =>
    match resolveRefs table l.appenders, resolveLoggers table rest with
    | some is, some t => some ((l, is) :: t)
    | _, _ => none

structure Resolved where
  root : List Nat
  loggers : List (LoggerCfg × List Nat)
  deriving Repr, DecidableEq

/-- the indexing part of `SharedLogger::new_with_err_handler`; `none` = the `HashMap` index panics.
(The loggers are sorted by name length before they are resolved; the result here is in declaration
order — whether *some* lookup panics does not depend on the order.) -/
def resolveAll (cfg : Config) : Option Resolved :=
  match resolveRefs cfg.appenders cfg.rootAppenders, resolveLoggers cfg.appenders cfg.loggers with
  | some r, some ls => some { root := r, loggers := ls }
  | _, _ => none

/-- `Logger::new(config)` as an explicit outcome -/
def install (cfg : Config) : Outcome Unit Resolved :=
  match resolveAll cfg with
  | some r => .ok r
  | none => .panic "appender_map[name]: key not found"

/-! ## Part 2 — the executable specification -/

/-- lengths of the maximal runs of ':' in a name, left to right (`run` = length of the run that is
open at the head) -/
def colonRunsAux : List Char → Nat → List Nat
  | [], run => if run = 0 then [] else [run]
  | c :: cs, run =>
    if c = ':' then colonRunsAux cs (run + 1)
    else (if run = 0 then [] else [run]) ++ colonRunsAux cs 0

def colonRuns (s : Name) : List Nat := colonRunsAux s 0

/-- "non-empty, colons only in pairs, none trailing" -/
def specName (s : Name) : Bool :=
  !s.isEmpty && (colonRuns s).all (· == 2) && s.getLast? != some ':'


/-- every item of `xs` together with the items declared before it -/
def withEarlier {α} (xs : List α) : List (List α × α) :=
  xs.zipIdx.map fun p => (xs.take p.2, p.1)

/-- the same by recursion, for proofs: `hist pre xs` pairs each item of `xs` with `pre` plus the
items of `xs` before it -/
def hist {α} : List α → List α → List (List α × α)
  | _, [] => []
  | pre, x :: xs => (pre, x) :: hist (pre ++ [x]) xs

/-- the item repeats the key of an earlier item -/
def repeats {α} (key : α → Name) (p : List α × α) : Bool := (p.1.map key).contains (key p.2)

/-- first occurrences, in the original order -/
def firstsBy {α} (key : α → Name) (xs : List α) : List α :=
  ((withEarlier xs).filter fun p => !repeats key p).map (·.2)

/-- all declared appender names (valid or duplicate) -/
def declared (inp : BuilderInput) : List Name := inp.appenders.map (·.name)

def stripDangling (inp : BuilderInput) (refs : List Name) : List Name :=
  refs.filter fun r => (declared inp).contains r

def dangling (inp : BuilderInput) (refs : List Name) : List Name :=
  refs.filter fun r => !(declared inp).contains r

/-- "the configuration made of exactly the valid items in their original order (first occurrence
wins among duplicates, dangling references stripped)" -/
def specLossy (inp : BuilderInput) : Config × List AppenderDecl :=
  let apps := firstsBy (·.name) inp.appenders
  ({ appenders := apps.map (·.name),
     rootLevel := inp.rootLevel,
     rootAppenders := stripDangling inp inp.rootAppenders,
     loggers := ((firstsBy (·.name) inp.loggers).filter fun l => specName l.name).map
                  fun l => { l with appenders := stripDangling inp l.appenders } },
   apps)

/-- the errors a logger item calls for: it is a non-first duplicate, or else its name is invalid,
or else (the logger is kept) each of its dangling references -/
def loggerItemErrors (inp : BuilderInput) (p : List LoggerCfg × LoggerCfg) : List CfgError :=
  if repeats (·.name) p then [⟨.dupLogger, p.2.name⟩]
  else if !specName p.2.name then [⟨.invalidName, p.2.name⟩]
  else (dangling inp p.2.appenders).map fun r => ⟨.nonexistent, r⟩

/-- the offending items, named, in the order appenders / root references / loggers -/
def specErrors (inp : BuilderInput) : List CfgError :=
  (((withEarlier inp.appenders).filter fun p => repeats (·.name) p).map
      fun p => (⟨.dupAppender, p.2.name⟩ : CfgError))
  ++ (dangling inp inp.rootAppenders).map (fun r => ⟨.nonexistent, r⟩)
  ++ (withEarlier inp.loggers).flatMap (loggerItemErrors inp)

/-- The offending items AS THE BUILDER REPORTS THEM (kind, name) — this is a reading decision, the
statement's "offending item" made precise by what the error type can name:
* an appender whose name was already used by an earlier appender;
* a reference of the root to a name no appender (valid or duplicate) declares;
* a logger whose name was already used by an earlier logger (whatever the validity of the name);
* a logger that is the first with its name, the name being malformed;
* a dangling reference of a *kept* logger (first with its name, name well-formed).
A dangling reference inside a logger that is itself dropped is NOT in this list: the logger is the
named item. What is guaranteed for such references — they sit in a logger that is reported under
another kind — is `C13_every_defect_covered`; that nothing else can make an input ill-formed is
`C13_wellFormed_iff_no_raw_defect`. -/
inductive Offending (inp : BuilderInput) : CfgError → Prop
  | dupAppender (i : Nat) (a : AppenderDecl) :
      inp.appenders[i]? = some a → a.name ∈ (inp.appenders.take i).map (·.name) →
      Offending inp ⟨.dupAppender, a.name⟩
  | danglingRoot (r : Name) :
      r ∈ inp.rootAppenders → r ∉ declared inp → Offending inp ⟨.nonexistent, r⟩
  | dupLogger (i : Nat) (l : LoggerCfg) :
      inp.loggers[i]? = some l → l.name ∈ (inp.loggers.take i).map (·.name) →
      Offending inp ⟨.dupLogger, l.name⟩
  | invalidName (i : Nat) (l : LoggerCfg) :
      inp.loggers[i]? = some l → l.name ∉ (inp.loggers.take i).map (·.name) →
      specName l.name = false → Offending inp ⟨.invalidName, l.name⟩
  | danglingLogger (i : Nat) (l : LoggerCfg) (r : Name) :
      inp.loggers[i]? = some l → l.name ∉ (inp.loggers.take i).map (·.name) →
      specName l.name = true → r ∈ l.appenders → r ∉ declared inp →
      Offending inp ⟨.nonexistent, r⟩

/-- the input taken as it is -/
def BuilderInput.toConfig (inp : BuilderInput) : Config :=
  { appenders := declared inp, rootLevel := inp.rootLevel,
    rootAppenders := inp.rootAppenders, loggers := inp.loggers }

/-- "appender names are unique, logger names are unique and well-formed, and every appender
referenced by the root or a logger exists" -/
def WellFormed (inp : BuilderInput) : Prop :=
  (declared inp).Nodup ∧
  (inp.loggers.map (·.name)).Nodup ∧
  (∀ l ∈ inp.loggers, specName l.name = true ∧ ∀ r ∈ l.appenders, r ∈ declared inp) ∧
  (∀ r ∈ inp.rootAppenders, r ∈ declared inp)

def wellFormedB (inp : BuilderInput) : Bool :=
  (declared inp).Nodup &&
  (inp.loggers.map (·.name)).Nodup &&
  inp.loggers.all (fun l => specName l.name && l.appenders.all ((declared inp).contains ·)) &&
  inp.rootAppenders.all ((declared inp).contains ·)

end Log4rs.Routing
