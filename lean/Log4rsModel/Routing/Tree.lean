import Log4rsModel.Base.Str
import Log4rsModel.Base.Level
import Log4rsModel.Routing.Config
/-
Executable model of the routing tree of `src/lib.rs` (C01, C02), function by function:
`ConfiguredLogger::{add, find, max_log_level, enabled, log}`, `SharedLogger::new_with_err_handler`
(name → index map, stable sort by byte length, insertion), `Log for Logger`, and the history machine
`init_* ; (Handle::set_config | failing init_* | file reload)*` with the `log` facade's global maximum level.
`FnvHashMap<String, ConfiguredLogger>` is an association list: `get` = `lookup`, `get_mut` + assignment =
`setChild`, `insert` of an absent key = append.
-/
namespace Log4rs.Routing.Tree
open Log4rs

/-- the separator `"::"` -/
def sep : List Char := [':', ':']

/-- number of bytes of the UTF-8 encoding of one scalar value (`char::len_utf8`) -/
def utf8Len (c : Char) : Nat :=
  if c.toNat < 0x80 then 1 else if c.toNat < 0x800 then 2 else if c.toNat < 0x10000 then 3 else 4

/-- `str::len` -/
def byteLen : Name → Nat
  | [] => 0
  | c :: cs => utf8Len c + byteLen cs

/-- `str::split("::")` -/
def comps (s : Name) : List Name := Str.splitOn sep s

/-- `struct ConfiguredLogger { level, appenders, children }` -/
inductive Node where
  | mk (level : Nat) (apps : List Nat) (children : List (Name × Node))

namespace Node
def level : Node → Nat | mk l _ _ => l
def apps : Node → List Nat | mk _ a _ => a
def children : Node → List (Name × Node) | mk _ _ c => c
end Node

/-- `HashMap::get` -/
def lookup (k : Name) : List (Name × Node) → Option Node
  | [] => none
  | (k', n) :: rest => if k' = k then some n else lookup k rest

/-- the effect of mutating the value found by `HashMap::get_mut` -/
def setChild (k : Name) (new : Node) : List (Name × Node) → List (Name × Node)
  | [] => []
  | (k', n) :: rest => if k' = k then (k', new) :: rest else (k', n) :: setChild k new rest

/-- `match path.find("::") { Some(idx) => (&path[..idx], &path[idx + 2..]), None => (path, "") }`,
scanning for the leftmost occurrence exactly as `Str.splitOnAux` does -/
def splitFirstAux : List Char → List Char → Name × Name
  | [], cur => (cur.reverse, [])
  | c :: s, cur =>
    if Str.isPrefix sep (c :: s) then (cur.reverse, (c :: s).drop sep.length)
    else splitFirstAux s (c :: cur)

def splitFirst (path : Name) : Name × Name := splitFirstAux path []

/-- `ConfiguredLogger::add`, returning the new node and whether the call (or a recursive one) took the
branch "child exists and `rest` is empty" (`child.add("")`).
The recursion of the Rust function follows `rest`, which gets shorter whenever a `"::"` was found; when
none was found and the child exists, the code calls `child.add("")`, which keeps descending through
children keyed `""` — that is the only way the path does not shrink. Lean needs a structurally decreasing
argument: the fuel. `add` passes `path length + depth of the tree + 1`; `addAux_fuel` (LemmasTree) proves
that any larger fuel gives the same result, i.e. the `0` arm is never what `add` returns. -/
def addAux : Nat → Node → Name → List Nat → Bool → Nat → Node × Bool
  | 0, node, _, _, _, _ => (node, false)
  | fuel + 1, node, path, apps, additive, level =>
    let pr := splitFirst path
    match lookup pr.1 node.children with
    | some child =>
      let r := addAux fuel child pr.2 apps additive level
      (Node.mk node.level node.apps (setChild pr.1 r.1 node.children), pr.2.isEmpty || r.2)
    | none =>
      if pr.2.isEmpty then
        (Node.mk node.level node.apps
          (node.children ++ [(pr.1, Node.mk level (apps ++ (if additive then node.apps else [])) [])]), false)
      else
        let r := addAux fuel (Node.mk node.level node.apps []) pr.2 apps additive level
        (Node.mk node.level node.apps (node.children ++ [(pr.1, r.1)]), r.2)

mutual
/-- `ConfiguredLogger::max_log_level`: `max = self.level; for child { max = cmp::max(max, child.max()) }` -/
def Node.maxLevel : Node → Nat
  | .mk l _ cs => maxLevelList cs l
def maxLevelList : List (Name × Node) → Nat → Nat
  | [], m => m
  | (_, n) :: rest, m => maxLevelList rest (max m n.maxLevel)
end

mutual
def Node.depth : Node → Nat
  | .mk _ _ cs => depthList cs
def depthList : List (Name × Node) → Nat
  | [] => 0
  | (_, n) :: rest => max (n.depth + 1) (depthList rest)
end

def add (node : Node) (path : Name) (apps : List Nat) (additive : Bool) (level : Nat) : Node × Bool :=
  addAux (path.length + node.depth + 1) node path apps additive level

/-- `ConfiguredLogger::find`: `for part in path.split("::") { match get(part) { Some(c) => node = c, None => break } }` -/
def find : Node → List Name → Node
  | node, [] => node
  | node, part :: rest =>
    match lookup part node.children with
    | some child => find child rest
    | none => node

/-! ### `SharedLogger::new_with_err_handler` -/

/-- `appender_map[name]` for the map collected from `(name, index)` pairs: a later entry overwrites an
earlier one, a missing key panics (`none`). -/
def lastIdx : List Name → Name → Option Nat
  | [], _ => none
  | x :: xs, a =>
    match lastIdx xs a with
    | some i => some (i + 1)
    | none => if x = a then some 0 else none

def resolve (tbl : List Name) : List Name → Option (List Nat)
  | [] => some []
  | a :: as =>
    match lastIdx tbl a, resolve tbl as with
    | some i, some is => some (i :: is)
    | _, _ => none

/-- a logger with its appender references resolved to indices -/
structure RLogger where
  name : Name
  level : Nat
  additive : Bool
  apps : List Nat
  deriving Repr, DecidableEq

def resolveLoggers (tbl : List Name) : List LoggerCfg → Option (List RLogger)
  | [] => some []
  | l :: ls =>
    match resolve tbl l.appenders, resolveLoggers tbl ls with
    | some is, some rs => some ({ name := l.name, level := l.level, additive := l.additive, apps := is } :: rs)
    | _, _ => none

/-- stable insertion: `x` goes before the first element whose key is not smaller -/
def insertByKey {α} (key : α → Nat) (x : α) : List α → List α
  | [] => [x]
  | y :: ys => if key y < key x then y :: insertByKey key x ys else x :: y :: ys

/-- `slice::sort_by_key` (stable) -/
def sortByKey {α} (key : α → Nat) : List α → List α
  | [] => []
  | x :: xs => insertByKey key x (sortByKey key xs)

/-- one iteration of `for logger in loggers { root.add(..) }`; the Boolean accumulates "the `child.add("")`
branch was taken somewhere so far" -/
def addLogger (st : Node × Bool) (l : RLogger) : Node × Bool :=
  let r := add st.1 l.name l.apps l.additive l.level
  (r.1, st.2 || r.2)

def buildTree (rootLevel : Nat) (rootApps : List Nat) (ls : List RLogger) : Node × Bool :=
  (sortByKey (fun l => byteLen l.name) ls).foldl addLogger (Node.mk rootLevel rootApps [], false)

/-- the tree of `SharedLogger::new`; `none` = panic in `appender_map[..]` -/
def build (cfg : Config) : Option Node :=
  match resolve cfg.appenders cfg.rootAppenders, resolveLoggers cfg.appenders cfg.loggers with
  | some ra, some ls => some (buildTree cfg.rootLevel ra ls).1
  | _, _ => none

/-- was the `child.add("")` branch taken anywhere while building? (read off the same `addAux` calls) -/
def buildWeird (cfg : Config) : Option Bool :=
  match resolve cfg.appenders cfg.rootAppenders, resolveLoggers cfg.appenders cfg.loggers with
  | some ra, some ls => some (buildTree cfg.rootLevel ra ls).2
  | _, _ => none

/-! ### `Log for Logger` -/

/-- `appenders[idx]`: the appender behind an index; out of range = the slice-index panic (`none`).
Indices stored in the tree come from `lastIdx`, so this never happens (`build_spec`, C01_deliver_eq_spec). -/
def namesOf (tbl : List Name) : List Nat → Option (List Name)
  | [] => some []
  | i :: is =>
    match tbl[i]?, namesOf tbl is with
    | some a, some as => some (a :: as)
    | _, _ => none

/-- the loop of `ConfiguredLogger::log` over the appenders behind the indices, when appenders may return `Err`:
`for &idx in &self.appenders { if let Err(err) = appenders[idx].append(record) { errors.push(err) } }` —
every one is called, an error is pushed and the loop goes on; `Logger::log` hands the collected errors
to the error handler afterwards. Result: (appenders called, appenders whose error was reported), in order. -/
def appendLoop (fails : Name → Bool) : List Name → List Name × List Name
  | [] => ([], [])
  | a :: as =>
    let r := appendLoop fails as
    (a :: r.1, if fails a then a :: r.2 else r.2)

/-- `ConfiguredLogger::log`: threshold, then every appender index in order; `none` = index panic -/
def logNode (tbl : List Name) (n : Node) (lvl : Nat) : Option (List Name) :=
  if admits n.level lvl then namesOf tbl n.apps else some []

/-- … with failing appenders: calls and reported errors -/
def logNodeF (tbl : List Name) (fails : Name → Bool) (n : Node) (lvl : Nat) : Option (List Name × List Name) :=
  if admits n.level lvl then (namesOf tbl n.apps).map (appendLoop fails) else some ([], [])

/-- `Logger::log` with failing appenders: calls and reported errors -/
def deliverF (cfg : Config) (fails : Name → Bool) (target : Name) (lvl : Nat) : Option (List Name × List Name) :=
  (build cfg).bind fun tree => logNodeF cfg.appenders fails (find tree (comps target)) lvl

/-- names of the appenders called by `Logger::log` for a record, in call order -/
def deliver (cfg : Config) (target : Name) (lvl : Nat) : Option (List Name) :=
  (build cfg).bind fun tree => logNode cfg.appenders (find tree (comps target)) lvl

/-- `Logger::enabled` -/
def enabled (cfg : Config) (target : Name) (lvl : Nat) : Option Bool :=
  (build cfg).map fun tree => admits (find tree (comps target)).level lvl

/-- `Logger::max_log_level` -/
def maxLogLevel (cfg : Config) : Option Nat := (build cfg).map Node.maxLevel

/-! ### history machine of C02 -/

/-- the four initialisation paths; each one builds the logger, installs it with `log::set_boxed_logger`
and — only when that succeeded (d39d776) — calls `log::set_max_level(logger.max_log_level())` -/
inductive InitPath where
  | config | configWithErrHandler | rawConfig | file
  deriving Repr, DecidableEq

/-- what happens to a process after its first, successful initialisation -/
inductive Step where
  /-- `Handle::set_config(cfg)` -/
  | setConfig (cfg : Config)
  /-- a further `init_*` call: `set_boxed_logger` refuses (a logger is installed), the call returns `Err` -/
  | reinit (path : InitPath) (cfg : Config)
  /-- the file reloader (`ConfigReloader::run_once`, the refresh thread of `init_file`) found the file
  changed to a document denoting `cfg` and applied it: `self.handle.set_config(config)` — the same
  `Handle::set_config` as an application call, through the reloader's clone of the handle. Which clone of
  the handle a `set_config` goes through, and on which thread, is not part of the state: all clones share
  the one `Arc<ArcSwap<SharedLogger>>` and the one process-wide `log::max_level()`. -/
  | reload (cfg : Config)

/-- one process: initialised once, then any sequence of reconfigurations through the handle and of
further (failing) initialisation attempts -/
structure History where
  path : InitPath
  first : Config
  steps : List Step

structure State where
  cfg : Config          -- configuration of the installed `SharedLogger`
  globalMax : Nat       -- `log::max_level()`
  deriving Repr, DecidableEq

/-- the first `init_*` and `Handle::set_config` alike: build, install/store, `set_max_level(max_log_level())` -/
def install (cfg : Config) : Option State :=
  (build cfg).map fun tree => { cfg := cfg, globalMax := tree.maxLevel }

/-- A further initialisation attempt returns `Err` and, in the code as it is now (`fixed = true`), changes
nothing. `fixed = false` keeps the historical behaviour (before d39d776): the attempt, when it got as
far as `set_boxed_logger` (a configuration the builder accepts), had already called
`log::set_max_level` with the *rejected* logger's maximum, while the installed logger stayed. -/
def reinit (fixed : Bool) (s : State) (_path : InitPath) (cfg : Config) : State :=
  if fixed then s
  else if validB cfg then
    match build cfg with
    | some tree => { s with globalMax := tree.maxLevel }
    | none => s
  else s

/-- the `Result` of a further initialisation attempt is never `Ok` -/
def reinitReturnsOk : Bool := false

def step (fixed : Bool) (s : State) : Step → Option State
  | .setConfig c => install c
  | .reinit p c => some (reinit fixed s p c)
  | .reload c => install c

def steps (fixed : Bool) : State → List Step → Option State
  | s, [] => some s
  | s, st :: rest =>
    match step fixed s st with
    | some s' => steps fixed s' rest
    | none => none

def runWith (fixed : Bool) (h : History) : Option State :=
  match install h.first with
  | some s => steps fixed s h.steps
  | none => none

/-- the code as it is -/
def run (h : History) : Option State := runWith true h

/-- the configuration a step installs, if any -/
def Step.installs : Step → Option Config
  | .setConfig c => some c
  | .reinit _ _ => none
  | .reload c => some c

/-- the configurations that were installed, in order: the first one, every `set_config` and every reload -/
def installedCfgs (h : History) : List Config :=
  h.first :: h.steps.filterMap Step.installs

/-- the `log!` macros: `if lvl <= log::max_level() { logger.log(record) }` (facade contract) -/
def macroLog (s : State) (target : Name) (lvl : Nat) : Option (List Name) :=
  if lvl ≤ s.globalMax then deliver s.cfg target lvl else some []

end Log4rs.Routing.Tree
